"""C09 — session descriptions survive parse/serialise round trips.

Model: lean/Aiortc/Model/Sdp/{Lex,Attr,Session}.lean (L1 lexer, L2 per-attribute codecs, L3 whole
description).  Correspondence is function-level and in both directions: for every SDP text the real
`SessionDescription.parse` result (canonical string of ALL fields) and `str(parse(text))` are diffed against
the compiled model; the attribute codecs and the lexer primitives are diffed separately.
The oracle evaluates the clauses of the property on the implementation alone.

Round 3: the model is a set of pure functions, the implementation returns graphs of mutable objects.  Every parse case
(descriptions, candidate lines, fmtp / group / address helpers, the signalling helper for descriptions, candidates with
sdpMid / sdpMLineIndex, BYE) is evaluated several times in one process around a hostile owner who modifies every mutable
part of the first result (`harness/c09hostile.py`); the parts of one result are modified one at a time; serialisers run on
objects whose fields are overwritten in place and restored; the `ops` component runs step sequences over a pool of live
results (texts that share candidate / fmtp / fingerprint lines, the same line trickled for several m-sections) against
the pure reference semantics `Model/Sdp/Ops.lean`.  All of this happens in forked children (`Isolated`): the parent, where
the oracles compute their references, never modifies a result."""
from __future__ import annotations

import ast
import asyncio
import os
import string

from harness import core
from harness.c09hostile import Isolated, hostile, snap_diff, snapshot
from harness.check import Component

LEAN_TARGETS = ["Aiortc.Props.C09", "Aiortc.Props.C09Examples", "Aiortc.Props.C09Text", "Aiortc.Props.C09Ops"]
AUDIT_PROPS = ["C09", "C09Text", "C09Ops"]
DRIVERS = ["Sdp"]
MANIFEST = {
    "technique": "Lean 4 theorems over an executable three-layer model of sdp.py (lexer, attribute codecs, whole description) "
                 "+ bidirectional function-level differential run (model parse vs real parse, model print vs real str) "
                 "+ implementation-side round-trip oracle",
    "text": "Round-trip theorems are proved for ALL well-formed values of every attribute codec (ICE candidates, fmtp parameters, groups, "
            "rtpmap, rtcp-fb, extmap, fingerprint/setup, ssrc, sctpmap, decimal ints) and idempotence for ALL accepted candidate / fmtp / group "
            "texts; media_roundtrip proves that for EVERY structurally valid media section MediaDescription.__str__ followed by the media part "
            "of SessionDescription.parse (header, first pass, DTLS fix-up, second pass) recovers every field; the whole-description "
            "parser/printer is modelled line by line and tied to the real code by correspondence on real "
            "offers/answers, generated descriptions, the browser SDPs of tests/test_sdp.py and line-level mutations.",
    "note": "session_roundtrip / generated_fixed_point lift this to whole SessionDescription objects (grouplines, session lines, splitlines). "
            "Props/C09Text.lean proves whole-text idempotence for ARBITRARY accepted text with no hypothesis (text_idempotent : TextIdempotent; "
            "accepted_text_roundtrip: serialisation of any parser output succeeds, is accepted again, parses to the normal form normS of the first "
            "result and is a fixed point): parse_output_canonical (everything parse returns satisfies the invariant ParsedSession, proved through the "
            "m= line, all 20 branches of the first pass, the DTLS fix-up, the second pass and the session lines), canonical_norm_wf (its normal form "
            "is WFSession), print_norm_invariant, printed_lines_nobreak, canonical_fixed_point; media_idempotent is the media-section instance. "
            "Props/C09Ops.lean (ops_parse_pure, ops_reparse_same, ops_cand_pure, ops_str_current_value, ops_parsed_then_str, ops_slots_independent, "
            "ops_trickle_keeps_mid, ops_assign_roundtrip): in the reference semantics of a process that owns a pool of results, a parse observes its "
            "text only and a serialiser the current value of its object only, after ANY history; the 'ops' correspondence and the repeated "
            "evaluations around a hostile owner in every component hold the mutable implementation objects to that.",
    "design_ref": "DESIGN.md §2 C09",
}
ASSUMPTIONS = [
    "attribute-level round-trip theorems assume well-formed values: tokens are non-empty and contain no Python whitespace (resp. no ';', '=', '/', ':' "
    "where the grammar uses them as separators); fmtp values are ints exactly for the keys of FMTP_INT_PARAMETERS",
    "int() is modelled for ASCII digits with optional sign, '_' separators and surrounding whitespace; non-ASCII decimal digits and the 4300-digit limit are outside the model",
    "media_roundtrip assumes WFMedia (structurally valid media section: separator-free tokens, unique payload types / ssrc ids / sctpmap keys, audio channels 1 or 2, "
    "msid non-empty, rtcp-mux only with an rtcp port, every ssrc with a known attribute, DTLS role in auto/client/server)",
    "session_roundtrip / generated_fixed_point assume WFSession (origin present; origin/name/time without trailing blank; groups made of tokens; every media WFMedia; "
    "one ice-lite value for all media) and, for the text-level statement, that no printed line contains a line-break character",
    "whole-text idempotence (Props/C09Text.lean: text_idempotent, accepted_text_roundtrip) has NO hypothesis on the text; it is a statement about the model's "
    "parse/print (tied to the real code by the 'session' correspondence on every generated case) and inherits the modelling limits of int() above",
]
TRUSTED_EXTRA = [
    "Python str.split/splitlines/strip/join/int/str and ipaddress.ip_address are modelled (Model/Sdp/Lex.lean, isIPv4/isIPv6 in Attr.lean) and tied by the 'lex' and 'ip' correspondences only",
    "re.match of the two regular expressions in sdp.py is modelled by hand (mediaHeader, ipaddressFromSdp)",
    "json.dumps/json.loads in contrib/signaling.py are trusted; the helper is only exercised by the oracle",
    "history independence is checked for state inside one process (fork isolation per run / per shrink step); the hostile owner and the snapshots go through public "
    "attributes only; session-level a=fingerprint objects shared by the m-sections of ONE parse result are left alone (notes/C09.md)",
]
RULE = ("session cases: real createOffer/createAnswer/localDescription objects over audio/video/datachannel × directions × bundle policy, generated "
        "structurally valid SessionDescription objects, the browser SDPs embedded in tests/test_sdp.py, and line-level mutations of all of these; "
        "candidate / fmtp / group / ip / lexer cases: structured values plus malformed token streams; every case carries k (what the hostile owner "
        "of the first result does before the same text is parsed again), object cases a previous value of the object, candidate cases the "
        "m-sections the line is trickled for; ops cases: 4-30 steps (parse / candidate / trickle / owner modifies / owner overwrites / print) over "
        "2-4 texts sharing candidate, fmtp and fingerprint lines; distinct = distinct canonical case")

SAFE = set(string.ascii_letters + string.digits + "-_./:+=*@")


# ------------------------------------------------------------------------------------------------
# canonical encoding (mirrors lean/Aiortc/Drv/Sdp.lean)
# ------------------------------------------------------------------------------------------------

def enc(s: str) -> str:
    return "'" + "".join(c if c in SAFE else "%" + format(ord(c), "x") + ";" for c in s)


def opt(f, v):
    return "~" if v is None else f(v)


def lst(f, l):
    return "[" + ",".join(f(x) for x in l) + "]"


def rec(*xs):
    return "(" + " ".join(xs) + ")"


def sb(b):
    return "T" if b else "F"


def si(i):
    return str(int(i))


def pval(v):
    if v is None:
        return "~"
    if isinstance(v, bool):
        return "bool?"
    if isinstance(v, int):
        return si(v)
    return enc(v)


def canon_cand(c: dict) -> str:
    return rec(enc(c["foundation"]), si(c["component"]), enc(c["protocol"]), si(c["priority"]), enc(c["ip"]),
               si(c["port"]), enc(c["type"]), opt(enc, c.get("raddr")), opt(si, c.get("rport")), opt(enc, c.get("tcptype")))


def canon_params(p) -> str:
    return lst(lambda kv: rec(enc(kv[0]), pval(kv[1])), p)


def canon_group(f, g) -> str:
    return rec(enc(g[0]), lst(f, g[1]))


def canon_codec(c: dict) -> str:
    return rec(enc(c["mime"]), si(c["clock"]), opt(si, c["channels"]), si(c["pt"]),
               lst(lambda f: rec(enc(f[0]), opt(enc, f[1])), c["fb"]), canon_params(c["params"]))


def canon_media(m: dict) -> str:
    fmt = m["fmt"]
    fmts = lst(lambda x: si(x) if isinstance(x, int) else enc(x), fmt)
    d = m["dtls"]
    return rec(
        enc(m["kind"]), si(m["port"]), enc(m["profile"]), fmts, opt(enc, m["host"]), opt(enc, m["direction"]),
        opt(enc, m["msid"]), opt(si, m["rtcp_port"]), opt(enc, m["rtcp_host"]), sb(m["rtcp_mux"]),
        lst(lambda s: rec(si(s[0]), opt(enc, s[1]), opt(enc, s[2]), opt(enc, s[3]), opt(enc, s[4])), m["ssrc"]),
        lst(lambda g: canon_group(si, g), m["ssrc_group"]),
        lst(lambda h: rec(si(h[0]), enc(h[1])), m["ext"]), opt(enc, m["mid"]),
        lst(canon_codec, m["codecs"]), opt(si, m["max_message_size"]),
        lst(lambda kv: rec(si(kv[0]), enc(kv[1])), m["sctpmap"]), opt(si, m["sctp_port"]),
        "~" if d is None else rec(lst(lambda f: rec(enc(f[0]), enc(f[1])), d["fp"]), opt(enc, d["role"])),
        rec(opt(enc, m["ice"][0]), opt(enc, m["ice"][1]), sb(m["ice"][2])),
        lst(canon_cand, m["candidates"]), sb(m["complete"]), opt(enc, m["ice_options"]))


def canon_session(s: dict) -> str:
    return rec(si(s["version"]), opt(enc, s["origin"]), enc(s["name"]), enc(s["time"]), opt(enc, s["host"]),
               lst(lambda g: canon_group(enc, g), s["group"]), lst(lambda g: canon_group(enc, g), s["msid_semantic"]),
               lst(canon_media, s["media"]))


# ------------------------------------------------------------------------------------------------
# real objects <-> JSON specs
# ------------------------------------------------------------------------------------------------

def cand_spec(c) -> dict:
    return {"foundation": c.foundation, "component": c.component, "protocol": c.protocol, "priority": c.priority,
            "ip": c.ip, "port": c.port, "type": c.type, "raddr": c.relatedAddress, "rport": c.relatedPort,
            "tcptype": c.tcpType}


def cand_build(d: dict):
    from aiortc.rtcicetransport import RTCIceCandidate
    return RTCIceCandidate(component=d["component"], foundation=d["foundation"], ip=d["ip"], port=d["port"],
                           priority=d["priority"], protocol=d["protocol"], type=d["type"],
                           relatedAddress=d.get("raddr"), relatedPort=d.get("rport"), tcpType=d.get("tcptype"))


def media_spec(m) -> dict:
    return {
        "kind": m.kind, "port": m.port, "profile": m.profile, "fmt": list(m.fmt), "host": m.host,
        "direction": m.direction, "msid": m.msid, "rtcp_port": m.rtcp_port, "rtcp_host": m.rtcp_host,
        "rtcp_mux": bool(m.rtcp_mux),
        "ssrc": [[s.ssrc, s.cname, s.msid, s.mslabel, s.label] for s in m.ssrc],
        "ssrc_group": [[g.semantic, list(g.items)] for g in m.ssrc_group],
        "ext": [[h.id, h.uri] for h in m.rtp.headerExtensions], "mid": m.rtp.muxId,
        "codecs": [{"mime": c.mimeType, "clock": c.clockRate, "channels": c.channels, "pt": c.payloadType,
                    "fb": [[f.type, f.parameter] for f in c.rtcpFeedback],
                    "params": [[k, v] for k, v in c.parameters.items()]} for c in m.rtp.codecs],
        "max_message_size": None if m.sctpCapabilities is None else m.sctpCapabilities.maxMessageSize,
        "sctpmap": [[k, v] for k, v in m.sctpmap.items()], "sctp_port": m.sctp_port,
        "dtls": None if m.dtls is None else {"fp": [[f.algorithm, f.value] for f in m.dtls.fingerprints], "role": m.dtls.role},
        "ice": [m.ice.usernameFragment, m.ice.password, bool(m.ice.iceLite)],
        "candidates": [cand_spec(c) for c in m.ice_candidates], "complete": bool(m.ice_candidates_complete),
        "ice_options": m.ice_options,
    }


def session_spec(s) -> dict:
    return {"version": s.version, "origin": s.origin, "name": s.name, "time": s.time, "host": s.host,
            "group": [[g.semantic, list(g.items)] for g in s.group],
            "msid_semantic": [[g.semantic, list(g.items)] for g in s.msid_semantic],
            "media": [media_spec(m) for m in s.media]}


def _lib():
    from aiortc import sdp
    from aiortc.rtcdtlstransport import RTCDtlsFingerprint, RTCDtlsParameters
    from aiortc.rtcicetransport import RTCIceParameters
    from aiortc.rtcrtpparameters import (RTCRtcpFeedback, RTCRtpCodecParameters, RTCRtpHeaderExtensionParameters,
                                         RTCRtpParameters)
    from aiortc.rtcsctptransport import RTCSctpCapabilities
    import types
    return types.SimpleNamespace(sdp=sdp, Fp=RTCDtlsFingerprint, Dtls=RTCDtlsParameters, Ice=RTCIceParameters, Fb=RTCRtcpFeedback,
                                 Codec=RTCRtpCodecParameters, Ext=RTCRtpHeaderExtensionParameters, Rtp=RTCRtpParameters,
                                 SctpCaps=RTCSctpCapabilities)


def codec_build(L, c: dict):
    return L.Codec(mimeType=c["mime"], clockRate=c["clock"], channels=c["channels"], payloadType=c["pt"],
                   rtcpFeedback=[L.Fb(type=f[0], parameter=f[1]) for f in c["fb"]], parameters={k: v for k, v in c["params"]})


def media_build(L, ms: dict):
    sdp = L.sdp
    m = sdp.MediaDescription(kind=ms["kind"], port=ms["port"], profile=ms["profile"], fmt=list(ms["fmt"]))
    m.host, m.direction, m.msid = ms["host"], ms["direction"], ms["msid"]
    m.rtcp_port, m.rtcp_host, m.rtcp_mux = ms["rtcp_port"], ms["rtcp_host"], ms["rtcp_mux"]
    m.ssrc = [sdp.SsrcDescription(ssrc=x[0], cname=x[1], msid=x[2], mslabel=x[3], label=x[4]) for x in ms["ssrc"]]
    m.ssrc_group = [sdp.GroupDescription(semantic=g[0], items=list(g[1])) for g in ms["ssrc_group"]]
    m.rtp = L.Rtp(codecs=[codec_build(L, c) for c in ms["codecs"]],
                  headerExtensions=[L.Ext(id=h[0], uri=h[1]) for h in ms["ext"]], muxId=ms["mid"])
    if ms["max_message_size"] is not None:
        m.sctpCapabilities = L.SctpCaps(maxMessageSize=ms["max_message_size"])
    m.sctpmap = {k: v for k, v in ms["sctpmap"]}
    m.sctp_port = ms["sctp_port"]
    if ms["dtls"] is not None:
        m.dtls = L.Dtls(fingerprints=[L.Fp(algorithm=f[0], value=f[1]) for f in ms["dtls"]["fp"]], role=ms["dtls"]["role"])
    m.ice = L.Ice(usernameFragment=ms["ice"][0], password=ms["ice"][1], iceLite=ms["ice"][2])
    m.ice_candidates = [cand_build(c) for c in ms["candidates"]]
    m.ice_candidates_complete = ms["complete"]
    m.ice_options = ms["ice_options"]
    return m


def session_build(spec: dict):
    L = _lib()
    sdp = L.sdp
    s = sdp.SessionDescription()
    s.version, s.origin, s.name, s.time, s.host = spec["version"], spec["origin"], spec["name"], spec["time"], spec["host"]
    s.group = [sdp.GroupDescription(semantic=g[0], items=list(g[1])) for g in spec["group"]]
    s.msid_semantic = [sdp.GroupDescription(semantic=g[0], items=list(g[1])) for g in spec["msid_semantic"]]
    for ms in spec["media"]:
        s.media.append(media_build(L, ms))
    return s


# ---- overwrite the fields of a LIVE object (the sub-objects and containers it already has are kept and written to) ----

def _sync(live, specs, build, assign):
    """Make the list `live` (modified in place) describe `specs`: existing elements are overwritten field by field,
    missing ones are built, surplus ones removed.  An element that cannot be written to (frozen) is replaced."""
    for i, sp in enumerate(specs):
        if i < len(live):
            try:
                assign(live[i], sp)
            except Exception:  # noqa: BLE001
                live[i] = build(sp)
        else:
            live.append(build(sp))
    del live[len(specs):]


def _inplace_list(obj, name, values):
    cur = getattr(obj, name, None)
    if isinstance(cur, list):
        cur[:] = values
    else:
        setattr(obj, name, list(values))


def _inplace_dict(obj, name, pairs):
    cur = getattr(obj, name, None)
    if isinstance(cur, dict):
        cur.clear()
        cur.update({k: v for k, v in pairs})
    else:
        setattr(obj, name, {k: v for k, v in pairs})


def _objs(obj, name):
    cur = getattr(obj, name, None)
    if not isinstance(cur, list):
        cur = []
        setattr(obj, name, cur)
    return cur


def cand_assign(c, d: dict):
    c.foundation, c.component, c.protocol, c.priority = d["foundation"], d["component"], d["protocol"], d["priority"]
    c.ip, c.port, c.type = d["ip"], d["port"], d["type"]
    c.relatedAddress, c.relatedPort, c.tcpType = d.get("raddr"), d.get("rport"), d.get("tcptype")


def group_assign(g, sp):
    g.semantic = sp[0]
    _inplace_list(g, "items", sp[1])


def codec_assign(L, c, sp: dict):
    c.mimeType, c.clockRate, c.channels, c.payloadType = sp["mime"], sp["clock"], sp["channels"], sp["pt"]

    def fb_assign(f, x):
        f.type, f.parameter = x[0], x[1]
    _sync(_objs(c, "rtcpFeedback"), sp["fb"], lambda x: L.Fb(type=x[0], parameter=x[1]), fb_assign)
    _inplace_dict(c, "parameters", sp["params"])


def media_assign(L, m, ms: dict):
    sdp = L.sdp
    m.kind, m.port, m.profile = ms["kind"], ms["port"], ms["profile"]
    _inplace_list(m, "fmt", ms["fmt"])
    m.host, m.direction, m.msid = ms["host"], ms["direction"], ms["msid"]
    m.rtcp_port, m.rtcp_host, m.rtcp_mux = ms["rtcp_port"], ms["rtcp_host"], ms["rtcp_mux"]

    def ssrc_assign(o, x):
        o.ssrc, o.cname, o.msid, o.mslabel, o.label = x
    _sync(_objs(m, "ssrc"), ms["ssrc"], lambda x: sdp.SsrcDescription(ssrc=x[0], cname=x[1], msid=x[2], mslabel=x[3], label=x[4]), ssrc_assign)
    _sync(_objs(m, "ssrc_group"), ms["ssrc_group"], lambda g: sdp.GroupDescription(semantic=g[0], items=list(g[1])), group_assign)
    m.rtp.muxId = ms["mid"]

    def ext_assign(h, x):
        h.id, h.uri = x
    _sync(_objs(m.rtp, "headerExtensions"), ms["ext"], lambda h: L.Ext(id=h[0], uri=h[1]), ext_assign)
    _sync(_objs(m.rtp, "codecs"), ms["codecs"], lambda c: codec_build(L, c), lambda c, sp: codec_assign(L, c, sp))
    if ms["max_message_size"] is None:
        m.sctpCapabilities = None
    else:
        try:
            m.sctpCapabilities.maxMessageSize = ms["max_message_size"]
        except Exception:  # noqa: BLE001
            m.sctpCapabilities = L.SctpCaps(maxMessageSize=ms["max_message_size"])
    _inplace_dict(m, "sctpmap", ms["sctpmap"])
    m.sctp_port = ms["sctp_port"]
    if ms["dtls"] is None:
        m.dtls = None
    else:
        # fingerprint OBJECTS are always new ones: SessionDescription.parse gives all m-sections of one result the same
        # objects for session-level "a=fingerprint" lines (notes/C09.md), writing to them in place would be the harness' own aliasing
        fps = [L.Fp(algorithm=f[0], value=f[1]) for f in ms["dtls"]["fp"]]
        try:
            m.dtls.role = ms["dtls"]["role"]
            _inplace_list(m.dtls, "fingerprints", fps)
        except Exception:  # noqa: BLE001
            m.dtls = L.Dtls(fingerprints=fps, role=ms["dtls"]["role"])
    try:
        m.ice.usernameFragment, m.ice.password, m.ice.iceLite = ms["ice"]
    except Exception:  # noqa: BLE001
        m.ice = L.Ice(usernameFragment=ms["ice"][0], password=ms["ice"][1], iceLite=ms["ice"][2])
    _sync(_objs(m, "ice_candidates"), ms["candidates"], cand_build, cand_assign)
    m.ice_candidates_complete = ms["complete"]
    m.ice_options = ms["ice_options"]


def session_assign(s, spec: dict):
    L = _lib()
    sdp = L.sdp
    s.version, s.origin, s.name, s.time, s.host = spec["version"], spec["origin"], spec["name"], spec["time"], spec["host"]
    mk = lambda g: sdp.GroupDescription(semantic=g[0], items=list(g[1]))  # noqa: E731
    _sync(_objs(s, "group"), spec["group"], mk, group_assign)
    _sync(_objs(s, "msid_semantic"), spec["msid_semantic"], mk, group_assign)
    _sync(_objs(s, "media"), spec["media"], lambda ms: media_build(L, ms), lambda m, ms: media_assign(L, m, ms))


def outcome(fn, show):
    """Outcome.tag of the real code."""
    try:
        return "ok " + show(fn())
    except ValueError:
        return "ValueError"
    except Exception as exc:  # noqa: BLE001
        return "crash " + type(exc).__name__


# ------------------------------------------------------------------------------------------------
# value generators
# ------------------------------------------------------------------------------------------------

TOKEN_CHARS = string.ascii_letters + string.digits + "-_.+*@"
ODD_CHARS = ":/=;%'\"()[],~\\é漢ßß"


def token(rng, lo=1, hi=8, extra=""):
    n = rng.randint(lo, hi)
    alphabet = TOKEN_CHARS + extra
    return "".join(rng.choice(alphabet) for _ in range(n))


def text_value(rng, lo=1, hi=10):
    """Free text without line breaks and without leading/trailing blanks."""
    n = rng.randint(lo, hi)
    s = "".join(rng.choice(TOKEN_CHARS + ODD_CHARS + "  ") for _ in range(n)).strip()
    return s or "x"


def ipv4(rng):
    return ".".join(str(rng.choice([0, 1, 9, 10, 99, 100, 127, 192, 255, rng.randrange(256)])) for _ in range(4))


def ipv6(rng):
    mode = rng.randrange(5)
    h = lambda: format(rng.choice([0, 1, 0xffff, 0xfe80, 0x2001, rng.randrange(65536)]), rng.choice(["x", "X", "04x"]))
    if mode == 0:
        return ":".join(h() for _ in range(8))
    if mode == 1:
        return "::" + ":".join(h() for _ in range(rng.randint(0, 6)))
    if mode == 2:
        return ":".join(h() for _ in range(rng.randint(1, 6))) + "::"
    if mode == 3:
        a, b = rng.randint(1, 3), rng.randint(1, 3)
        return ":".join(h() for _ in range(a)) + "::" + ":".join(h() for _ in range(b))
    return "::ffff:" + ipv4(rng)


def ipaddr(rng):
    return ipv4(rng) if rng.random() < 0.6 else ipv6(rng)


def gen_candidate(rng) -> dict:
    typ = rng.choice(["host", "srflx", "relay", "prflx"])
    proto = rng.choice(["udp", "tcp", "UDP", "TCP"])
    c = {"foundation": token(rng, 1, 12), "component": rng.choice([1, 2, 0, 256, rng.randrange(1 << 16)]),
         "protocol": proto, "priority": rng.choice([0, 1, 2130706431, 2 ** 31 - 1, 2 ** 32 - 1, rng.randrange(1 << 32)]),
         "ip": rng.choice([ipaddr(rng), token(rng, 3, 10) + ".local"]),
         "port": rng.choice([0, 9, 65535, rng.randrange(65536)]), "type": typ,
         "raddr": None, "rport": None, "tcptype": None}
    if typ != "host" or rng.random() < 0.2:
        if rng.random() < 0.9:
            c["raddr"] = ipaddr(rng)
        if rng.random() < 0.9:
            c["rport"] = rng.choice([0, 9, 65535, rng.randrange(65536)])
    if proto.lower() == "tcp" and rng.random() < 0.8:
        c["tcptype"] = rng.choice(["active", "passive", "so"])
    return c


def cand_line(c: dict) -> str:
    s = f"{c['foundation']} {c['component']} {c['protocol']} {c['priority']} {c['ip']} {c['port']} typ {c['type']}"
    if c.get("raddr") is not None:
        s += f" raddr {c['raddr']}"
    if c.get("rport") is not None:
        s += f" rport {c['rport']}"
    if c.get("tcptype") is not None:
        s += f" tcptype {c['tcptype']}"
    return s


def gen_params(rng, n=None):
    # the integer-valued fmtp parameters (fixed here, NOT read from the repo: the property is that an int put in comes back as an int)
    ints = ["apt", "max-fr", "max-fs", "maxplaybackrate", "minptime", "stereo", "useinbandfec"]
    n = rng.randint(1, 5) if n is None else n
    out, seen = [], set()
    for _ in range(n):
        r = rng.random()
        if r < 0.35:
            k = rng.choice(ints)
            v = rng.choice([0, 1, 96, 48000, rng.randrange(1 << 20), -1])
            if rng.random() < 0.1:
                v = None
        elif r < 0.8:
            k = rng.choice(["profile-level-id", "packetization-mode", "level-asymmetry-allowed", "x-google-min-bitrate", token(rng)])
            v = rng.choice(["42e01f", "1", token(rng, 0, 6, extra="=:/ ")])
        else:
            k = rng.choice(["0-15", "cbr", token(rng)])
            v = None
        if k in seen or k == "":
            continue
        seen.add(k)
        out.append([k, v])
    return out or [["x", None]]


AUDIO_CODECS = [("opus", 48000, 2), ("PCMU", 8000, 1), ("PCMA", 8000, 1), ("G722", 8000, 1), ("telephone-event", 8000, 1)]
VIDEO_CODECS = [("VP8", 90000), ("rtx", 90000), ("H264", 90000), ("VP9", 90000)]
EXT_URIS = ["urn:ietf:params:rtp-hdrext:sdes:mid", "urn:ietf:params:rtp-hdrext:ssrc-audio-level",
            "http://www.webrtc.org/experiments/rtp-hdrext/abs-send-time"]


def gen_media(rng, kind: str, mid, ice_lite: bool) -> dict:
    m = {"kind": kind, "port": rng.choice([0, 9, 65535, rng.randrange(65536)]),
         "profile": rng.choice(["UDP/TLS/RTP/SAVPF", "RTP/AVP", "DTLS/SCTP", "UDP/DTLS/SCTP", "RTP/SAVPF"]),
         "fmt": [], "host": rng.choice([None, ipaddr(rng)]), "direction": None, "msid": None,
         "rtcp_port": None, "rtcp_host": None, "rtcp_mux": False, "ssrc": [], "ssrc_group": [], "ext": [], "mid": mid,
         "codecs": [], "max_message_size": None, "sctpmap": [], "sctp_port": None, "dtls": None,
         "ice": [rng.choice([None, token(rng, 4, 8)]), rng.choice([None, token(rng, 22, 24, extra="/+")]), ice_lite],
         "candidates": [gen_candidate(rng) for _ in range(rng.choice([0, 0, 1, 2, 4]))],
         "complete": rng.random() < 0.5, "ice_options": rng.choice([None, "trickle", "trickle renomination", text_value(rng)])}
    if rng.random() < 0.85:
        m["dtls"] = {"fp": [[rng.choice(["sha-256", "sha-384", "sha-512", "sha-1"]),
                             ":".join(format(rng.randrange(256), "02X") for _ in range(rng.choice([20, 32])))]
                            for _ in range(rng.choice([0, 1, 1, 3]))],
                     "role": rng.choice(["auto", "client", "server"])}
    if kind in ("audio", "video"):
        pool = AUDIO_CODECS if kind == "audio" else VIDEO_CODECS
        pts = rng.sample([0, 8, 9, 71, 77, 96, 97, 98, 99, 100, 101, 102, 127, 255, 35, 63], rng.randint(1, 5))
        m["fmt"] = pts
        n_codecs = rng.choice([len(pts), len(pts), max(0, len(pts) - 1)])
        for pt in pts[:n_codecs]:
            c = rng.choice(pool)
            name = c[0] if rng.random() < 0.85 else token(rng, 1, 6, extra=" ")
            name = name.strip() or "x"
            codec = {"mime": f"{kind}/{name}", "clock": rng.choice([c[1], 0, 1, rng.randrange(1 << 20)]),
                     "channels": (rng.choice([c[2], 1, 2]) if kind == "audio" else None), "pt": pt, "fb": [], "params": []}
            for _ in range(rng.choice([0, 0, 1, 3])):
                ty = rng.choice(["nack", "ccm", "goog-remb", "transport-cc", token(rng)])
                par = rng.choice([None, None, "pli", "fir", text_value(rng, 1, 6)])
                codec["fb"].append([ty, par])
            if rng.random() < 0.5:
                codec["params"] = gen_params(rng)
            m["codecs"].append(codec)
        m["direction"] = rng.choice(["sendrecv", "sendonly", "recvonly", "inactive", None])
        if rng.random() < 0.7:
            m["msid"] = rng.choice([token(rng, 4, 10) + " " + token(rng, 4, 10), token(rng, 4, 10)])
        if rng.random() < 0.8:
            m["rtcp_port"] = rng.choice([9, 0, 65535, rng.randrange(65536)])
            m["rtcp_host"] = rng.choice([None, "0.0.0.0", ipaddr(rng)])
            m["rtcp_mux"] = rng.random() < 0.8
        ids = rng.sample(range(1, 2 ** 32), rng.choice([0, 1, 2, 3]))
        for x in ids:
            attrs = [rng.choice([None, text_value(rng, 1, 12)]) for _ in range(4)]
            if all(a is None for a in attrs):
                attrs[rng.randrange(4)] = token(rng)
            m["ssrc"].append([x] + attrs)
        if len(ids) >= 2 and rng.random() < 0.7:
            m["ssrc_group"].append([rng.choice(["FID", "SIM", "FEC-FR"]), ids[:rng.randint(1, len(ids))]])
        if rng.random() < 0.1:
            m["ssrc_group"].append([token(rng), []])
        for i in rng.sample(range(0, 16), rng.choice([0, 1, 2, 3])):
            m["ext"].append([i, rng.choice(EXT_URIS + [token(rng, 3, 20, extra=":/")])])
    else:
        m["fmt"] = rng.choice([["webrtc-datachannel"], ["5000"], [token(rng), token(rng)]])
        r = rng.random()
        if r < 0.4:
            m["sctp_port"] = rng.choice([5000, 0, 65535, rng.randrange(65536)])
        elif r < 0.8:
            m["sctpmap"] = [[rng.choice([5000, 0, rng.randrange(65536)]), rng.choice(["webrtc-datachannel 65535", "webrtc-datachannel 256", text_value(rng)])]]
            if rng.random() < 0.2:
                m["sctpmap"].append([m["sctpmap"][0][0] + 1, "x"])
        if rng.random() < 0.7:
            m["max_message_size"] = rng.choice([65536, 0, 1, 2 ** 31 - 1, 2 ** 32, rng.randrange(1 << 24)])
    return m


def gen_session(rng) -> dict:
    n = rng.choice([0, 1, 1, 2, 2, 3, 4])
    lite = rng.random() < 0.15
    mids = [rng.choice([str(i), token(rng, 1, 6), ""]) for i in range(n)]
    kinds = [rng.choice(["audio", "video", "application", "audio", "video"]) for _ in range(n)]
    if rng.random() < 0.05 and n:
        kinds[0] = "text"
    s = {"version": rng.choice([0, 0, 0, 1, rng.randrange(100)]),
         "origin": rng.choice(["- 3900000000 3900000000 IN IP4 0.0.0.0", f"- {rng.randrange(1 << 62)} {rng.randrange(1 << 31)} IN IP4 {ipv4(rng)}", text_value(rng)]),
         "name": rng.choice(["-", "-", text_value(rng)]), "time": rng.choice(["0 0", "0 0", text_value(rng)]),
         "host": rng.choice([None, None, ipaddr(rng)]), "group": [], "msid_semantic": [],
         "media": [gen_media(rng, kinds[i], mids[i], lite) for i in range(n)]}
    present = [m for m in mids if m]
    if present and rng.random() < 0.8:
        s["group"].append(["BUNDLE", present[:rng.randint(1, len(present))]])
    if rng.random() < 0.1:
        s["group"].append([token(rng), [token(rng) for _ in range(rng.randint(0, 3))]])
    if rng.random() < 0.7:
        s["msid_semantic"].append(["WMS", rng.choice([["*"], [token(rng, 4, 10)], []])])
    return s


def edit_spec(spec: dict, k: int) -> dict:
    """What an application does to ITS copy of a description ("munging"): a few field edits, as a new spec."""
    import copy
    import random
    rng = random.Random(k)
    s = copy.deepcopy(spec)
    for _ in range(1 + k % 3):
        op = rng.randrange(12)
        ms = rng.choice(s["media"]) if s["media"] else None
        if op == 0 or ms is None:
            s["name"] = rng.choice(["-", "edited", s["name"] + "x"])
            if s["group"] and rng.random() < 0.5:
                s["group"][0][1] = s["group"][0][1][::-1] + ["e" + str(k)]
        elif op == 1 and ms["candidates"]:
            c = rng.choice(ms["candidates"])
            c["ip"], c["port"] = rng.choice(["192.0.2.1", "2001:db8::1"]), rng.choice([9, (c["port"] + k) % 65536])
            if rng.random() < 0.5:
                c["raddr"], c["rport"], c["type"] = "10.0.0.1", k % 65536, "srflx"
        elif op == 2:
            ms["candidates"] = ms["candidates"][1:] if ms["candidates"] and rng.random() < 0.5 else ms["candidates"] + [gen_candidate(rng)]
        elif op == 3 and ms["codecs"]:
            c = rng.choice(ms["codecs"])
            if c["params"] and rng.random() < 0.4:
                c["params"] = c["params"][1:]
            else:
                c["params"] = [kv for kv in c["params"] if kv[0] != "x-e"] + [["x-e", str(k)]]
        elif op == 4 and ms["codecs"]:
            c = rng.choice(ms["codecs"])
            c["fb"] = c["fb"][1:] if c["fb"] and rng.random() < 0.4 else c["fb"] + [["nack", rng.choice([None, "pli"])]]
        elif op == 5 and ms["dtls"] is not None:
            if ms["dtls"]["fp"] and rng.random() < 0.7:
                ms["dtls"]["fp"][0][1] = ":".join(format(rng.randrange(256), "02X") for _ in range(32))
            else:
                ms["dtls"]["role"] = rng.choice(["auto", "client", "server"])
        elif op == 6:
            ms["ice"][0], ms["ice"][1] = "e" + token(rng, 3, 6), token(rng, 22, 24)
        elif op == 7:
            ms["port"] = (ms["port"] + k) % 65536
            ms["direction"] = rng.choice(["sendrecv", "sendonly", "recvonly", "inactive"])
        elif op == 8 and ms["ssrc"]:
            ms["ssrc"][0][1] = "cname-e" + str(k)
        elif op == 9 and ms["ext"]:
            ms["ext"][0][1] = "urn:e:" + str(k)
        elif op == 10:
            ms["mid"] = "e" + str(k % 10)
            ms["complete"] = not ms["complete"]
        else:
            ms["ice_options"] = rng.choice([None, "trickle", "e" + str(k)])
            if ms["max_message_size"] is not None:
                ms["max_message_size"] += k
            if ms["sctp_port"] is not None:
                ms["sctp_port"] = (ms["sctp_port"] + k) % 65536
    return s


def share_within(rng, spec: dict) -> dict:
    """The same candidate / fmtp / fingerprint / credential values in several m-sections (one ICE agent on one port
    for all of them, the same codec configuration twice ...): identical sub-texts inside ONE description."""
    import copy
    s = copy.deepcopy(spec)
    if len(s["media"]) < 2:
        s["media"] = s["media"] + [copy.deepcopy(m) for m in s["media"]] or [gen_media(rng, "audio", "0", False), gen_media(rng, "audio", "1", False)]
        for i, m in enumerate(s["media"]):
            m["mid"] = str(i)
        s["group"] = []
    src = s["media"][0]
    if not src["candidates"]:
        src["candidates"] = [gen_candidate(rng) for _ in range(rng.randint(1, 3))]
    for m in s["media"][1:]:
        if rng.random() < 0.8:
            m["candidates"] = copy.deepcopy(src["candidates"][:rng.randint(1, len(src["candidates"]))])
        if src["dtls"] is not None and rng.random() < 0.7:
            m["dtls"] = copy.deepcopy(src["dtls"])
        if rng.random() < 0.5:
            m["ice"] = list(src["ice"])
        for c, c0 in zip(m["codecs"], src["codecs"]):
            if m["kind"] == src["kind"] and rng.random() < 0.7:
                c["params"], c["fb"] = copy.deepcopy(c0["params"]), copy.deepcopy(c0["fb"])
    return s


def share_subtexts(rng, other: dict, spec: dict) -> dict:
    """A variant of `other` that carries candidates / fingerprints / codecs of `spec`: identical sub-texts in TWO descriptions."""
    import copy
    s = copy.deepcopy(other)
    if not s["media"] or not spec["media"]:
        return s
    for m in s["media"]:
        src = rng.choice(spec["media"])
        if src["candidates"]:
            m["candidates"] = copy.deepcopy(src["candidates"])
        if src["dtls"] is not None:
            m["dtls"] = copy.deepcopy(src["dtls"])
        if m["kind"] == src["kind"] and src["codecs"] and rng.random() < 0.7:
            m["codecs"], m["fmt"] = copy.deepcopy(src["codecs"]), list(src["fmt"])
    return s


# ------------------------------------------------------------------------------------------------
# real offers / answers
# ------------------------------------------------------------------------------------------------

PC_CONFIGS = [
    # (name, offerer tracks [(kind, direction)], datachannel, bundle policy, answerer tracks)
    ("audio", [("audio", "sendrecv")], False, "balanced", [("audio", None)]),
    ("video", [("video", "sendrecv")], False, "balanced", []),
    ("av", [("audio", "sendrecv"), ("video", "sendrecv")], False, "balanced", [("audio", None), ("video", None)]),
    ("dc", [], True, "balanced", []),
    ("av-dc", [("audio", "sendrecv"), ("video", "sendrecv")], True, "balanced", [("video", None)]),
    ("av-dc-maxcompat", [("audio", "sendrecv"), ("video", "sendrecv")], True, "max-compat", [("audio", None)]),
    ("av-dc-maxbundle", [("audio", "sendonly"), ("video", "recvonly")], True, "max-bundle", []),
    ("sendonly", [("audio", "sendonly"), ("video", "sendonly")], False, "balanced", []),
    ("recvonly", [("audio", "recvonly"), ("video", "recvonly")], False, "balanced", [("audio", None), ("video", None)]),
    ("inactive", [("audio", "inactive")], True, "balanced", []),
    ("vv", [("video", "sendrecv"), ("video", "recvonly"), ("audio", "sendonly")], False, "max-compat", [("video", None)]),
    ("aa-dc", [("audio", "sendrecv"), ("audio", "recvonly")], True, "max-bundle", [("audio", None)]),
]

_PC_CACHE: dict = {}


def real_descriptions(config) -> list:
    """Run a real offer/answer exchange; every SessionDescription object handed to
    wrap_session_description (createOffer/createAnswer result, localDescription, remoteDescription)
    is captured as (label, spec, text)."""
    name = config[0]
    if name in _PC_CACHE:
        return _PC_CACHE[name]
    import aiortc
    from aiortc import rtcpeerconnection as rpc
    from aiortc.mediastreams import AudioStreamTrack, VideoStreamTrack
    from aiortc.rtcconfiguration import RTCBundlePolicy, RTCConfiguration

    captured = []
    orig = rpc.wrap_session_description
    stage = ["?"]

    def wrap(desc):
        r = orig(desc)
        if desc is not None:
            captured.append((f"pc:{name}:{stage[0]}", session_spec(desc), r.sdp))
        return r

    async def run():
        asyncio.get_running_loop().set_exception_handler(lambda loop, ctx: None)
        policy = {"balanced": RTCBundlePolicy.BALANCED, "max-compat": RTCBundlePolicy.MAX_COMPAT,
                  "max-bundle": RTCBundlePolicy.MAX_BUNDLE}[config[3]]
        pc1 = aiortc.RTCPeerConnection(RTCConfiguration(bundlePolicy=policy))
        pc2 = aiortc.RTCPeerConnection(RTCConfiguration(bundlePolicy=policy))
        try:
            for kind, direction in config[1]:
                track = AudioStreamTrack() if kind == "audio" else VideoStreamTrack()
                if direction in ("sendrecv", "sendonly"):
                    pc1.addTransceiver(track, direction=direction)
                else:
                    pc1.addTransceiver(kind, direction=direction)
            if config[2]:
                pc1.createDataChannel("chat", protocol="p")
            for kind, _ in config[4]:
                pc2.addTrack(AudioStreamTrack() if kind == "audio" else VideoStreamTrack())
            stage[0] = "createOffer"
            offer = await pc1.createOffer()
            stage[0] = "setLocal(offer)"
            await pc1.setLocalDescription(offer)
            stage[0] = "offer.local"
            ld = pc1.localDescription
            stage[0] = "setRemote(offer)"
            await pc2.setRemoteDescription(ld)
            stage[0] = "offer.remote"
            _ = pc2.remoteDescription
            stage[0] = "createAnswer"
            answer = await pc2.createAnswer()
            stage[0] = "setLocal(answer)"
            await pc2.setLocalDescription(answer)
            stage[0] = "answer.local"
            la = pc2.localDescription
            stage[0] = "setRemote(answer)"
            await pc1.setRemoteDescription(la)
            stage[0] = "answer.remote"
            _ = pc1.remoteDescription
            _ = pc1.localDescription
        finally:
            stage[0] = "close"
            await pc1.close()
            await pc2.close()

    rpc.wrap_session_description = wrap
    try:
        asyncio.run(run())
    finally:
        rpc.wrap_session_description = orig
    _PC_CACHE[name] = captured
    return captured


def browser_sdps() -> list[str]:
    path = os.path.join(core.REPO, "tests", "test_sdp.py")
    out = []
    try:
        tree = ast.parse(open(path).read())
    except OSError:
        return out
    for node in ast.walk(tree):
        if isinstance(node, ast.Constant) and isinstance(node.value, str) and node.value.startswith("v=0") and "\nm=" in node.value:
            t = node.value.replace("\r\n", "\n").replace("\n", "\r\n")
            if t not in out:
                out.append(t)
    return out


# ------------------------------------------------------------------------------------------------
# line-level mutations
# ------------------------------------------------------------------------------------------------

ODD_LINES = [
    "a=rtcp-mux", "a=rtcp:9", "a=rtcp:9 IN IP4 0.0.0.0", "a=rtcp:9 IN IP6 ::1", "a=rtcp:9 IN IP4 example.com", "a=rtcp:x", "a=rtcp",
    "a=mid", "a=mid:", "a=mid:0 ", "a=msid:", "a=msid:a b", "a=setup:actpass", "a=setup:active", "a=setup:passive", "a=setup:holdconn", "a=setup",
    "a=fingerprint:sha-256 AA:BB", "a=fingerprint:sha-256", "a=fingerprint:sha-256 AA BB", "a=fingerprint",
    "a=ice-ufrag:u", "a=ice-pwd:p", "a=ice-ufrag", "a=ice-pwd:", "a=ice-options:trickle", "a=ice-options", "a=ice-lite",
    "a=sendrecv", "a=sendonly", "a=recvonly", "a=inactive", "a=sendrecv:x", "a=sendrecv ",
    "a=rtpmap:96 VP8/90000", "a=rtpmap:96 VP8", "a=rtpmap:96", "a=rtpmap:x VP8/90000", "a=rtpmap:96 opus/48000/2", "a=rtpmap:96 opus/48000/x",
    "a=rtpmap:96 multiopus/48000/6", "a=rtpmap:97 opus/48000/1", "a=rtpmap: 96 a/1", "a=rtpmap:96  a/1", "a=rtpmap", "a=rtpmap:96 a b/0_1/2/3",
    "a=rtcp-fb:96 nack", "a=rtcp-fb:96 nack pli", "a=rtcp-fb:* ccm fir", "a=rtcp-fb:96", "a=rtcp-fb:*", "a=rtcp-fb:96 ", "a=rtcp-fb:96  x", "a=rtcp-fb:96 a b c d",
    "a=rtcp-fb", "a=rtcp-fb:123 nack", "a=rtcp-fb:+96 nack",
    "a=fmtp:96 apt=97", "a=fmtp:96 apt=x", "a=fmtp:96 a=1;b;c=d=e;a=2", "a=fmtp:96 ", "a=fmtp:96", "a=fmtp:x a", "a=fmtp:123 a=1", "a=fmtp", "a=fmtp:96 ;", "a=fmtp:96 =5;stereo= 1",
    "a=fmtp:96 minptime=1_0;useinbandfec=+1", "a=fmtp:0 0-15",
    "a=extmap:1 urn:x", "a=extmap:1/sendonly urn:x", "a=extmap:1/a/b urn:x", "a=extmap:x urn:x", "a=extmap:1", "a=extmap:1 a b", "a=extmap",
    "a=ssrc:1 cname:x", "a=ssrc:1 msid:a b", "a=ssrc:1 foo:bar", "a=ssrc:1 cname", "a=ssrc:1", "a=ssrc:x cname:y", "a=ssrc:01 label:", "a=ssrc", "a=ssrc:2 mslabel:m",
    "a=ssrc-group:FID 1 2", "a=ssrc-group:FID", "a=ssrc-group:", "a=ssrc-group:FID a", "a=ssrc-group",
    "a=sctpmap:5000 webrtc-datachannel 256", "a=sctpmap:5000", "a=sctpmap:x y", "a=sctpmap:5000 other", "a=sctpmap",
    "a=sctp-port:5000", "a=sctp-port:x", "a=sctp-port", "a=max-message-size:65536", "a=max-message-size:", "a=max-message-size",
    "a=candidate:0 1 UDP 2122252543 192.168.99.58 36553 typ host", "a=candidate:0 1 UDP 2122252543 192.168.99.58 36553 typ host generation 0",
    "a=candidate:0 1 tcp 1 ::1 9 typ srflx raddr 1.2.3.4 rport 5 tcptype active", "a=candidate:0 1 udp 1 h 9 typ relay rport x",
    "a=candidate:0 1 udp 1 h 9 typ", "a=candidate:0 x udp 1 h 9 typ host", "a=candidate", "a=candidate:0 1 udp 1 h 9 foo host raddr", "a=end-of-candidates",
    "c=IN IP4 1.2.3.4", "c=IN IP6 ::1", "c=IN IP4 ::1", "c=IN IP4 example.com", "c=IN IP4", "c=IN IP4 1.2.3.4 ", "c=IN IP5 1.2.3.4", "c=IN IP4 01.2.3.4", "c=IN IP6 fe80::1%eth0",
    "a=group:BUNDLE 0 1", "a=group:BUNDLE", "a=group:", "a=group", "a=msid-semantic:WMS *", "a=msid-semantic: WMS", "a=msid-semantic",
    "v=0", "v= 1", "v=x", "o=- 1 2 IN IP4 0.0.0.0", "o=", "s=-", "s= x ", "t=0 0", "t=", "b=AS:30", "", " ", "a=", "a=:", "x",
    "m=audio 9 UDP/TLS/RTP/SAVPF 96 0", "m=video 9 UDP/TLS/RTP/SAVPF 97", "m=application 9 DTLS/SCTP 5000", "m=application 9 UDP/DTLS/SCTP webrtc-datachannel",
    "m=audio 9 RTP/AVP  ", "m=audio 9 RTP/AVP", "m=audio 9 rtp 0", "m=audio x RTP/AVP 0", "m=audio 9 RTP/AVP 72", "m=audio 9 RTP/AVP 256", "m=audio 9 RTP/AVP -1",
    "m=audio 9 RTP/AVP x", "m=audio 09 RTP/AVP 0 +8 1_0", "m=text 9 RTP/AVP x y", "m=audio  9 RTP/AVP 0", "m=", "m=audio 9 RTP/AVP \t",
]
SEPS = ["\r\n", "\n", "\r", "\r\n", "\r\n", "\x0b", "\x0c", "\x1c", "\x1d", "\x1e", "\x85", " ", " ", "\n\r"]


def mutate_text(rng, text: str) -> str:
    lines = text.splitlines()
    if not lines:
        lines = [""]
    for _ in range(rng.choice([1, 1, 1, 2, 3])):
        op = rng.randrange(12)
        i = rng.randrange(len(lines))
        if op == 0 and len(lines) > 1:
            del lines[i]
        elif op == 1:
            lines.insert(rng.randrange(len(lines) + 1), lines[i])
        elif op == 2:
            j = rng.randrange(len(lines))
            lines[i], lines[j] = lines[j], lines[i]
        elif op == 3:  # move to session level / elsewhere
            l = lines.pop(i)
            lines.insert(rng.randrange(min(6, len(lines) + 1)), l)
        elif op in (4, 5, 6):
            lines.insert(rng.randrange(len(lines) + 1), rng.choice(ODD_LINES))
        elif op == 7:
            lines[i] = rng.choice(ODD_LINES)
        elif op == 8:  # truncate at a field boundary
            l = lines[i]
            cuts = [k for k, ch in enumerate(l) if ch in " :/;="]
            if cuts:
                k = rng.choice(cuts)
                lines[i] = l[:k + rng.choice([0, 1])]
        elif op == 9:  # separator noise
            l = lines[i]
            lines[i] = l.replace(" ", rng.choice(["  ", "\t", " \t", "\xa0", " "]), rng.choice([1, 2, 9]))
        elif op == 10:  # numeric noise
            l = lines[i]
            digs = [k for k, ch in enumerate(l) if ch.isdigit()]
            if digs:
                k = rng.choice(digs)
                lines[i] = l[:k] + rng.choice(["+", "-", "0", "_", "x", " ", "99999", ""]) + l[k:]
        else:  # token noise
            l = lines[i]
            k = rng.randrange(len(l) + 1)
            lines[i] = l[:k] + rng.choice([" ", ":", "/", ";", "=", "é", "typ", "*", "raddr 1.1.1.1", "generation 0"]) + l[k:]
    sep = rng.choice(SEPS)
    if rng.random() < 0.7:
        return sep.join(lines) + rng.choice([sep, "", sep + sep])
    return "".join(l + rng.choice(SEPS) for l in lines)


# ------------------------------------------------------------------------------------------------
# components
# ------------------------------------------------------------------------------------------------

def _parse(text):
    from aiortc import sdp
    return sdp.SessionDescription.parse(text)


# ---- history independence (round 3) ---------------------------------------------------------------------
# The model is a set of pure functions.  The implementation returns mutable object graphs, so "the result depends on
# the text only" has to be CHECKED: every parse is evaluated several times in one process around a hostile owner of the
# first result, every serialiser on objects that carried (and serialised) other values before.  Anything that deviates
# is appended to the impl string as " => <what>": the model (which prints the single-shot result) then disagrees as
# well, and the oracle reports the part after "=>" together with the concrete case.

def _try(fn):
    try:
        return "ok", fn()
    except ValueError:
        return "ValueError", None
    except Exception as exc:  # noqa: BLE001
        return "crash " + type(exc).__name__, None


def _short(x, n=160):
    x = str(x)
    return x if len(x) <= n else x[:n] + "…"


def purity(what: str, f, k: int, ser=None, skip_types=()):
    """`f()` parses one fixed text.  Evaluate it three times around a hostile owner of the first result."""
    t1, r1 = _try(f)
    s1 = snapshot(r1)
    o1 = _try(lambda: ser(r1)) if (ser and t1 == "ok") else None
    t2, r2 = _try(f)
    s2 = snapshot(r2)
    if (t2, s2) != (t1, s1):
        return f"{what} twice in a row gives two different results: {t1} / {t2}: " + snap_diff(s1, s2)
    if t1 != "ok":
        return None
    hostile(r1, k, skip_types)
    s2b = snapshot(r2)
    if s2b != s2:
        return (f"two results of {what} share state: after the owner of the first result modified it (k={k}) the second result "
                "changed: " + snap_diff(s2, s2b))
    t3, r3 = _try(f)
    s3 = snapshot(r3)
    if (t3, s3) != (t1, s1):
        return (f"{what} again after the owner of the first result modified it (k={k}) gives another result "
                f"({t3}): " + snap_diff(s1, s3))
    if ser:
        o3 = _try(lambda: ser(r3))
        if o3 != o1:
            return (f"{what} again after the owner of the first result modified it (k={k}): the new result serialises to "
                    f"{_short(o3)} instead of {_short(o1)}")
    return None


def _session_level_fingerprint(text: str) -> bool:
    for line in text.splitlines():
        if line.startswith("m="):
            return False
        if line.startswith("a=fingerprint"):
            return True
    return False


def parts_independent(p, k: int, text: str):
    """Modify ONE m-section (or the session-level fields) of a parse result: the others must not change."""
    media = list(p.media)
    n = len(media)
    if n == 0:
        return None
    names = sorted(x for x in vars(p) if not x.startswith("_") and x != "media")

    def snaps():
        return [snapshot(m) for m in media] + [snapshot({x: getattr(p, x) for x in names})]
    # SessionDescription.parse hands the objects made for session-level a=fingerprint lines to every m-section of the
    # result (observed on the pinned code, notes/C09.md "Observed and left alone"): their fields are left alone here
    skip = ("RTCDtlsFingerprint",) if _session_level_fingerprint(text) else ()
    before = snaps()
    target = k % (n + 1)
    if target < n:
        hostile(media[target], k, skip)
    else:
        for x in names:
            v = getattr(p, x)
            nv = hostile(v, k, skip, name=x)
            if nv is not v:
                try:
                    setattr(p, x, nv)
                except Exception:  # noqa: BLE001
                    pass
    after = snaps()
    part = lambda i: f"m-section {i}" if i < n else "the session-level fields"  # noqa: E731
    for i in range(n + 1):
        if i != target and before[i] != after[i]:
            return (f"the parts of ONE parse result share state: after the owner modified {part(target)} (k={k}), "
                    f"{part(i)} changed: " + snap_diff(before[i], after[i]))
    return None


def codecs_independent(p, k: int):
    """The same one level down: modify ONE codec of an m-section, the other codecs of that section must not change
    (`a=rtcp-fb:* ...` and fmtp lines apply one text to several codecs)."""
    for m in p.media[k % len(p.media):] if p.media else []:
        codecs = list(getattr(getattr(m, "rtp", None), "codecs", None) or [])
        if len(codecs) < 2:
            continue
        before = [snapshot(c) for c in codecs]
        target = k % len(codecs)
        hostile(codecs[target], k)
        for i, c in enumerate(codecs):
            if i != target and snapshot(c) != before[i]:
                return (f"the codecs of one m-section of a parse result share state: after the owner modified codec {target} "
                        f"(k={k}), codec {i} changed: "
                        + snap_diff(before[i], snapshot(c)))
        return None
    return None


def reuse_serialise(p, spec1: dict, spec2: dict, s1, what: str):
    """str() on an object whose fields are overwritten (its own sub-objects and containers are kept), then restored."""
    session_assign(p, spec2)
    got = _try(lambda: str(p))
    want = _try(lambda: str(session_build(spec2)))
    if got != want:
        d = first_diff(want[1], got[1]) if got[0] == want[0] == "ok" else f"{_short(want)} vs {_short(got)}"
        return (f"{what}, fields overwritten in place, str(): differs from str() of a fresh object with the same field values "
                f"(expected line vs got): {d}")
    session_assign(p, spec1)
    back = _try(lambda: str(p))
    if back != s1:
        d = first_diff(s1[1], back[1]) if back[0] == s1[0] == "ok" else f"{_short(s1)} vs {_short(back)}"
        return f"{what}, fields edited, serialised, edited back: str() is not the text it was before the edit: {d}"
    return None


def signalling_description(t: str, k: int):
    from aiortc import RTCSessionDescription
    from aiortc.contrib import signaling
    import json
    ty = ["offer", "answer"][k % 2]
    d = RTCSessionDescription(sdp=t, type=ty)
    msg = signaling.object_to_string(d)
    if json.loads(msg) != {"sdp": t, "type": ty}:
        return f"object_to_string(description) = {_short(msg)}"
    r = purity("object_from_string(description message)", lambda: signaling.object_from_string(msg), k, ser=signaling.object_to_string)
    if r:
        return r
    back = signaling.object_from_string(msg)
    if (back.sdp, back.type) != (t, ty) or signaling.object_to_string(back) != msg:
        return f"signalling helper does not round-trip the description: type {ty} -> {back.type}, sdp equal: {back.sdp == t}"
    # the same description object, edited and sent again
    t2 = t + "a=x-edited:" + str(k) + "\r\n"
    try:
        d.sdp, d.type = t2, ["answer", "offer"][k % 2]
    except Exception:  # noqa: BLE001 - immutable description: fine
        return None
    if json.loads(signaling.object_to_string(d)) != {"sdp": t2, "type": d.type}:
        return "object_to_string on a description object that was sent before and edited since gives the OLD message"
    return None


class Session(Isolated):
    """L3: whole descriptions. case = {"origin": …, "spec": {...}} (an object) or {"origin": …, "text": …};
    optional "k" (what the hostile owner does), "prev" (spec the object carried before)."""
    name = "session"
    theorems = ["generated_fixed_point", "session_roundtrip", "splitlines_unlines", "media_roundtrip", "candidate_line_in_media", "rtpmap_roundtrip", "rtcpfb_roundtrip", "extmap_roundtrip",
                "fingerprint_roundtrip", "setup_roundtrip", "ssrc_line_roundtrip", "sctpmap_roundtrip", "ssrc_group_roundtrip"]

    def corpus(self):
        out = []
        for t in ["", "v=0\r\n", "m=audio 9 RTP/AVP 0\r\na=rtpmap:0 PCMU/8000\r\n",
                  # duplicate payload types + rtcp-fb (accepted text; see notes, finding dup-pt-feedback)
                  "m=video 9 RTP/AVP 96\r\na=rtpmap:96 VP8/90000\r\na=rtpmap:96 VP9/90000\r\na=rtcp-fb:96 nack\r\n",
                  "v=0\r\nc=IN IP4 example.com\r\nm=audio 9 RTP/AVP 0\r\nc=IN IP4 host.example\r\na=rtcp:9 IN IP6 x.example\r\n",
                  "m=audio 9 RTP/AVP  \r\n", "m=audio 9 RTP/AVP \t\r\na=setup:active\r\n",
                  # the accepted texts of Props/C09Text.lean: every way in which parse output is not "structurally valid"
                  # (a=mid without value, lone rtcp-mux, ssrc with unknown attribute, 6 channels, empty rtcp-fb parameter,
                  # empty fmtp, fingerprint without setup) and a media kind containing "/"
                  "v=0\r\ns=x \r\nb=AS:1\r\nm=audio 9 RTP/AVP 96\r\na=mid\r\na=rtcp-mux\r\na=ssrc:1 foo:bar\r\n"
                  "a=rtpmap:96 opus/48000/6\r\na=rtcp-fb:96 nack \r\na=fmtp:96 \r\na=fingerprint:sha-256 AA\r\na=foo:bar\r\n",
                  "v=0\r\nm=a/b 9 X 0\r\na=rtpmap:96 opus/48000\r\n",
                  "v=0\r\nm=a/b/c 9 X/Y 0 1\r\na=rtpmap:96 opus/48000/2\r\na=rtcp-fb:* nack pli\r\na=fmtp:96 x=1;apt=2\r\na=msid:\r\na=ice-ufrag\r\n",
                  # the same candidate / fmtp / fingerprint lines in two m-sections, session-level and media-level credentials
                  "v=0\r\no=- 1 2 IN IP4 127.0.0.1\r\ns=-\r\nt=0 0\r\na=fingerprint:sha-256 AA:BB\r\na=setup:actpass\r\na=ice-ufrag:sess\r\na=ice-pwd:sesspwd\r\n"
                  "m=audio 40000 UDP/TLS/RTP/SAVPF 96\r\na=mid:0\r\na=rtpmap:96 opus/48000/2\r\na=fmtp:96 minptime=10;useinbandfec=1\r\n"
                  "a=candidate:1 1 udp 2130706431 203.0.113.7 40000 typ host\r\na=ice-ufrag:one\r\n"
                  "m=audio 40000 UDP/TLS/RTP/SAVPF 96\r\na=mid:1\r\na=rtpmap:96 opus/48000/2\r\na=fmtp:96 minptime=10;useinbandfec=1\r\n"
                  "a=candidate:1 1 udp 2130706431 203.0.113.7 40000 typ host\r\na=fingerprint:sha-256 AA:BB\r\n"]:
            out.append({"origin": "corpus", "text": t})
        return out

    def cases(self, rng, tier):
        quick = tier == "quick"
        out = []
        bases = []
        configs = PC_CONFIGS[:6] if quick else PC_CONFIGS
        for cfg in configs:
            for label, spec, text in real_descriptions(cfg):
                out.append({"origin": label, "spec": spec})
                bases.append(text)
        for i, t in enumerate(browser_sdps()):
            out.append({"origin": f"browser:{i}", "text": t})
            bases.append(t)
        for _ in range(150 if quick else 4000):
            spec = gen_session(rng)
            out.append({"origin": "gen", "spec": spec})
            if rng.random() < 0.3:
                try:
                    bases.append(str(session_build(spec)))
                except Exception:  # noqa: BLE001
                    pass
        for _ in range(1500 if quick else 40000):
            out.append({"origin": "mut", "text": mutate_text(rng, rng.choice(bases))})
        # round 3: what the owner of a result does to it (k) and, for objects, what the object carried before (prev);
        # drawn from a separate stream so that the cases above are the ones of the earlier rounds
        r2 = core.rng("C09:session:history")
        specs = [c["spec"] for c in out if "spec" in c]
        for _ in range(80 if quick else 2000):  # identical sub-texts in several m-sections of one description
            spec = share_within(r2, r2.choice(specs) if r2.random() < 0.3 else gen_session(r2))
            out.append({"origin": "shared", "spec": spec})
            if r2.random() < 0.5:
                try:
                    out.append({"origin": "shared-mut", "text": mutate_text(r2, str(session_build(spec)))})
                except Exception:  # noqa: BLE001
                    pass
        for c in out:
            c["k"] = r2.randrange(1, 1000)
            if "spec" in c and r2.random() < 0.5:
                c["prev"] = share_subtexts(r2, r2.choice(specs), c["spec"]) if r2.random() < 0.5 else gen_session(r2)
        return out

    def _text(self, case):
        if "text" in case:
            return case["text"]
        return str(session_build(case["spec"]))

    def model_line(self, case):
        try:
            t = self._text(case)
        except Exception:  # noqa: BLE001
            return None
        if any(0xD800 <= ord(c) <= 0xDFFF for c in t):
            return None
        return "sdp both " + enc(t)

    def _impl(self, case):
        k = case.get("k", 1)
        extra = None
        if "prev" in case and "spec" in case:
            # the object was another description before, was serialised as such, and had every field overwritten since
            obj = session_build(case["prev"])
            _try(lambda: str(obj))
            session_assign(obj, case["spec"])
            got, want = _try(lambda: str(obj)), _try(lambda: str(session_build(case["spec"])))
            if got != want:
                d = first_diff(want[1], got[1]) if got[0] == want[0] == "ok" else f"{_short(want)} vs {_short(got)}"
                extra = ("an object that carried and serialised another description before, every field overwritten: str() differs from "
                         "str() of a fresh object with the same field values (expected line vs got): " + d)
        try:
            t = self._text(case)
        except Exception as exc:  # noqa: BLE001
            return "str-failed " + type(exc).__name__
        a = outcome(lambda: _parse(t), lambda s: canon_session(session_spec(s)))
        b = outcome(lambda: str(_parse(t)), enc)
        out = a + " || " + b
        try:
            extra = extra or self._history(case, t, k, a, b)
        except Exception as exc:  # noqa: BLE001 - the harness could not drive the objects: leave it to the correspondence
            return "HARNESS-EXC " + type(exc).__name__ + ": " + str(exc)[:200]
        return out + (" => " + extra if extra else "")

    def _history(self, case, t, k, a, b):
        r = purity("SessionDescription.parse(text)", lambda: _parse(t), k, ser=str)
        if r:
            return r
        # the single-shot observation above and the ones made now must agree as well
        a2 = outcome(lambda: _parse(t), lambda s: canon_session(session_spec(s)))
        b2 = outcome(lambda: str(_parse(t)), enc)
        if (a2, b2) != (a, b):
            return "the same text parsed at two moments of one process gives two results: " + snap_diff(a + " || " + b, a2 + " || " + b2)
        if not a.startswith("ok "):
            return None
        r = parts_independent(_parse(t), k, t) or codecs_independent(_parse(t), k)
        if r:
            return r
        p = _parse(t)
        spec1 = session_spec(p)
        s1 = _try(lambda: str(p))
        if _try(lambda: str(p)) != s1:
            return "str() twice on one object gives two texts"
        r = reuse_serialise(p, spec1, edit_spec(spec1, k), s1, "a parse result")
        if r:
            return r
        if "spec" in case and k % 2:
            r = reuse_serialise(p, spec1, case.get("prev") or edit_spec(case["spec"], k + 1), s1, "a parse result")
            if r:
                return r
        if k % 3 == 0 and not any(0xD800 <= ord(c) <= 0xDFFF for c in t):
            return signalling_description(t, k)
        return None

    def oracle(self, case, impl_out):
        if impl_out.startswith("HARNESS-EXC"):
            return None
        if " => " in impl_out:
            return impl_out.split(" => ", 1)[1]
        if "spec" in case:
            obj = session_build(case["spec"])
            try:
                t = str(obj)
            except Exception as exc:  # noqa: BLE001
                return f"serialising a generated description raises {type(exc).__name__}: {exc}"
            try:
                p = _parse(t)
            except Exception as exc:  # noqa: BLE001
                return f"the library's own serialisation is rejected by its parser: {type(exc).__name__}: {exc}"
            t2 = str(p)
            if t2 != t:
                return "generated description is not a fixed point of parse-then-serialise: " + first_diff(t, t2)
            want, got = session_spec(obj), session_spec(p)
            if canon_session(want) != canon_session(got):
                return "parsing does not recover the fields put in: " + spec_diff(want, got)
            # what the (forked, hostile) evaluation saw must be what this process, where nothing is ever modified, sees
            here = "ok " + canon_session(got) + " || ok " + enc(t2)
            if impl_out != here:
                return "the description parsed/serialised differently in the process where results of earlier parses were modified: " + snap_diff(here, impl_out)
            return None
        t = case["text"]
        try:
            p = _parse(t)
        except Exception:  # noqa: BLE001
            return None  # not accepted
        try:
            t1 = str(p)
        except Exception as exc:  # noqa: BLE001
            return f"accepted text cannot be serialised again: {type(exc).__name__}: {exc}"
        try:
            t2 = str(_parse(t1))
        except Exception as exc:  # noqa: BLE001
            return f"serialisation of an accepted text is rejected on the second round: {type(exc).__name__}: {exc}"
        if t1 != t2:
            return "parse-and-serialise is not idempotent: " + first_diff(t1, t2)
        here = "ok " + canon_session(session_spec(p)) + " || ok " + enc(t1)
        if impl_out != here:
            return "the text parsed/serialised differently in the process where results of earlier parses were modified: " + snap_diff(here, impl_out)
        return None

    def label(self, case, impl_out):
        o = case["origin"].split(":")[0]
        return o + ":" + impl_out.split(" ", 2)[0] + ("-" + impl_out.split(" ", 2)[1][:16] if impl_out.startswith("crash") else "")

    def nontrivial(self, case, impl_out):
        return True

    def _shrink(self, case):
        if "prev" in case:
            yield {x: y for x, y in case.items() if x != "prev"}
        if case.get("k", 1) > 3:
            yield dict(case, k=case["k"] % 3 + 1)
        if "text" in case:
            lines = case["text"].splitlines()
            for i in range(len(lines)):
                yield dict(case, text="\r\n".join(lines[:i] + lines[i + 1:]) + "\r\n")
            return
        spec = case["spec"]
        for i in range(len(spec["media"])):
            s2 = dict(spec, media=spec["media"][:i] + spec["media"][i + 1:])
            yield dict(case, spec=s2)
        for i, m in enumerate(spec["media"]):
            for key in ("candidates", "codecs", "ssrc", "ssrc_group", "ext", "sctpmap"):
                for j in range(len(m[key])):
                    m2 = dict(m, **{key: m[key][:j] + m[key][j + 1:]})
                    yield dict(case, spec=dict(spec, media=spec["media"][:i] + [m2] + spec["media"][i + 1:]))
            for j, c in enumerate(m["codecs"]):
                for key in ("fb", "params"):
                    for k in range(len(c[key])):
                        c2 = dict(c, **{key: c[key][:k] + c[key][k + 1:]})
                        m2 = dict(m, codecs=m["codecs"][:j] + [c2] + m["codecs"][j + 1:])
                        yield dict(case, spec=dict(spec, media=spec["media"][:i] + [m2] + spec["media"][i + 1:]))
        for key in ("group", "msid_semantic"):
            if spec[key]:
                yield dict(case, spec=dict(spec, **{key: []}))


def first_diff(a: str, b: str) -> str:
    la, lb = a.splitlines(), b.splitlines()
    for i in range(max(len(la), len(lb))):
        x = la[i] if i < len(la) else "<absent>"
        y = lb[i] if i < len(lb) else "<absent>"
        if x != y:
            return f"line {i + 1}: {x!r} becomes {y!r}"
    return f"texts differ only in line separators/length ({len(a)} vs {len(b)})"


def spec_diff(a, b, path="") -> str:
    if isinstance(a, dict) and isinstance(b, dict):
        for k in a:
            if a[k] != b.get(k):
                return spec_diff(a[k], b.get(k), path + "." + k)
    if isinstance(a, list) and isinstance(b, list) and len(a) == len(b):
        for i, (x, y) in enumerate(zip(a, b)):
            if x != y:
                return spec_diff(x, y, f"{path}[{i}]")
    return f"{path or 'value'}: put in {a!r}, recovered {b!r}"


class CandidateC(Isolated):
    """L2: candidate lines, incl. the signalling helper. case = {"cand": {...}} or {"line": str}."""
    name = "candidate"
    theorems = ["candidate_roundtrip", "candidate_line_roundtrip", "candidate_idempotent"]

    def cases(self, rng, tier):
        n = 400 if tier == "quick" else 20000
        out = []
        for typ in ("host", "srflx", "relay"):
            for proto in ("udp", "tcp"):
                for ra in (None, "10.0.0.1"):
                    for rp in (None, 0, 65535):
                        for tt in (None, "active"):
                            out.append({"cand": {"foundation": "f1", "component": 1, "protocol": proto, "priority": 2130706431,
                                                 "ip": "192.168.1.2", "port": 9, "type": typ, "raddr": ra, "rport": rp, "tcptype": tt}})
        for _ in range(n):
            c = gen_candidate(rng)
            out.append({"cand": c})
            line = cand_line(c)
            r = rng.random()
            if r < 0.25:
                out.append({"line": line})
            elif r < 0.6:
                toks = line.split(" ")
                op = rng.randrange(7)
                if op == 0:
                    toks = toks[:rng.randrange(len(toks) + 1)]
                elif op == 1:
                    toks.insert(rng.randrange(len(toks) + 1), rng.choice(["generation", "0", "raddr", "rport", "tcptype", "x", "ufrag", "network-cost"]))
                elif op == 2:
                    toks += rng.choice([["generation", "0"], ["raddr", "9.9.9.9"], ["rport", "77"], ["rport", "x"], ["tcptype"], ["ufrag", "abc", "network-id", "1"]])
                elif op == 3:
                    k = rng.randrange(len(toks))
                    toks[k] = rng.choice(["+5", "-1", "0x10", "1_0", "", "x", " 7", "٣", "1e3"])
                elif op == 4:
                    k = rng.randrange(len(toks))
                    toks[k] = toks[k] + rng.choice(["\t", "\xa0", " ", "\x1f"]) + "z"
                elif op == 5:
                    del toks[rng.randrange(len(toks))]
                else:
                    rng.shuffle(toks)
                out.append({"line": rng.choice([" ", "  ", "\t"]).join(toks) if rng.random() < 0.3 else " ".join(toks)})
        # round 3 (separate stream): what the owner does (k), for which m-sections the line is trickled (sig), what the object carried before (prev)
        r2 = core.rng("C09:candidate:history")
        for c in out:
            c["k"] = r2.randrange(1, 1000)
            if r2.random() < 0.6:
                mids = [r2.choice(["0", "1", "2", "audio", token(r2, 1, 5)]) for _ in range(r2.randint(1, 3))]
                c["sig"] = [[m, r2.choice([0, 1, 2, r2.randrange(64)])] for m in mids]
            if r2.random() < 0.4:
                c["prev"] = gen_candidate(r2)
        return out

    def _line(self, case):
        return case["line"] if "line" in case else cand_line(case["cand"])

    def corpus(self):
        c = {"foundation": "1", "component": 1, "protocol": "udp", "priority": 2130706431, "ip": "203.0.113.7", "port": 40000,
             "type": "host", "raddr": None, "rport": None, "tcptype": None}
        # one server port for two non-bundled m-sections: the same line trickled for mid "0" and mid "1"
        return [{"cand": c, "sig": [["0", 0], ["1", 1]], "k": 1}, {"bye": True, "k": 1},
                {"cand": dict(c, type="srflx", raddr="10.0.0.1", rport=9), "sig": [["a", 0], ["a", 0], ["b", 7]], "k": 2,
                 "prev": dict(c, protocol="tcp", tcptype="passive", ip="::1")}]

    def model_line(self, case):
        if "bye" in case:
            return None
        l = self._line(case)
        if any(ch.isdigit() and not ch.isascii() for ch in l):
            return None  # non-ASCII decimal digits: outside the int() model
        return "sdp cand " + enc(l)

    def _impl(self, case):
        from aiortc import sdp
        if "bye" in case:
            return "ok bye" + self._tail(self._bye(case.get("k", 1)))
        l = self._line(case)
        a = outcome(lambda: sdp.candidate_from_sdp(l), lambda c: canon_cand(cand_spec(c)))
        b = outcome(lambda: sdp.candidate_to_sdp(sdp.candidate_from_sdp(l)), enc)
        try:
            extra = self._history(case, l, case.get("k", 1), a, b)
        except Exception as exc:  # noqa: BLE001
            return "HARNESS-EXC " + type(exc).__name__ + ": " + str(exc)[:200]
        return a + " || " + b + self._tail(extra)

    @staticmethod
    def _tail(extra):
        return " => " + extra if extra else ""

    def _bye(self, k):
        from aiortc.contrib import signaling
        msg = signaling.object_to_string(signaling.BYE)
        r = purity("object_from_string(bye message)", lambda: signaling.object_from_string(msg), k, ser=signaling.object_to_string)
        if r:
            return r
        if signaling.object_from_string(msg) is not signaling.BYE or signaling.object_to_string(signaling.BYE) != msg:
            return "BYE does not round-trip through the signalling helper"
        return None

    def _history(self, case, l, k, a, b):
        import json
        from aiortc import sdp
        from aiortc.contrib import signaling
        r = purity("candidate_from_sdp(line)", lambda: sdp.candidate_from_sdp(l), k, ser=sdp.candidate_to_sdp)
        if r:
            return r
        a2 = outcome(lambda: sdp.candidate_from_sdp(l), lambda c: canon_cand(cand_spec(c)))
        b2 = outcome(lambda: sdp.candidate_to_sdp(sdp.candidate_from_sdp(l)), enc)
        if (a2, b2) != (a, b):
            return "the same line parsed at two moments of one process gives two results: " + snap_diff(a + " || " + b, a2 + " || " + b2)
        if not a.startswith("ok "):
            return None
        c = sdp.candidate_from_sdp(l)
        if c.sdpMid is not None or c.sdpMLineIndex is not None:
            return f"candidate_from_sdp returns a candidate that already has sdpMid={c.sdpMid!r} sdpMLineIndex={c.sdpMLineIndex!r}"
        spec1, l1 = cand_spec(c), sdp.candidate_to_sdp(c)
        # serialise an object that is edited in between (the reference printer is the harness' own cand_line)
        spec2 = case.get("prev") or dict(spec1, ip="192.0.2.1", port=(spec1["port"] + k) % 65536, raddr="10.0.0.1", rport=k % 65536)
        cand_assign(c, spec2)
        if sdp.candidate_to_sdp(c) != cand_line(spec2):
            return (f"candidate_to_sdp on a parsed candidate whose fields were edited prints {sdp.candidate_to_sdp(c)!r}, "
                    f"the fields say {cand_line(spec2)!r}")
        cand_assign(c, spec1)
        if sdp.candidate_to_sdp(c) != l1:
            return f"candidate edited, printed, edited back: prints {sdp.candidate_to_sdp(c)!r}, was {l1!r}"
        # signalling: the line is trickled for several m-sections (mid, index); every decoded candidate must encode back to
        # exactly the message it came from - also after the other messages were decoded
        sig = case.get("sig") or [[str(k % 3), k % 3]]

        def message(line, mid, idx):
            return json.dumps({"candidate": "candidate:" + line, "id": mid, "label": idx, "type": "candidate"}, sort_keys=True)
        # object_from_string cuts at the first ":" and candidate_from_sdp splits at blanks: use the canonical line
        msgs = [message(l1, mid, idx) for mid, idx in sig]
        objs = [signaling.object_from_string(m) for m in msgs]
        for i, (o, m, (mid, idx)) in enumerate(zip(objs, msgs, sig)):
            if cand_spec(o) != spec1 or (o.sdpMid, o.sdpMLineIndex) != (mid, idx):
                return (f"candidate message {i} of {len(msgs)} ({l1!r} for mid {mid!r} index {idx}) decodes to "
                        f"{cand_line(cand_spec(o))!r} mid {o.sdpMid!r} index {o.sdpMLineIndex!r} once all messages are decoded")
            if signaling.object_to_string(o) != m:
                return (f"candidate message {i} of {len(msgs)} does not encode back to the message it was decoded from: "
                        f"{m} -> {signaling.object_to_string(o)}")
        r = purity("object_from_string(candidate message)", lambda: signaling.object_from_string(msgs[0]), k, ser=signaling.object_to_string)
        if r:
            return r
        # a description containing the line, after the line went through the signalling layer
        c = sdp.candidate_from_sdp(l)
        if (c.sdpMid, c.sdpMLineIndex) != (None, None) or cand_spec(c) != spec1:
            return (f"candidate_from_sdp after the same line was decoded by the signalling helper returns mid {c.sdpMid!r} index "
                    f"{c.sdpMLineIndex!r} {cand_line(cand_spec(c))!r}")
        # an application-built candidate sent twice with different mids
        own = cand_build(spec1)
        for mid, idx in sig:
            own.sdpMid, own.sdpMLineIndex = mid, idx
            if signaling.object_to_string(own) != message(l1, mid, idx):
                return f"object_to_string on a candidate object that was sent before (other mid) gives {signaling.object_to_string(own)}"
        return None

    def oracle(self, case, impl_out):
        from aiortc import sdp
        if impl_out.startswith("HARNESS-EXC"):
            return None
        if " => " in impl_out:
            return impl_out.split(" => ", 1)[1]
        if "bye" in case:
            return None
        if "cand" in case:
            c = cand_build(case["cand"])
            line = sdp.candidate_to_sdp(c)
            back = sdp.candidate_from_sdp(line)
            if cand_spec(back) != cand_spec(c):
                return f"candidate does not survive to_sdp/from_sdp: {cand_spec(c)} -> {line!r} -> {cand_spec(back)}"
            if line != cand_line(case["cand"]):
                return f"candidate_to_sdp printed {line!r}, expected {cand_line(case['cand'])!r}"
            if sdp.candidate_to_sdp(back) != line:
                return f"candidate line does not round-trip exactly: {line!r}"
            if impl_out != "ok " + canon_cand(cand_spec(back)) + " || ok " + enc(line):
                return "the candidate parsed differently in the process where results of earlier parses were modified: " + _short(impl_out, 300)
            return None
        l = case["line"]
        try:
            c = sdp.candidate_from_sdp(l)
        except Exception:  # noqa: BLE001
            return None
        l1 = sdp.candidate_to_sdp(c)
        try:
            c1 = sdp.candidate_from_sdp(l1)
        except Exception as exc:  # noqa: BLE001
            return f"serialised candidate {l1!r} is rejected: {type(exc).__name__}"
        if cand_spec(c1) != cand_spec(c) or sdp.candidate_to_sdp(c1) != l1:
            return f"candidate parse/serialise not idempotent on {l!r}: {l1!r} -> {sdp.candidate_to_sdp(c1)!r}"
        if impl_out != "ok " + canon_cand(cand_spec(c)) + " || ok " + enc(l1):
            return "the line parsed differently in the process where results of earlier parses were modified: " + _short(impl_out, 300)
        return None

    def label(self, case, impl_out):
        if "bye" in case:
            return "bye"
        kind = "cand" if "cand" in case else "line"
        if "cand" in case:
            c = case["cand"]
            return f"cand:{c['type']}:{c['protocol'].lower()}:{'r' if c.get('raddr') else '-'}{'p' if c.get('rport') is not None else '-'}{'t' if c.get('tcptype') else '-'}"
        return kind + ":" + " ".join(impl_out.split(" ", 2)[:2 if impl_out.startswith("crash") else 1])

    def _shrink(self, case):
        if "prev" in case:
            yield {x: y for x, y in case.items() if x != "prev"}
        if len(case.get("sig") or []) > 1:
            for i in range(len(case["sig"])):
                yield dict(case, sig=case["sig"][:i] + case["sig"][i + 1:])
        elif "sig" in case:
            yield {x: y for x, y in case.items() if x != "sig"}
        if case.get("k", 1) > 3:
            yield dict(case, k=case["k"] % 3 + 1)
        if "line" in case:
            toks = case["line"].split()
            for i in range(len(toks)):
                yield dict(case, line=" ".join(toks[:i] + toks[i + 1:]))


class ParamsC(Isolated):
    """L2: fmtp parameters, groups, connection addresses. case = {"params": [[k,v]…]} | {"fmtp": str} | {"group": str} | {"ip": str}."""
    name = "attr"
    theorems = ["params_roundtrip", "params_idempotent", "group_roundtrip", "group_idempotent", "ipaddress_roundtrip"]

    def cases(self, rng, tier):
        n = 400 if tier == "quick" else 20000
        out = [{"fmtp": s} for s in ["", ";", "a", "a=", "=", "apt=96", "apt=x", "apt", "a=1;a=2;b;a", "stereo=1;useinbandfec= 1 ",
                                     "minptime=1_0", "max-fs=+12", "max-fr=-0", "a==b;c=;;", "x;apt=9;x=1"]]
        out += [{"group": s} for s in ["", " ", "BUNDLE", "BUNDLE 0 1", " BUNDLE  a\tb ", "FID 1 2", "FID 1 x", "FID +1 1_0", "WMS *"]]
        out += [{"ip": s} for s in ["0.0.0.0", "255.255.255.255", "256.1.1.1", "1.2.3", "1.2.3.4.5", "01.2.3.4", "1.2.3.04", "0.0.0.00", "1.2.3.4/8", "", ".", "1..2.3",
                                    "::", "::1", "1::", ":::", "1:2:3:4:5:6:7:8", "1:2:3:4:5:6:7:8:9", "1:2:3:4:5:6:7", "::1:2:3:4:5:6:7", "::1:2:3:4:5:6:7:8", "1:2:3:4:5:6:7::",
                                    "1::2::3", ":1::2", "1::2:", "12345::", "g::", "::ffff:1.2.3.4", "::1.2.3", "1:2:3:4:5:6:1.2.3.4", "1:2:3:4:5:6:7:1.2.3.4", "::1.2.3.4:5",
                                    "fe80::1%eth0", "fe80::1%", "fe80::1%a%b", "%eth0", "::%1", "1.2.3.4%e", "example.com", "IN IP4 1.2.3.4", "IN IP6 ::1", "IN IP4 a b", "IN IP4 ", "IN IP4 \t",
                                    "IN IP7 x", "in IP4 x", "１.2.3.4", "1.2.3.٤", "ａ::", "1:2:3:4:5:6:7:", ":2:3:4:5:6:7:8", "::2:3:4:5:6:7:8", "1:2:3:4:5:6:7::"]]
        for _ in range(n):
            p = gen_params(rng)
            out.append({"params": p})
            r = rng.random()
            s = ";".join(k if v is None else f"{k}={v}" for k, v in p)
            if r < 0.5:
                k = rng.randrange(len(s) + 1)
                s = s[:k] + rng.choice([";", "=", " ", "apt=", "x", ";;", "=1", "_", "+"]) + s[k:]
                out.append({"fmtp": s})
            toks = [token(rng) for _ in range(rng.randint(0, 4))]
            if rng.random() < 0.5:
                toks = toks[:1] + [str(rng.randrange(1 << 32)) for _ in toks[1:]]
            out.append({"group": rng.choice([" ", "  ", "\t", " "]).join(toks)})
            a = ipaddr(rng)
            if rng.random() < 0.5:
                k = rng.randrange(len(a) + 1)
                a = a[:k] + rng.choice([":", ".", "0", "1", "::", "g", "%x", "/", "256", ""]) + a[k + rng.choice([0, 1]):]
            out.append({"ip": a})
            if rng.random() < 0.3:
                out.append({"ip": rng.choice(["IN IP4 ", "IN IP6 ", "IN IP4", "IN  IP4 "]) + a})
        r2 = core.rng("C09:attr:history")
        for c in out:
            c["k"] = r2.randrange(1, 1000)
        return out

    def model_line(self, case):
        if "params" in case:
            return "sdp params " + enc(";".join(k if v is None else f"{k}={v}" for k, v in case["params"]))
        if "fmtp" in case:
            return "sdp params " + enc(case["fmtp"])
        if "group" in case:
            return "sdp group " + enc(case["group"])
        return "sdp ip " + enc(case["ip"])

    def _impl(self, case):
        out = self._single(case)
        try:
            extra = self._history(case, case.get("k", 1))
        except Exception as exc:  # noqa: BLE001
            return "HARNESS-EXC " + type(exc).__name__ + ": " + str(exc)[:200]
        return out + (" => " + extra if extra else "")

    def _history(self, case, k):
        from aiortc import sdp
        ref = lambda d: ";".join(str(x) if v is None else f"{x}={v}" for x, v in d.items())  # noqa: E731 - the harness' own printer
        if "params" in case or "fmtp" in case:
            s = case["fmtp"] if "fmtp" in case else ";".join(x if v is None else f"{x}={v}" for x, v in case["params"])
            r = purity("parameters_from_sdp(text)", lambda: sdp.parameters_from_sdp(s), k, ser=sdp.parameters_to_sdp)
            if r:
                return r
            t, d = _try(lambda: sdp.parameters_from_sdp(s))
            if t != "ok":
                return None
            o1 = sdp.parameters_to_sdp(d)
            key = "x-e"
            while key in d:
                key += "e"
            d[key] = k
            first = next(iter(d))
            old = d[first]
            d[first] = "e"
            if sdp.parameters_to_sdp(d) != ref(d):
                return f"parameters_to_sdp on a parsed dict that was edited prints {sdp.parameters_to_sdp(d)!r}, the dict says {ref(d)!r}"
            d[first] = old
            del d[key]
            if sdp.parameters_to_sdp(d) != o1:
                return f"fmtp dict edited, printed, edited back: prints {sdp.parameters_to_sdp(d)!r}, was {o1!r}"
            return None
        if "group" in case:
            for ty in (str, int):
                def pg():
                    dest = []
                    sdp.parse_group(dest, case["group"], ty)
                    return dest
                r = purity(f"parse_group(text, {ty.__name__})", pg, k, ser=lambda d: [str(g) for g in d])
                if r:
                    return r
                t, dest = _try(pg)
                for g in (dest or []):
                    o1 = str(g)
                    g.items.append(k if ty is int else "e")
                    want = f"{g.semantic} {' '.join(map(str, g.items))}"
                    if str(g) != want:
                        return f"str() of a parsed group whose items were edited gives {str(g)!r}, the fields say {want!r}"
                    g.items.pop()
                    if str(g) != o1:
                        return f"group edited, printed, edited back: prints {str(g)!r}, was {o1!r}"
            return None
        for what, f in (("ipaddress_to_sdp", sdp.ipaddress_to_sdp), ("ipaddress_from_sdp", sdp.ipaddress_from_sdp)):
            r = purity(f"{what}(text)", lambda: f(case["ip"]), k)
            if r:
                return r
        return None

    def _single(self, case):
        from aiortc import sdp
        if "params" in case or "fmtp" in case:
            s = case["fmtp"] if "fmtp" in case else ";".join(k if v is None else f"{k}={v}" for k, v in case["params"])
            a = outcome(lambda: sdp.parameters_from_sdp(s), lambda d: canon_params(list(d.items())))
            b = outcome(lambda: sdp.parameters_to_sdp(sdp.parameters_from_sdp(s)), enc)
            return a + " || " + b
        if "group" in case:
            def pg(ty):
                dest = []
                sdp.parse_group(dest, case["group"], ty)
                return dest
            a = outcome(lambda: pg(str), lambda d: lst(lambda g: canon_group(enc, [g.semantic, g.items]), d))
            b = outcome(lambda: [str(g) for g in pg(str)], lambda l: lst(enc, l))
            c = outcome(lambda: pg(int), lambda d: lst(lambda g: canon_group(si, [g.semantic, g.items]), d))
            return a + " || " + b + " || " + c
        import ipaddress

        def ver():
            try:
                return str(ipaddress.ip_address(case["ip"]).version)
            except ValueError:
                return "~"
        a = outcome(lambda: sdp.ipaddress_to_sdp(case["ip"]), lambda l: enc(l) + " " + ver())
        b = outcome(lambda: sdp.ipaddress_from_sdp(case["ip"]), enc)
        return a + " || " + b

    def oracle(self, case, impl_out):
        from aiortc import sdp
        if impl_out.startswith("HARNESS-EXC"):
            return None
        if " => " in impl_out:
            return impl_out.split(" => ", 1)[1]
        if impl_out != self._single(case):
            return "the text parsed differently in the process where results of earlier parses were modified: " + _short(impl_out, 300)
        if "params" in case:
            d = {k: v for k, v in case["params"]}
            s = sdp.parameters_to_sdp(d)
            back = sdp.parameters_from_sdp(s)
            if list(back.items()) != list(d.items()):
                return f"fmtp parameters do not survive to_sdp/from_sdp: {d} -> {s!r} -> {back}"
            return None
        if "fmtp" in case:
            try:
                d = sdp.parameters_from_sdp(case["fmtp"])
            except Exception:  # noqa: BLE001
                return None
            s = sdp.parameters_to_sdp(d)
            d2 = sdp.parameters_from_sdp(s)
            if list(d2.items()) != list(d.items()) or sdp.parameters_to_sdp(d2) != s:
                return f"fmtp parse/serialise not idempotent on {case['fmtp']!r}: {d} -> {s!r} -> {d2}"
            return None
        if "group" in case:
            for ty in (str, int):
                dest = []
                try:
                    sdp.parse_group(dest, case["group"], ty)
                except Exception:  # noqa: BLE001
                    continue
                for g in dest:
                    d2 = []
                    sdp.parse_group(d2, str(g), ty)
                    if d2 != [g]:
                        return f"group does not round-trip: {g} -> {str(g)!r} -> {d2}"
            return None
        try:
            l = sdp.ipaddress_to_sdp(case["ip"])
        except Exception:  # noqa: BLE001
            return None
        if case["ip"] and " " not in case["ip"] and sdp.ipaddress_from_sdp(l) != case["ip"]:
            return f"address does not round-trip: {case['ip']!r} -> {l!r}"
        return None

    def label(self, case, impl_out):
        k = next(x for x in case if x != "k")
        parts = impl_out.split(" => ")[0].split(" || ")
        return k + ":" + "/".join(p.split(" ", 1)[0] for p in parts)


class LexC(Component):
    """L1: the modelled Python built-ins. case = {"op": split|lines|strip|int, "s": str}."""
    name = "lex"
    theorems = ["int_roundtrip", "split_join_tokens"]

    WS = " \t\n\r\x0b\x0c\x1c\x1d\x1e\x1f\x85\xa0\u1680\u2000\u2005\u200a\u200b\u2028\u2029\u202f\u205f\u3000\ufeff\x00\x08\x0e\x1b\x21\u180e\u2007"

    def cases(self, rng, tier):
        n = 500 if tier == "quick" else 20000
        out = []
        for s in ["", " ", "a", " a", "a ", "a b", "a  b", "\r\n", "\n\r", "a\r\nb", "a\r\rb", "a\n", "a\n\n", "\r", "a\r", "\r\na"]:
            for op in ("split", "lines", "strip"):
                out.append({"op": op, "s": s})
        for s in ["0", "1", "-1", "+1", "00", "-0", "1_0", "1__0", "_1", "1_", " 1 ", "\t1\n", "+ 1", "--1", "", " ", "+", "-", "1 2", "0x1", "1.0", "1e3",
                  "123456789012345678901234567890", "\xa01　", "\x1f7\x1c", "1\x00", "+_1", "-1_000_000", "9" * 40]:
            out.append({"op": "int", "s": s})
        for _ in range(n):
            k = rng.randint(0, 12)
            s = "".join(rng.choice(self.WS) if rng.random() < 0.4 else rng.choice("ab1é") for _ in range(k))
            out.append({"op": rng.choice(["split", "lines", "strip"]), "s": s})
            v = rng.choice([rng.randrange(10), rng.randrange(1 << 16), rng.randrange(1 << 64), -rng.randrange(1 << 33)])
            t = str(v)
            r = rng.random()
            if r < 0.3:
                kpos = rng.randrange(len(t) + 1)
                t = t[:kpos] + rng.choice(["_", "+", "-", " ", "x", "__", "\xa0"]) + t[kpos:]
            elif r < 0.5:
                t = rng.choice(self.WS[:20]) + t + rng.choice(self.WS[:20])
            out.append({"op": "int", "s": t})
        return out

    def model_line(self, case):
        return f"sdp lex {case['op']} " + enc(case["s"])

    def impl(self, case):
        s = case["s"]
        if case["op"] == "split":
            return lst(enc, s.split())
        if case["op"] == "lines":
            return lst(enc, s.splitlines())
        if case["op"] == "strip":
            return enc(s.strip())
        try:
            i = int(s)
        except ValueError:
            return "ValueError"
        return "ok " + str(i) + " " + enc(str(i))

    def oracle(self, case, impl_out):
        if case["op"] == "int":
            try:
                i = int(case["s"])
            except ValueError:
                return None
            if int(str(i)) != i:
                return "int(str(i)) != i"
        return None

    def label(self, case, impl_out):
        return case["op"] + ":" + ("ValueError" if impl_out == "ValueError" else "ok")


# ------------------------------------------------------------------------------------------------
# ops: sequences of steps on a pool of LIVE results, against the pure reference semantics (Model/Sdp/Ops.lean)
# ------------------------------------------------------------------------------------------------

NSLOTS = 4


def _sig_message(line, mid, idx):
    import json
    return json.dumps({"candidate": "candidate:" + line, "id": mid, "label": idx, "type": "candidate"}, sort_keys=True)


def _both_session(t):
    tg, r = _try(lambda: _parse(t))
    if tg != "ok":
        return tg + " || " + tg, None
    return "ok " + canon_session(session_spec(r)) + " || " + outcome(lambda: str(r), enc), r


def _both_cand(line):
    from aiortc import sdp
    tg, r = _try(lambda: sdp.candidate_from_sdp(line))
    if tg != "ok":
        return tg + " || " + tg, None
    return "ok " + canon_cand(cand_spec(r)) + " || ok " + enc(sdp.candidate_to_sdp(r)), r


def _modelable(t: str) -> bool:
    return not any(0xD800 <= ord(c) <= 0xDFFF for c in t)


class Ops(Isolated):
    """case = {"texts": [...], "lines": [...], "steps": [...]}; steps:
         ["p", slot, ti]            SessionDescription.parse(texts[ti]) -> slot          obs: parse || str
         ["c", slot, li]            candidate_from_sdp(lines[li]) -> slot                obs: candidate || line
         ["t", slot, li, mid, idx]  object_from_string(candidate message) -> slot        obs: candidate || line @mid idx
         ["h", slot, k]             the owner modifies everything in the slot            obs: -
         ["a", slot, ti]            the owner overwrites every field of the description in the slot (in place) with the
                                    values of texts[ti]                                  obs: -
         ["s", slot]                str(slot) / candidate_to_sdp(slot) (+ @mid idx)      obs: text  (? after "h")
       The reference semantics is pure: a parse observes its text only, a slot holds a VALUE."""
    name = "ops"
    theorems = ["ops_parse_pure", "ops_reparse_same", "ops_cand_pure", "ops_str_current_value", "ops_parsed_then_str",
                "ops_slots_independent", "ops_trickle_keeps_mid", "ops_assign_roundtrip"]

    def corpus(self):
        line = "1 1 udp 2130706431 203.0.113.7 40000 typ host"
        t0 = ("v=0\r\no=- 1 2 IN IP4 127.0.0.1\r\ns=-\r\nt=0 0\r\nm=audio 40001 UDP/TLS/RTP/SAVPF 0\r\nc=IN IP4 203.0.113.7\r\na=sendrecv\r\na=mid:0\r\n"
              "a=rtcp:9 IN IP4 0.0.0.0\r\na=rtcp-mux\r\na=rtpmap:0 PCMU/8000\r\na=candidate:" + line + "\r\n"
              "a=candidate:8 1 udp 1694498815 198.51.100.9 50001 typ srflx raddr 203.0.113.7 rport 40001\r\na=end-of-candidates\r\n"
              "a=ice-ufrag:5+Ix\r\na=ice-pwd:uK8IlylxzDMUhrkVzdmj0M\r\na=fingerprint:sha-256 6B:8B\r\na=setup:actpass\r\n")
        t1 = t0.replace("a=mid:0", "a=mid:1").replace("m=audio 40001", "m=audio 40002").replace("5+Ix", "other")
        return [
            {"texts": [], "lines": [line], "steps": [["t", 0, 0, "0", 0], ["t", 1, 0, "1", 1], ["s", 0], ["s", 1]]},
            {"texts": [t0], "lines": [], "steps": [["p", 0, 0], ["h", 0, 1], ["p", 1, 0], ["s", 1]]},
            {"texts": [t0, t1], "lines": [line], "steps": [["p", 0, 0], ["p", 1, 1], ["h", 0, 2], ["s", 1], ["p", 2, 1], ["t", 3, 0, "0", 0], ["p", 0, 0], ["s", 0]]},
            {"texts": [t0, t1], "lines": [], "steps": [["p", 0, 0], ["s", 0], ["a", 0, 1], ["s", 0], ["a", 0, 0], ["s", 0], ["p", 1, 1], ["s", 1]]},
        ]

    def cases(self, rng, tier):
        quick = tier == "quick"
        pool_specs = []
        for cfg in (PC_CONFIGS[:6] if quick else PC_CONFIGS):
            pool_specs += [spec for _, spec, _ in real_descriptions(cfg)]
        browsers = browser_sdps()
        out = []
        for n in range(160 if quick else 3000):
            base = rng.choice(pool_specs) if (pool_specs and rng.random() < 0.25) else gen_session(rng)
            if rng.random() < 0.6:
                base = share_within(rng, base)
            texts = []

            def add(fn):
                try:
                    t = fn()
                except Exception:  # noqa: BLE001
                    return
                if _modelable(t) and t not in texts:
                    texts.append(t)
            add(lambda: str(session_build(base)))
            for _ in range(rng.randint(1, 3)):
                r = rng.random()
                if r < 0.35:
                    add(lambda: str(session_build(share_subtexts(rng, gen_session(rng), base))))
                elif r < 0.6:
                    add(lambda: str(session_build(edit_spec(base, rng.randrange(1, 1000)))))
                elif r < 0.85 and texts:
                    add(lambda: mutate_text(rng, rng.choice(texts)))
                elif browsers:
                    add(lambda: rng.choice(browsers))
            lines = []
            for t in texts:
                for l in t.splitlines():
                    if l.startswith("a=candidate:") and l[12:] not in lines and len(lines) < 4:
                        lines.append(l[12:])
            if not lines or rng.random() < 0.3:
                lines.append(cand_line(gen_candidate(rng)))
            steps = []
            shape = n % 5
            nt, nl = len(texts), len(lines)
            if shape == 0 and nt:  # parse, owner modifies, parse the same text and a sibling again, print everything
                ti = rng.randrange(nt)
                steps = [["p", 0, ti], ["h", 0, rng.randrange(1, 1000)], ["p", 1, ti], ["s", 1], ["p", 2, rng.randrange(nt)], ["s", 2], ["p", 0, ti], ["s", 0]]
            elif shape == 1:  # one line trickled for several m-sections, in between it is parsed as part of descriptions
                li = rng.randrange(nl)
                for sl in range(rng.randint(2, NSLOTS)):
                    steps.append(["t", sl, li, rng.choice(["0", "1", "2", token(rng, 1, 4)]), rng.choice([0, 1, 2, rng.randrange(64)])])
                    if nt and rng.random() < 0.5:
                        steps.append(["p", NSLOTS - 1, rng.randrange(nt)])
                steps += [["s", sl] for sl in range(NSLOTS)] + [["c", 0, li], ["s", 0]]
            elif shape == 2 and nt:  # parse, print, overwrite with a sibling, print, overwrite back, print
                a, b = rng.randrange(nt), rng.randrange(nt)
                steps = [["p", 0, a], ["s", 0], ["a", 0, b], ["s", 0], ["a", 0, a], ["s", 0], ["p", 1, b], ["s", 1], ["a", 1, a], ["s", 1], ["s", 0]]
            else:
                for _ in range(rng.randint(4, 24)):
                    r = rng.random()
                    sl = rng.randrange(NSLOTS)
                    if r < 0.35 and nt:
                        steps.append(["p", sl, rng.randrange(nt)])
                    elif r < 0.5:
                        steps.append(["h", sl, rng.randrange(1, 1000)])
                    elif r < 0.7:
                        steps.append(["s", sl])
                    elif r < 0.8 and nt:
                        steps.append(["a", sl, rng.randrange(nt)])
                    elif r < 0.87:
                        steps.append(["c", sl, rng.randrange(nl)])
                    else:
                        steps.append(["t", sl, rng.randrange(nl), rng.choice(["0", "1", token(rng, 1, 4)]), rng.randrange(4)])
                steps += [["s", sl] for sl in range(NSLOTS)]
            out.append({"texts": texts, "lines": lines, "steps": steps})
        return out

    # ---- reference semantics (pure; mirrors lean/Aiortc/Model/Sdp/Ops.lean) ----
    @staticmethod
    def reference(case, both_session, both_cand) -> list[str]:
        """Expected observation of every step.  `both_session(t)` -> (obs, value or None), value only used through
        `str_of(value)`; a slot holds ("sess", ti) | ("cand", line, mid, idx) | "unknown" | None."""
        slots = [None] * NSLOTS
        obs = []
        cache_s, cache_c = {}, {}

        def bs(ti):
            if ti not in cache_s:
                cache_s[ti] = both_session(case["texts"][ti])[0]
            return cache_s[ti]

        def bc(li):
            if li not in cache_c:
                cache_c[li] = both_cand(case["lines"][li])[0]
            return cache_c[li]
        for st in case["steps"]:
            op, sl = st[0], st[1]
            if op == "p":
                o = bs(st[2])
                slots[sl] = ("sess", st[2]) if o.startswith("ok ") else None
                obs.append(o)
            elif op in ("c", "t"):
                o = bc(st[2])
                mid = (st[3], st[4]) if op == "t" else None
                slots[sl] = ("cand", st[2], mid) if o.startswith("ok ") else None
                obs.append(o + (f" @{enc(st[3])} {st[4]}" if (op == "t" and o.startswith("ok ")) else ""))
            elif op == "h":
                if slots[sl] is not None:
                    slots[sl] = "unknown"
                obs.append("-")
            elif op == "a":
                if isinstance(slots[sl], tuple) and slots[sl][0] == "sess" and bs(st[2]).startswith("ok "):
                    slots[sl] = ("sess", st[2])
                obs.append("-")
            else:
                v = slots[sl]
                if v is None:
                    obs.append("-")
                elif v == "unknown":
                    obs.append("?")
                elif v[0] == "sess":
                    obs.append(bs(v[1]).split(" || ", 1)[1])
                else:
                    obs.append(bc(v[1]).split(" || ", 1)[1] + (f" @{enc(v[2][0])} {v[2][1]}" if v[2] else ""))
        return obs

    def model_line(self, case):
        toks = []
        for st in case["steps"]:
            if st[0] in ("p", "a"):
                toks += [st[0], str(st[1]), enc(case["texts"][st[2]])]
            elif st[0] == "c":
                toks += ["c", str(st[1]), enc(case["lines"][st[2]])]
            elif st[0] == "t":
                toks += ["t", str(st[1]), enc(case["lines"][st[2]]), enc(st[3]), str(st[4])]
            elif st[0] == "h":
                toks += ["h", str(st[1])]
            else:
                toks += ["s", str(st[1])]
        if any(any(ch.isdigit() and not ch.isascii() for ch in l) for l in case["lines"]):
            return None
        return "sdp ops " + " ".join(toks)

    def _impl_all(self, cases):
        # pure phase first: what every text / line of every case parses to while nothing has been modified in this process yet
        self._ref_s, self._ref_c = {}, {}
        for c in cases:
            for t in c["texts"]:
                if t not in self._ref_s:
                    o, r = _both_session(t)
                    self._ref_s[t] = (o, snapshot(r), session_spec(r) if r is not None else None)
            for l in c["lines"]:
                if l not in self._ref_c:
                    o, r = _both_cand(l)
                    self._ref_c[l] = (o, snapshot(r))
        return super()._impl_all(cases)

    def _impl(self, case):
        from aiortc import sdp
        from aiortc.contrib import signaling
        slots = [None] * NSLOTS      # live objects
        mirror = [None] * NSLOTS     # what the reference semantics says the slot holds
        obs, extra = [], None

        def note(i, msg):
            nonlocal extra
            if extra is None:
                extra = f"step {i} {case['steps'][i][:2]}: {msg}"
        for i, st in enumerate(case["steps"]):
            op, sl = st[0], st[1]
            if op == "p":
                t = case["texts"][st[2]]
                o, r = _both_session(t)
                ref = self._ref_s[t]
                if o != ref[0] or snapshot(r) != ref[1]:
                    note(i, "SessionDescription.parse(text) does not give what the same text gave before anything was modified in this process: "
                         + snap_diff(ref[0] + " ## " + ref[1], o + " ## " + snapshot(r)))
                slots[sl], mirror[sl] = r, (("sess", st[2]) if r is not None else None)
                obs.append(o)
            elif op in ("c", "t"):
                l = case["lines"][st[2]]
                if op == "c":
                    o, r = _both_cand(l)
                    snap = snapshot(r)
                else:
                    msg = _sig_message(l, st[3], st[4])
                    tg, r = _try(lambda: signaling.object_from_string(msg))
                    if tg != "ok":
                        o, snap = tg + " || " + tg, "~"
                    else:
                        o = "ok " + canon_cand(cand_spec(r)) + " || ok " + enc(sdp.candidate_to_sdp(r)) + f" @{opt(enc, r.sdpMid)} {opt(si, r.sdpMLineIndex)}"
                        mid, idx = r.sdpMid, r.sdpMLineIndex
                        try:
                            r.sdpMid = r.sdpMLineIndex = None
                            snap = snapshot(r)
                        finally:
                            r.sdpMid, r.sdpMLineIndex = mid, idx
                ref = self._ref_c[l]
                if o.split(" @")[0] != ref[0] or snap != ref[1]:
                    note(i, "the candidate line does not parse to what the same line gave before anything was modified in this process: "
                         + snap_diff(ref[0] + " ## " + ref[1], o + " ## " + snap))
                slots[sl] = r
                mirror[sl] = ("cand", st[2], (st[3], st[4]) if op == "t" else None) if r is not None else None
                obs.append(o)
            elif op == "h":
                if slots[sl] is not None:
                    hostile(slots[sl], st[2])
                    mirror[sl] = "unknown"
                obs.append("-")
            elif op == "a":
                spec2 = self._ref_s[case["texts"][st[2]]][2]
                if isinstance(mirror[sl], tuple) and mirror[sl][0] == "sess" and spec2 is not None:
                    session_assign(slots[sl], spec2)
                    mirror[sl] = ("sess", st[2])
                obs.append("-")
            else:
                v, m = slots[sl], mirror[sl]
                if m is None:
                    obs.append("-")
                elif m == "unknown":
                    _try(lambda: str(v))
                    obs.append("?")
                elif m[0] == "sess":
                    obs.append(outcome(lambda: str(v), enc))
                else:
                    obs.append(outcome(lambda: sdp.candidate_to_sdp(v), enc) + (f" @{opt(enc, v.sdpMid)} {opt(si, v.sdpMLineIndex)}" if m[2] else ""))
                    if m[2] and signaling.object_to_string(v) != _sig_message(sdp.candidate_to_sdp(v), m[2][0], m[2][1]):
                        note(i, f"the candidate decoded for mid {m[2][0]!r} index {m[2][1]} now encodes to {signaling.object_to_string(v)}")
        # the pure reference, from the observations made before anything was modified
        want = self.reference(case, lambda t: (self._ref_s[t][0], None), lambda l: (self._ref_c[l][0], None))
        for i, (g, w) in enumerate(zip(obs, want)):
            if g != w:
                note(i, "observed " + _short(snap_diff(w, g), 400) + " (left: what a history-free evaluation gives)")
                break
        return " ## ".join(obs) + (" => " + extra if extra else "")

    def oracle(self, case, impl_out):
        if impl_out.startswith("HARNESS-EXC"):
            return None
        if " => " in impl_out:
            return impl_out.split(" => ", 1)[1]
        # this process never modifies a result: evaluate every text once, derive what every step must show
        want = " ## ".join(self.reference(case, _both_session, _both_cand))
        if impl_out != want:
            return "the sequence observed " + snap_diff(want, impl_out) + " (left: what a history-free evaluation gives)"
        return None

    def label(self, case, impl_out):
        ops = "".join(sorted({st[0] for st in case["steps"]}))
        return ops + (":dev" if " => " in impl_out else "")

    def _shrink(self, case):
        steps = case["steps"]
        if len(steps) > 2:
            yield dict(case, steps=steps[:len(steps) // 2])
            yield dict(case, steps=steps[len(steps) // 2:])
        for i in range(len(steps)):
            yield dict(case, steps=steps[:i] + steps[i + 1:])
        used_t = sorted({st[2] for st in steps if st[0] in ("p", "a")})
        used_l = sorted({st[2] for st in steps if st[0] in ("c", "t")})
        if len(used_t) < len(case["texts"]) or len(used_l) < len(case["lines"]):
            mt, ml = {o: n for n, o in enumerate(used_t)}, {o: n for n, o in enumerate(used_l)}
            yield {"texts": [case["texts"][i] for i in used_t], "lines": [case["lines"][i] for i in used_l],
                   "steps": [[st[0], st[1], (mt if st[0] in ("p", "a") else ml)[st[2]]] + st[3:] if st[0] in ("p", "a", "c", "t") else st for st in steps]}
        for ti in used_t:
            ls = case["texts"][ti].splitlines()
            if len(ls) > 1:
                for j in range(len(ls)):
                    t2 = "\r\n".join(ls[:j] + ls[j + 1:]) + "\r\n"
                    yield dict(case, texts=case["texts"][:ti] + [t2] + case["texts"][ti + 1:])


def components(tier):
    return [Session(), CandidateC(), ParamsC(), LexC(), Ops()]


def classify_finding(finding, comp_name, case, what):
    clf = finding.get("classifier", {})
    if clf.get("component") not in (None, comp_name):
        return False
    needle = clf.get("what_contains")
    if needle and needle not in what:
        return False
    if clf.get("kind") == "dup-pt-feedback":
        # accepted text with two rtpmap lines for one payload type in a media section and an rtcp-fb line for it
        t = case.get("text")
        if t is None:
            return False
        return _has_dup_pt_feedback(t)
    return False


def _has_dup_pt_feedback(text: str) -> bool:
    try:
        s = _parse(text)
    except Exception:  # noqa: BLE001
        return False
    for m in s.media:
        seen = {}
        for c in m.rtp.codecs:
            seen.setdefault(c.payloadType, []).append(c)
        for pt, cs in seen.items():
            if len(cs) > 1 and any(c.rtcpFeedback for c in cs):
                return True
    return False
