"""C10 — jitter buffer: compiled Lean model (Model/Jitter.lean) vs src/aiortc/jitterbuffer.py on the same
operation lists, plus the property itself evaluated on the implementation (oracle)."""
from __future__ import annotations

import itertools

from harness.check import Component

LEAN_TARGETS = ["Aiortc.Props.C10"]
DRIVERS = ["Jitter"]
MANIFEST = {
    "technique": "Lean 4 invariant/induction proofs over an executable line-by-line model of jitterbuffer.py + "
                 "differential run of the compiled model against the real class + implementation-side oracle",
    "text": "Model/Jitter.lean mirrors all of jitterbuffer.py (add, _remove_frame, remove, smart_remove, both asserts, every "
            "subscript and modulo as a possibly-failing operation). Props/C10.lean proves for ALL capacities 2^k (k<=16), prefetch, "
            "audio/video and ALL arrival lists over 16-bit sequence numbers: add never raises and keeps the ring at length capacity; "
            "the slot invariant; every released frame is the join of a run of held, previously added packets with consecutive "
            "sequence numbers and one timestamp followed by a held packet of another timestamp; without a >=100-late arrival the "
            "unwrapped ranges of successive frames are strictly increasing and disjoint; in video mode a held sequence number that "
            "disappears without being in the returned frame forces pli_flag; a call that returns no frame leaves no releasable "
            "frame at the origin; for in-order arrival every frame but the trailing window is released exactly once. The literal "
            "completeness clause is refuted by a concrete witness (one frame per add() call leaves a backlog after reordering).",
    "note": "Clause 6 at full strength is false for the pinned code (known finding C10-backlog-one-frame-per-add); the proved "
            "partial versions are release_if_ready and complete_in_order.",
    "design_ref": "DESIGN.md §2 C10",
}
ASSUMPTIONS = [
    "capacity is a power of two 2^k with k <= 16 (the constructor's assert admits exactly the powers of two; above 2^16 is outside the property's range 4..128)",
    "arrivals carry 16-bit sequence numbers (0 <= seq < 65536), as parsed from the wire by RtpPacket.parse",
    "clause 4 (no reuse / increasing order) is stated over unwrapped positions: a ghost extended origin advanced by the 16-bit distance the origin moved in each call",
    "clause 5 is about sequence numbers: a held packet overwritten by a duplicate with the same sequence number does not count as thrown away",
    "clause 6 is proved only as (a) release_iff_ready / release_if_ready: _remove_frame returns a frame exactly when the contiguous run at the origin has "
    ">= max(prefetch,1) timestamp changes, so a call that is not the silent late-drop and returns no frame leaves nothing releasable, and "
    "(b) complete_in_order + expected_count: for in-order arrival (frames = maximal runs of equal timestamps) into a fresh buffer of capacity <= 2^15 where a frame "
    "plus its prefetch window always fits (Fits), every frame except the last max(prefetch,1) is released exactly once, in order, without pli; "
    "the literal clause for reordered arrival is false (complete_full_false, known finding C10-backlog-one-frame-per-add)",
]
TRUSTED_EXTRA = [
    "RTCRtpReceiver._handle_rtp_packet (depayload, forwarding of pli_flag to _send_rtcp_pli, decoder queue) is not modelled here; only its "
    "JitterBuffer(capacity, prefetch, is_video) literals are regenerated (Gen/Jitter.lean) and proved to satisfy the capacity hypothesis",
    "RtpPacket is represented by (sequence_number, timestamp, _data); other header fields are not read by jitterbuffer.py",
]
RULE = ("operation lists for a fresh JitterBuffer(capacity 1..256 mostly powers of two 4..128 incl. the receiver's own (16,4,audio),(128,0,video); prefetch 0..4): "
        "in-order streams (frame sizes 1..8, start offsets near 65535), bounded-displacement reorderings with duplicates/losses, adversarial jumps "
        "(+-capacity, +-99/100/101, half space), frames longer than the capacity, random small-alphabet sequences, and (thorough) all permutations of 6 "
        "packets and all length<=5 words over 5 sequence numbers for capacity 4 and 8; every arrival carries a unique 2-byte payload so the oracle "
        "can tell which arrivals make up a frame; distinct = distinct canonical case")

M16 = 1 << 16
MAX_MISORDER_TEXT = 100   # the literal of the property text


def _jb():
    from aiortc import jitterbuffer, rtp
    return jitterbuffer, rtp


def _hx(b: bytes) -> str:
    return b.hex() if b else "-"


def _tag(i: int) -> str:
    return "%04x" % (i & 0xFFFF)


def _mkpkt(seq, ts, hexdata):
    _, rtp = _jb()
    p = rtp.RtpPacket(sequence_number=seq, timestamp=ts)
    p._data = b"" if hexdata == "-" else bytes.fromhex(hexdata)
    return p


def _exc_tag(exc: BaseException) -> str:
    return "crash " + type(exc).__name__


def _slot(x):
    if x is None:
        return "n"
    return f"{x.sequence_number}.{x.timestamp}.{_hx(x._data)}"


def _state(jb):
    o = "n" if jb._origin is None else str(jb._origin)
    return o + "|" + ",".join(_slot(x) for x in jb._packets)


def run_impl(case):
    """Canonical string of what the real class does on the op list."""
    J, _ = _jb()
    try:
        jb = J.JitterBuffer(capacity=case["cap"], prefetch=case["pre"], is_video=bool(case["video"]))
    except Exception as exc:
        return _exc_tag(exc)
    outs = []
    for op in case["ops"]:
        try:
            if op[0] == "a":
                pli, fr = jb.add(_mkpkt(op[1], op[2], op[3]))
                outs.append(("1" if pli else "0") + "/" + ("n" if fr is None else f"{fr.timestamp}/{_hx(fr.data)}"))
            elif op[0] == "r":
                jb.remove(op[1])
                outs.append("r")
            elif op[0] == "s":
                outs.append("s1" if jb.smart_remove(op[1]) else "s0")
            elif op[0] == "f":
                fr = jb._remove_frame(0)
                outs.append("f/" + ("n" if fr is None else f"{fr.timestamp}/{_hx(fr.data)}"))
        except Exception as exc:
            return _exc_tag(exc)
    return "ok " + ";".join(outs) + "|" + _state(jb)


def model_line(case):
    ops = ";".join(":".join(str(x) for x in op) for op in case["ops"]) or "-"
    return f"jitter run {case['cap']} {case['pre']} {1 if case['video'] else 0} {ops}"


# ---------------------------------------------------------------------------------------------------
# the property on the implementation

def _held(jb):
    return [x for x in jb._packets if x is not None]


def _ready(jb, prefetch):
    """Does the buffer hold, contiguously from the origin, a complete frame plus the prefetch window?
    (independent restatement: count timestamp changes along the run of present packets at origin, origin+1, …)"""
    if jb._origin is None:
        return False
    by_seq = {x.sequence_number: x for x in _held(jb)}
    changes = 0
    last = None
    for i in range(jb.capacity):
        x = by_seq.get((jb._origin + i) % M16)
        if x is None:
            break
        if last is not None and x.timestamp != last:
            changes += 1
        last = x.timestamp
    return changes >= max(prefetch, 1)


def check_arrivals(case):
    """Clauses 1-6 of C10 on the real class for an add-only case whose arrival i carries payload tag(i)."""
    J, _ = _jb()
    cap, pre, video = case["cap"], case["pre"], bool(case["video"])
    ops = case["ops"]
    stream = case.get("stream")  # {"start": s0, "sizes": [...], "ts": [...]} when the arrivals are over one sender stream
    try:
        jb = J.JitterBuffer(capacity=cap, prefetch=pre, is_video=video)
    except Exception as exc:
        return f"C10-1 constructor raised {type(exc).__name__} for capacity {cap}"
    arr = [(op[1], op[2]) for op in ops]          # (seq, ts) by arrival index
    used_arrivals: set[int] = set()
    no_late = True       # no arrival so far was >= 100 behind the origin
    ext = None           # unwrapped origin
    last_end = None      # unwrapped end of the last released frame
    # clause 6 bookkeeping
    if stream:
        sizes = stream["sizes"]
        starts = [0]
        for s in sizes:
            starts.append(starts[-1] + s)
        npk = starts[-1]
        frame_of = []
        for fi, s in enumerate(sizes):
            frame_of += [fi] * s
        hyp6 = bool(ops) and stream["idx"][0] == 0
        in_order = all(b == a + 1 for a, b in zip(stream["idx"], stream["idx"][1:])) and hyp6
        base = 0         # oldest stream packet not yet released
        released = 0     # number of frames released
        arrived: set[int] = set()
    for i, op in enumerate(ops):
        seq, ts, hx = op[1], op[2], op[3]
        before = {x.sequence_number for x in _held(jb)}
        o_before = jb._origin
        late = False
        if o_before is not None:
            delta = (seq - o_before) % M16
            mis = (o_before - seq) % M16
            if mis < delta:
                late = True
                if mis >= MAX_MISORDER_TEXT:
                    no_late = False
        if stream and hyp6:
            k = stream["idx"][i]
            if not (base - MAX_MISORDER_TEXT < k < base + cap):
                hyp6 = False
        try:
            pli, fr = jb.add(_mkpkt(seq, ts, hx))
        except Exception as exc:
            return f"C10-1 add raised {type(exc).__name__} at arrival {i} (seq {seq})"
        # clause 1: bounded
        if len(jb._packets) != cap or len(_held(jb)) > cap:
            return f"C10-1 buffer holds {len(_held(jb))} packets in {len(jb._packets)} slots, capacity {cap}"
        o_after = jb._origin
        if o_after is None or not (0 <= o_after < M16):
            return f"C10-2 origin {o_after} outside the 16-bit range after arrival {i}"
        # clause 2: slot invariant
        for pos, x in enumerate(jb._packets):
            if x is not None:
                d = (x.sequence_number - o_after) % M16
                if d >= cap or x.sequence_number % cap != pos:
                    return f"C10-2 slot {pos} holds seq {x.sequence_number}, origin {o_after}, capacity {cap}"
        if ext is None:
            ext = o_after if o_before is None else None
        elif o_before is not None:
            ext += (o_after - o_before) % M16
        after = {x.sequence_number for x in _held(jb)}
        used_seqs: set[int] = set()
        if fr is not None:
            # clause 3: frame integrity
            d = fr.data
            if len(d) == 0 or len(d) % 2:
                return f"C10-3 frame at arrival {i} is not a join of whole payloads ({_hx(d)})"
            ids = [int.from_bytes(d[j:j + 2], "big") for j in range(0, len(d), 2)]
            if any(a > i for a in ids):
                return f"C10-3 frame at arrival {i} contains payload of a packet not yet received"
            seqs = [arr[a][0] for a in ids]
            if any(arr[a][1] != fr.timestamp for a in ids):
                return f"C10-3 frame at arrival {i} (timestamp {fr.timestamp}) joins packets of timestamps {[arr[a][1] for a in ids]}"
            if any((seqs[j + 1] - seqs[j]) % M16 != 1 for j in range(len(seqs) - 1)):
                return f"C10-3 frame at arrival {i} joins non-consecutive sequence numbers {seqs}"
            if (seqs[-1] + 1) % M16 != o_after:
                return f"C10-3 frame at arrival {i} ends at seq {seqs[-1]} but the origin moved to {o_after}"
            nxt = [x for x in _held(jb) if x.sequence_number == o_after]
            if not nxt or nxt[0].timestamp == fr.timestamp:
                return f"C10-3 frame at arrival {i} released without a following packet of a different timestamp"
            used_seqs = set(seqs)
            # clause 4: no reuse, increasing order
            if no_late:
                if used_arrivals & set(ids):
                    return f"C10-4 arrivals {sorted(used_arrivals & set(ids))} used in two frames (no packet was >= 100 late)"
                if ext is not None:
                    start = ext - len(ids)
                    if last_end is not None and start < last_end:
                        return f"C10-4 frame at arrival {i} starts at unwrapped {start} before the end {last_end} of the previous frame"
                    last_end = ext
            used_arrivals |= set(ids)
        # clause 5: PLI on discard
        gone = before - after - used_seqs
        if video and gone and not pli:
            return f"C10-5 video buffer dropped held seqs {sorted(gone)[:6]} at arrival {i} without pli_flag"
        # clause 6a: a call that gets as far as _remove_frame and returns no frame leaves nothing releasable
        early = late and (o_before - seq) % M16 < MAX_MISORDER_TEXT
        if fr is None and not early and _ready(jb, pre):
            return f"C10-6 add returned no frame at arrival {i} although a complete frame and the prefetch window are held"
        if stream:
            arrived.add(stream["idx"][i])
            if hyp6:
                if pli or gone:
                    return f"C10-6 discarded held packets / pli at arrival {i} although displacement < capacity"
                if fr is not None:
                    want = list(range(starts[released], starts[released + 1])) if released < len(sizes) else []
                    got = [stream["idx"][a] for a in ids]
                    if got != want:
                        return f"C10-6 frame at arrival {i} is stream packets {got}, expected frame {released} = {want}"
                    released += 1
                    base = starts[released]
    if stream and hyp6 and arrived == set(range(npk)):
        nfr = len(sizes)
        if in_order and released != max(nfr - max(pre, 1), 0):
            return f"C10-6 in-order arrival of {nfr} frames released {released}, expected {max(nfr - max(pre, 1), 0)}"
        if released < nfr - (pre + 1) and pre >= 0:
            return (f"C10-6-full complete arrival displaced by less than the capacity: only {released} of {nfr} frames released, "
                    f"{nfr - released} still held (prefetch {pre})")
    return None


# ---------------------------------------------------------------------------------------------------
# generators

CAPS = [4, 8, 16, 32, 64, 128]


def _params(rng):
    r = rng.random()
    if r < 0.15:
        return 16, 4, False
    if r < 0.3:
        return 128, 0, True
    return rng.choice(CAPS), rng.randrange(0, 5), rng.random() < 0.5


def _start(rng):
    r = rng.random()
    if r < 0.4:
        return (M16 - rng.randrange(0, 40)) % M16
    if r < 0.5:
        return rng.randrange(0, 4)
    if r < 0.6:
        return 32768 - rng.randrange(0, 20)
    return rng.randrange(M16)


def _stream(rng, nframes, maxsize, ts_mode=0):
    sizes = [rng.randrange(1, maxsize + 1) for _ in range(nframes)]
    t0 = rng.choice([0, 1234, 2**32 - 3000 * rng.randrange(1, 4), rng.randrange(2**32)])
    if ts_mode == 0:
        ts = [(t0 + 3000 * i) % 2**32 for i in range(nframes)]
    else:  # timestamps alternate between two values: adjacent frames differ, non-adjacent ones collide
        ts = [(t0 + 90 * (i % 2)) % 2**32 for i in range(nframes)]
    return sizes, ts


def _arrivals_case(cap, pre, video, start, sizes, ts, idx, kind):
    """idx: list of stream packet indices in arrival order."""
    seqs, tss = [], []
    for fi, s in enumerate(sizes):
        for _ in range(s):
            seqs.append((start + len(seqs)) % M16)
            tss.append(ts[fi])
    ops = [["a", seqs[k], tss[k], _tag(i)] for i, k in enumerate(idx)]
    return {"cap": cap, "pre": pre, "video": video, "ops": ops, "kind": kind,
            "stream": {"start": start, "sizes": sizes, "ts": ts, "idx": list(idx)}}


def _free_case(cap, pre, video, pkts, kind):
    ops = [["a", s % M16, t, _tag(i)] for i, (s, t) in enumerate(pkts)]
    return {"cap": cap, "pre": pre, "video": video, "ops": ops, "kind": kind}


def _displace(rng, n, d):
    keys = [(k + rng.uniform(0, d + 0.999), k) for k in range(n)]
    keys.sort()
    return [k for _, k in keys]


class Arrivals(Component):
    name = "arrivals"
    theorems = ["jb_total", "run_total", "slot_inv", "frame_integrity", "no_reuse_in_order", "pli_on_discard",
                "release_iff_ready", "release_if_ready", "complete_in_order", "expected_count", "complete_full_false",
                "buffer_never_raises", "step_advance", "first_add_no_frame"]

    def corpus(self):
        out = []
        # witness of the known finding: cap 16, prefetch 0, one packet per frame, arrival 0,2,3,4,5,1
        out.append(_arrivals_case(16, 0, False, 0, [1] * 6, [10 * i for i in range(6)], [0, 2, 3, 4, 5, 1], "witness-backlog"))
        # DESIGN's example for the literal reading of "displaced by less than the capacity"
        out.append(_arrivals_case(4, 0, False, 0, [1] * 7, [10 * i for i in range(7)], [0, 4, 5, 6, 1, 2, 3], "design-cap4"))
        # repo tests' shapes: frame longer than the capacity, then a new frame
        out.append(_free_case(4, 0, True, [(i, 1234) for i in range(4)] + [(4, 1234), (5, 1235)], "overflow-same-ts"))
        # reset by a packet exactly 100 behind / 99 behind
        out.append(_free_case(8, 0, True, [(200, 1), (201, 2), (100, 3), (101, 4)], "late-100"))
        out.append(_free_case(8, 0, True, [(200, 1), (201, 2), (102, 3), (103, 4), (202, 5)], "late-99"))
        # wrap
        out.append(_arrivals_case(16, 4, False, 65530, [1] * 12, [960 * i for i in range(12)], list(range(12)), "wrap-audio"))
        return out

    def cases(self, rng, tier):
        out = []
        n = 1500 if tier == "quick" else 20000
        for _ in range(n):
            cap, pre, video = _params(rng)
            start = _start(rng)
            mode = rng.randrange(9)
            if mode == 0:      # in order
                sizes, ts = _stream(rng, rng.randrange(1, 30), rng.choice([1, 1, 3, 8]), rng.randrange(2))
                npk = sum(sizes)
                out.append(_arrivals_case(cap, pre, video, start, sizes, ts, list(range(npk)), "in-order"))
            elif mode == 1:    # in order with duplicates of recent packets
                sizes, ts = _stream(rng, rng.randrange(2, 20), rng.choice([1, 2, 4]))
                npk = sum(sizes)
                idx = []
                for k in range(npk):
                    idx.append(k)
                    if rng.random() < 0.3:
                        idx.append(max(0, k - rng.randrange(0, 4)))
                out.append(_arrivals_case(cap, pre, video, start, sizes, ts, idx, "dups"))
            elif mode == 2:    # bounded displacement, complete
                sizes, ts = _stream(rng, rng.randrange(2, 24), rng.choice([1, 2, 3, 8]), rng.randrange(2))
                npk = sum(sizes)
                d = rng.choice([1, 2, max(1, cap // 4), max(1, cap // 2 - 1), cap - 1])
                idx = _displace(rng, npk, d)
                if idx[0] != 0 and rng.random() < 0.8:
                    idx.remove(0)
                    idx.insert(0, 0)
                out.append(_arrivals_case(cap, pre, video, start, sizes, ts, idx, "displaced"))
            elif mode == 3:    # loss + reorder + duplicates
                sizes, ts = _stream(rng, rng.randrange(2, 24), rng.choice([1, 3, 8]))
                npk = sum(sizes)
                idx = [k for k in _displace(rng, npk, rng.choice([0, 2, cap // 2])) if rng.random() > 0.15]
                idx += [rng.randrange(npk) for _ in range(rng.randrange(0, 4))]
                out.append(_arrivals_case(cap, pre, video, start, sizes, ts, idx, "lossy"))
            elif mode == 4:    # jumps
                pk = []
                s = start
                t = 1000
                for _ in range(rng.randrange(3, 40)):
                    r = rng.random()
                    if r < 0.55:
                        s += 1
                    elif r < 0.7:
                        s += rng.choice([cap - 1, cap, cap + 1, 2 * cap, 2 * cap - 1, cap // 2])
                    elif r < 0.85:
                        s -= rng.choice([1, 2, 98, 99, 100, 101, cap, cap + 1])
                    else:
                        s += rng.choice([32767, 32768, 32769, 40000, 65535 - cap, 65436, 65437])
                    if rng.random() < 0.5:
                        t += rng.choice([1, 3000])
                    pk.append((s, t % 2**32))
                out.append(_free_case(cap, pre, video, pk, "jumps"))
            elif mode == 5:    # frames longer than the capacity
                pk = []
                s = start
                for f in range(rng.randrange(1, 4)):
                    for _ in range(rng.choice([cap - 1, cap, cap + 1, cap + 3, 2 * cap + 1])):
                        pk.append((s, 500 + f))
                        s += 1
                if rng.random() < 0.5:
                    rng.shuffle(pk)
                out.append(_free_case(cap, pre, video, pk[:400], "long-frames"))
            elif mode == 6:    # random over a small alphabet around the start
                w = rng.choice([cap, 2 * cap, cap + 101, 250])
                pk = [(start + rng.randrange(w), rng.randrange(3)) for _ in range(rng.randrange(1, 60))]
                out.append(_free_case(cap, pre, video, pk, "random-window"))
            elif mode == 7:    # uniformly random sequence numbers
                pk = [(rng.randrange(M16), rng.randrange(4)) for _ in range(rng.randrange(1, 30))]
                out.append(_free_case(cap, pre, video, pk, "random-16bit"))
            else:              # displaced + one straggler that is very late (reset) and a continuation
                sizes, ts = _stream(rng, rng.randrange(4, 16), rng.choice([1, 2]))
                npk = sum(sizes)
                idx = list(range(npk))
                k = rng.randrange(npk)
                idx.remove(k)
                idx.insert(min(len(idx), k + rng.choice([3, cap - 1, cap, 99, 100, 101, 130])), k)
                out.append(_arrivals_case(cap, pre, video, start, sizes, ts, idx, "straggler"))
        if tier == "thorough":
            # all permutations of 6 packets, three frame shapes, capacity 4 and 8, prefetch 0..2
            for sizes in ([1] * 6, [2, 2, 2], [3, 1, 2]):
                ts = [100 * i for i in range(len(sizes))]
                for perm in itertools.permutations(range(6)):
                    for cap in (4, 8):
                        pre = (perm[0] + perm[1] * 2 + cap) % 3
                        out.append(_arrivals_case(cap, pre, perm[2] % 2 == 0, 65533, sizes, ts, list(perm), "perm6"))
            # all words of length <= 5 over 5 consecutive sequence numbers (duplication), two frames
            for ln in range(1, 6):
                for w in itertools.product(range(5), repeat=ln):
                    cap = 4 if (sum(w) + ln) % 2 else 8
                    pk = [(65534 + k, 7 if k < 2 else 8) for k in w]
                    out.append(_free_case(cap, w[0] % 2, True, pk, "words5"))
        return out

    def model_line(self, case):
        return model_line(case)

    def impl(self, case):
        return run_impl(case)

    def oracle(self, case, impl_out):
        return check_arrivals(case)

    def label(self, case, impl_out):
        if not impl_out.startswith("ok "):
            return impl_out[:30]
        res = impl_out[3:].split("|")[0].split(";")
        nfr = sum(1 for r in res if not r.endswith("/n"))
        npli = sum(1 for r in res if r.startswith("1/"))
        return f"{case.get('kind', '?')}:{'frames' if nfr else 'nofr'}:{'pli' if npli else 'nopli'}"

    def nontrivial(self, case, impl_out):
        return len(case["ops"]) >= 2

    def shrink(self, case):
        ops = case["ops"]
        n = len(ops)
        out = []

        def rebuild(keep):
            c = dict(case)
            c["ops"] = [["a", ops[k][1], ops[k][2], _tag(j)] for j, k in enumerate(keep)]
            if "stream" in case:
                st = dict(case["stream"])
                st["idx"] = [case["stream"]["idx"][k] for k in keep]
                c["stream"] = st
            return c
        if n > 1:
            step = max(n // 2, 1)
            while step >= 1:
                for a in range(0, n, step):
                    keep = [k for k in range(n) if not (a <= k < a + step)]
                    if keep:
                        out.append(rebuild(keep))
                step //= 2
        return out


class Api(Component):
    """Direct calls of remove / smart_remove / _remove_frame interleaved with add, all capacities 0..260 (incl. non powers
    of two and 0) and negative prefetch: correspondence only (the asserts are part of the contract there)."""
    name = "api"
    theorems = ["mk_ok_iff_pow2"]

    def corpus(self):
        return [
            {"cap": 0, "pre": 0, "video": False, "ops": [["a", 0, 0, "00"]]},
            {"cap": 0, "pre": 0, "video": False, "ops": [["f"], ["s", 1], ["r", 0]]},
            {"cap": 3, "pre": 0, "video": False, "ops": []},
            {"cap": 4, "pre": 0, "video": False, "ops": [["r", 5]]},
            {"cap": 4, "pre": 0, "video": False, "ops": [["r", 1]]},
            {"cap": 4, "pre": 0, "video": False, "ops": [["r", 0], ["f"]]},
            {"cap": 4, "pre": 0, "video": False, "ops": [["s", 1]]},
            {"cap": 1, "pre": 0, "video": True, "ops": [["a", 5, 1, "01"], ["a", 6, 2, "02"], ["a", 7, 2, "03"]]},
            {"cap": 2, "pre": -1, "video": True, "ops": [["a", 5, 1, "01"], ["a", 6, 2, "02"], ["a", 7, 3, "03"]]},
        ]

    def cases(self, rng, tier):
        out = []
        for cap in range(0, 20):
            out.append({"cap": cap, "pre": 0, "video": False, "ops": [["a", 65535, 1, "aa"], ["a", 0, 2, "bb"], ["a", 1, 3, "-"]]})
        n = 600 if tier == "quick" else 6000
        for _ in range(n):
            cap = rng.choice([1, 2, 4, 4, 8, 8, 16, 32, 64, 128, 256, rng.randrange(0, 260)])
            pre = rng.choice([0, 0, 1, 2, 3, 4, 5, -1])
            ops = []
            s = _start(rng)
            t = 0
            for i in range(rng.randrange(1, 50)):
                r = rng.random()
                if r < 0.7:
                    s += rng.choice([1, 1, 1, 1, 2, 3, -1, -2, cap, cap + 1, 0])
                    if rng.random() < 0.4:
                        t += 1
                    ops.append(["a", s % M16, t, rng.choice(["-", _tag(i), _tag(i) + "ff"])])
                elif r < 0.8:
                    ops.append(["r", rng.choice([0, 1, 2, cap, cap + 1, max(cap - 1, 0)])])
                elif r < 0.9:
                    ops.append(["s", rng.choice([-1, 0, 1, 2, cap, cap + 1, max(cap - 1, 0), 3])])
                else:
                    ops.append(["f"])
            out.append({"cap": cap, "pre": pre, "video": rng.random() < 0.5, "ops": ops})
        return out

    def model_line(self, case):
        return model_line(case)

    def impl(self, case):
        return run_impl(case)

    def oracle(self, case, impl_out):
        # constructor contract: accepted iff capacity is 0 or a power of two
        cap = case["cap"]
        if not case["ops"]:
            accepted = impl_out != "crash AssertionError"
            if accepted != (cap & (cap - 1) == 0):
                return f"constructor accepted={accepted} capacity {cap} against the power-of-two contract"
        return None

    def label(self, case, impl_out):
        if not impl_out.startswith("ok "):
            return impl_out[:30]
        kinds = "".join(sorted({op[0] for op in case["ops"]}))
        return "ok-" + kinds

    def shrink(self, case):
        ops = case["ops"]
        return [dict(case, ops=ops[:k] + ops[k + 1:]) for k in range(len(ops))]


def components(tier):
    return [Arrivals(), Api()]


def classify_finding(finding, comp_name, case, what):
    if finding.get("id") == "C10-backlog-one-frame-per-add":
        return comp_name == "arrivals" and what.startswith("C10-6-full ")
    return False
