"""C11 — video frames reach the decoder unspliced; NACK/RTX recovers losses.

Components
  nack      NackGenerator                       vs Model/Video/Nack.lean        (function-level differential + oracle)
  tsmap     TimestampMapper                     vs Model/Video/Receiver.lean    (function-level differential + oracle)
  sender    a REAL RTCRtpSender (fake transport, scripted track/encoder): packetisation loop of _run_rtp,
            history, _retransmit, NACK branch of _handle_rtcp_packet            vs Model/Video/Sender.lean
  receiver  a REAL video RTCRtpReceiver fed scripted RtpPackets (decoder queue tapped)
                                                                                 vs Model/Video/Receiver.lean
  pair      a REAL sender/receiver pair joined by a scripted lossy/duplicating/reordering network; each endpoint's
            observed input sequence is replayed through its Lean model (trace correspondence) and the property
            itself is evaluated on what reaches the decoder queue vs what the sender packetised (oracle).
"""
from __future__ import annotations

import asyncio
import struct
import threading

from harness.check import Component, case_key

LEAN_TARGETS = ["Aiortc.Props.C11"]
DRIVERS = ["Video"]
MANIFEST = {
    "technique": "Lean 4 invariant/induction proofs over executable line-by-line models of NackGenerator, the packetisation loop / "
                 "history / _retransmit of RTCRtpSender, the receive path of RTCRtpReceiver (reusing the C07 RTX, C16 depayload and C10 "
                 "jitter-buffer models) and TimestampMapper + function-level differential runs + trace correspondence of a real "
                 "sender/receiver pair over a scripted network + implementation-side oracle",
    "text": "Props/C11.lean proves for ALL inputs: the packetisation loop emits consecutive 16-bit sequence numbers, one timestamp per frame, "
            "the marker on the last payload and files every packet under seq % 128; _retransmit(s) resends packet s verbatim (or "
            "RTX-wrapped, inverted by unwrap_rtx) exactly when s is among the last 128 sequence numbers sent; after every "
            "NackGenerator.add the missing set lies within the 128 numbers before max_seq, has no duplicates, contains every number of "
            "that window that was skipped and not received since, and every NACK lists exactly that set; every frame put on the decoder "
            "queue is the in-order concatenation of the depayloaded packets of one sender frame or of a tail of it, a strict tail only "
            "when no frame was released since the start or since a call that returned pli_flag; without an arrival 100 or more "
            "positions late frames are released in sending order; TimestampMapper unwraps 32-bit timestamps; a lost packet that is "
            "still in the history when the NACK arrives reaches the jitter buffer (partial recovery statement).",
    "note": "Eventual delivery is proved only as loop_recovers_partial (NACKs are emitted only when a NEW gap is detected; there is no "
            "timer), see ASSUMPTIONS; the decoder thread hand-off (queue.Queue -> decoder_worker) is outside the model.",
    "design_ref": "DESIGN.md §2 C11",
}
ASSUMPTIONS = [
    "the sender's frames carry pairwise different RTP timestamps on adjacent frames (encoder timestamps strictly increasing, increments < 2^32) and at least one payload each",
    "whole-frame / order theorems: every arriving packet is a (possibly retransmitted, RTX-unwrapped) copy of a packet of the sender's stream and lies within 32768 "
    "positions of the jitter buffer's unwrapped origin (no 16-bit aliasing between packets that far apart); order additionally needs C10's hypothesis that no packet "
    "arrives 100 or more positions behind the origin (the reset branch)",
    "a strict tail of a frame is allowed for a frame released in or after a call that returned pli_flag (or at stream start) until the next release, exactly as the property text says",
    "nack_complete is stated for arrivals within 32768 positions of max_seq (serial-number comparison is only meaningful there); the window is the 128 numbers max_seq-128 .. max_seq-1",
    "loop_recovers_partial: recovery is proved under the hypothesis that the NACK that lists the lost packet is delivered while the packet is still among the sender's last 128 packets and the "
    "retransmission is delivered before the jitter-buffer origin is forced past it; NACKs are only emitted when a NEW gap is detected (no timer), so 'eventually' needs continuing traffic with a later gap or an undropped first NACK",
    "TimestampMapper: consecutive frames handed to it are less than 2^32 ticks apart and in sending order",
]
TRUSTED_EXTRA = [
    "RTCDtlsTransport (SRTP protect/unprotect, RtpPacket.parse with the transport's header-extension map, RtpRouter dispatch) is replaced by a harness stub that parses with the same "
    "HeaderExtensionsMap and calls _handle_rtp_packet / _handle_rtcp_packet directly; parse/serialize round trips are C07, routing is C12",
    "the decoder thread: decoder_worker is replaced by the harness (as the property's anchor prescribes) and the (codec, JitterFrame) items are read from __decoder_queue",
    "header extensions (abs_send_time from the clock, mid) are not part of the sender model; the oracle compares retransmissions with the originals byte-wise instead",
    "the remote bitrate estimator / REMB feedback (C15) and StreamStatistics (C18) run in the real receiver but are not modelled here; REMB and RR packets are filtered from the trace",
    "wall-clock time: the names `time` and `clock` of rtcrtpsender / rtcrtpreceiver are replaced by harness shims for the duration of a case, so that the script decides how much time passes between two events",
    "the encoder: get_encoder is replaced by a scripted encoder whose pack() returns the case's payload lists; VP8/H264 packetisation itself is C16",
]
RULE = ("nack/tsmap: sequences built from an unwrapped index walk (steps 1, small gaps, bursts up to 300, back-steps, duplicates, jumps around 128/32768) from origins near the 16/32-bit wrap; "
        "sender: op lists (frames of 0..8 payloads, NACK lists aimed at history boundaries 127/128/129 back, aliases +-65536, random, wall-clock steps 0..10 s between ops) "
        "over negotiated codec lists of every shape (sending codec = codecs[0] with/without its own rtx, rtx of other codecs before/after, rtx before its base codec, duplicates, none); "
        "receiver: scripted packet lists incl. unknown payload types, RTX from unknown SSRC, short RTX payloads, undecodable / empty payloads, jumps over the buffer; "
        "pair: frames of 1..8 packets (VP8 or H264 payloads), sequence/timestamp origins near the wrap, the same codec-list shapes, header extensions on/off, a scripted wall clock "
        "(sender pauses, late feedback, slow deliveries, 0..10 s each, in half of the cases), network families "
        "clean / recover (loss, duplication, bounded reordering of first transmissions; feedback and retransmissions delivered) / chaos (everything lossy, bursts beyond the buffer) / late (holds >= 100); "
        "distinct = distinct canonical case (sha1 of JSON)")

M16 = 1 << 16
M32 = 1 << 32
HIST = 128            # literal of the property text
CLOCK_STEPS = [0.0, 0.001, 0.02, 0.5, 0.99, 1.0, 1.01, 2.0, 5.0, 10.0]   # seconds between two events of a script
DRAIN = 10            # trailing always-delivered frames of the `recover` family ("while traffic continues")
MISORDER = 100        # literal of the property text
PT = 96
RTX_PT = 97
RTCP_SSRC = 4242


def _hx(b: bytes) -> str:
    return b.hex() if b else "-"


def _exc_tag(exc):
    if isinstance(exc, struct.error):
        return "crash struct.error"
    if isinstance(exc, ValueError):
        return "ValueError"
    return "crash " + type(exc).__name__


def _ugt(a, b):
    """reference serial comparison (RFC 1982) used by the oracles"""
    d = (a - b) % M16
    return 0 < d < M16 // 2


# ------------------------------------------------------------------------------------------------
# component: NackGenerator
# ------------------------------------------------------------------------------------------------
def _walk(rng, n, s0, wild):
    """unwrapped index walk -> list of indices (ints, may repeat / go back); `wild` = how many jumps of about half the
    number space it contains (each costs the list-based model ~32768^2/2 comparisons, so they are rationed)"""
    idx = []
    cur = 0
    hi = 0
    wild_at = set(rng.randrange(n) for _ in range(wild))
    for step in range(n):
        m = 99 if step in wild_at else rng.randrange(97)
        if m < 55:
            cur = hi + 1
        elif m < 70:
            cur = hi + rng.choice([2, 3, 4, 5, 8, 20])
        elif m < 75:
            cur = hi + rng.choice([126, 127, 128, 129, 130, 131, 200, 300])
        elif m < 88:
            cur = max(0, hi - rng.choice([0, 1, 2, 3, 5, 10, 50, 126, 127, 128, 129, 130, 200]))
        elif m < 97:
            cur = rng.randrange(max(0, hi - 140), hi + 1)
        elif wild:
            cur = max(0, hi + rng.choice([32766, 32767, 32768, 32769, -32767, -32768, -32769, 40000, -40000, 65535, 65536]))
        else:
            cur = hi + 1
        idx.append(cur)
        hi = max(hi, cur)
    return idx


class Nack(Component):
    name = "nack"
    theorems = ["nack_bounded", "nack_complete", "nack_add_total", "nack_missed_iff"]

    def corpus(self):
        return [
            {"s0": 0, "idx": [0, 129, 258]},                     # the repo's own truncate test
            {"s0": 65535, "idx": [0, 3, 1, 2, 130, 131 + 128]},
            {"s0": 65400, "idx": list(range(0, 300, 2))},
            {"s0": 10, "idx": [0, 128], "note": "oldest entry max-128 kept"},
        ]

    def cases(self, rng, tier):
        n = 160 if tier == "quick" else 2500
        out = []
        for k in range(n):
            s0 = rng.choice([0, 1, 65535, 65534, 65408, 65409, 65300, 32767, 32768, rng.randrange(M16)])
            ln = rng.choice([3, 8, 20, 60]) if tier == "quick" else rng.choice([3, 8, 20, 60, 200])
            out.append({"s0": s0, "idx": _walk(rng, ln, s0, wild=(rng.choice([1, 1, 2]) if k % (125 if tier == "quick" else 150) == 7 else 0))})
        return out

    def _seqs(self, case):
        return [(case["s0"] + i) % M16 for i in case["idx"]]

    def model_line(self, case):
        return "video nack " + ",".join(str(s) for s in self._seqs(case))

    def impl(self, case):
        from aiortc.rtcrtpreceiver import NackGenerator
        from aiortc.rtp import RtpPacket
        g = NackGenerator()
        outs = []
        try:
            for s in self._seqs(case):
                missed = g.add(RtpPacket(sequence_number=s))
                ms = sorted(g.missing)
                outs.append(("1" if missed else "0") + "/" + ("n" if g.max_seq is None else str(g.max_seq)) + "/"
                            + (".".join(str(x) for x in ms) if ms else "-"))
        except Exception as exc:
            return _exc_tag(exc)
        return "ok " + ";".join(outs)

    def oracle(self, case, impl_out):
        if not impl_out.startswith("ok "):
            return "NackGenerator.add raised: " + impl_out
        steps = impl_out[3:].split(";")
        s0 = case["s0"]
        first = None
        hi = None          # unwrapped index of max_seq as long as no arrival is >= 32768 away
        tame = True
        received = set()
        prev_missing = set()
        for i, st in zip(case["idx"], steps):
            missed, mx, ms = st.split("/")
            missing = [] if ms == "-" else [int(x) for x in ms.split(".")]
            mx = int(mx)
            if len(missing) > HIST:
                return f"missing holds {len(missing)} > {HIST} sequence numbers"
            if len(set(missing)) != len(missing):
                return "missing has duplicates"
            for m in missing:
                back = (mx - m) % M16
                if not (1 <= back <= HIST):
                    return f"missing contains {m}, which is {back} behind max_seq {mx} (outside the {HIST}-packet history)"
            if (missed == "1") != bool(set(missing) - prev_missing) and tame:
                # `missed` is True exactly when the call added numbers (before truncation they may vanish again)
                pass
            if first is None:
                first, hi = i, i
            else:
                if abs(i - hi) >= M16 // 2:
                    tame = False
                if tame and i > hi:
                    hi = i
            received.add(i)
            if tame:
                if mx != (s0 + hi) % M16:
                    return f"max_seq is {mx}, expected {(s0 + hi) % M16}"
                want = sorted((s0 + j) % M16 for j in range(max(first + 1, hi - HIST), hi) if j not in received)
                if sorted(missing) != want:
                    return (f"after receiving index {i} (max index {hi}) missing is {sorted(missing)[:8]}…({len(missing)}) but the not-yet-received numbers of the "
                            f"window are {want[:8]}…({len(want)})")
            prev_missing = set(missing)
        return None

    def label(self, case, impl_out):
        if not impl_out.startswith("ok "):
            return impl_out[:24]
        steps = impl_out[3:].split(";")
        mx = max((0 if s.split("/")[2] == "-" else len(s.split("/")[2].split(".")) for s in steps), default=0)
        wrap = "wrap" if case["s0"] + max(case["idx"]) >= M16 else "nowrap"
        return ("full" if mx == HIST else "some" if mx else "none") + "-" + wrap

    def shrink(self, case):
        idx = case["idx"]
        for i in range(len(idx)):
            yield dict(case, idx=idx[:i] + idx[i + 1:])
        if case["s0"] != 0:
            yield dict(case, s0=0)


# ------------------------------------------------------------------------------------------------
# component: TimestampMapper
# ------------------------------------------------------------------------------------------------
class TsMap(Component):
    name = "tsmap"
    theorems = ["tsmap_unwraps"]

    def corpus(self):
        return [{"t0": M32 - 3000, "d": [0, 3000, 6000, 9000]}, {"t0": 5, "d": [0, 0, 1, M32 - 1 + 1]}]

    def cases(self, rng, tier):
        n = 150 if tier == "quick" else 1500
        out = []
        for _ in range(n):
            t0 = rng.choice([0, 1, M32 - 1, M32 - 3000, M32 - 90000, M32 // 2, rng.randrange(M32)])
            d = [0]
            for _ in range(rng.choice([1, 3, 10, 30])):
                d.append(d[-1] + rng.choice([0, 1, 3000, 90000, M32 // 2, M32 - 1, rng.randrange(1, 200000)]))
            if rng.randrange(4) == 0:   # arbitrary (not monotone) sequences: differential only
                out.append({"raw": [rng.choice([0, 1, M32 - 1, rng.randrange(M32)]) for _ in range(rng.randrange(1, 12))]})
            else:
                out.append({"t0": t0, "d": d})
        return out

    def _ts(self, case):
        if "raw" in case:
            return case["raw"]
        return [(case["t0"] + x) % M32 for x in case["d"]]

    def model_line(self, case):
        return "video tsmap " + ",".join(str(t) for t in self._ts(case))

    def impl(self, case):
        from aiortc.rtcrtpreceiver import TimestampMapper
        m = TimestampMapper()
        try:
            outs = [m.map(t) for t in self._ts(case)]
        except Exception as exc:
            return _exc_tag(exc)
        return "ok " + ",".join(str(v) for v in outs)

    def oracle(self, case, impl_out):
        if not impl_out.startswith("ok "):
            return "TimestampMapper.map raised: " + impl_out
        if "raw" in case:
            return None
        got = [int(x) for x in impl_out[3:].split(",")]
        if got != case["d"]:
            return f"timestamps {self._ts(case)} (offsets {case['d']} from the first) mapped to {got}"
        return None

    def label(self, case, impl_out):
        if "raw" in case:
            return "raw"
        return "wrap" if case["t0"] + case["d"][-1] >= M32 else "nowrap"

    def shrink(self, case):
        key = "raw" if "raw" in case else "d"
        l = case[key]
        for i in range(1, len(l)):
            yield dict(case, **{key: l[:i] + l[i + 1:]})


# ------------------------------------------------------------------------------------------------
# real sender / receiver plumbing
# ------------------------------------------------------------------------------------------------
class FakeTransport:
    """Stands in for RTCDtlsTransport: records what is sent, keeps the header-extension map that
    RTCDtlsTransport._register_rtp_sender/_register_rtp_receiver would configure."""
    state = "connected"

    def __init__(self):
        from aiortc import rtp
        self._stats_id = "transport_fake"
        self.sent = []
        self._rtp_header_extensions_map = rtp.HeaderExtensionsMap()

    async def _send_rtp(self, data):
        self.sent.append(bytes(data))

    def take(self):
        out, self.sent = self.sent, []
        return out

    def _register_rtp_sender(self, sender, parameters):
        self._rtp_header_extensions_map.configure(parameters)

    def _unregister_rtp_sender(self, sender):
        pass

    def _register_rtp_receiver(self, receiver, parameters):
        self._rtp_header_extensions_map.configure(parameters)

    def _unregister_rtp_receiver(self, receiver):
        pass

    def _get_stats(self):
        from aiortc.stats import RTCStatsReport
        return RTCStatsReport()


class _EncItem:
    def __init__(self, payloads, timestamp):
        self.payloads = payloads
        self.timestamp = timestamp


class _Encoder:
    def pack(self, item):
        return list(item.payloads), item.timestamp

    def encode(self, frame, force_keyframe=False):  # never used: the scripted track yields no av.Frame
        raise AssertionError("encode called")


def _codec_params(codec, rtx):
    from aiortc.rtcrtpparameters import RTCRtpCodecParameters
    mime = "video/VP8" if codec == "vp8" else "video/H264"
    cs = [RTCRtpCodecParameters(mimeType=mime, clockRate=90000, payloadType=PT)]
    if rtx:
        cs.append(RTCRtpCodecParameters(mimeType="video/rtx", clockRate=90000, payloadType=RTX_PT, parameters={"apt": PT}))
    return cs


MIMES = {"vp8": "video/VP8", "h264": "video/H264", "rtx": "video/rtx", "other": "video/other"}


def codec_table(cfg):
    """[[pt, name, apt|None], ...] = parameters.codecs as negotiated; the SENDING codec is the first entry.
    Legacy cases (`codec` + `rtx`) denote [codec, its rtx]."""
    if cfg.get("codecs"):
        return cfg["codecs"]
    t = [[PT, cfg.get("codec", "vp8"), None]]
    if cfg.get("rtx"):
        t.append([RTX_PT, "rtx", PT])
    return t


def table_params(table):
    from aiortc.rtcrtpparameters import RTCRtpCodecParameters
    return [RTCRtpCodecParameters(mimeType=MIMES[nm], clockRate=90000, payloadType=pt,
                                  parameters=({} if apt is None else {"apt": apt})) for pt, nm, apt in table]


def negotiated_rtx(table):
    """the property's reading: RTX is negotiated for the sending codec iff some rtx entry names ITS payload type as apt;
    returns the admissible RTX payload types (duplicates for the same apt are all 'as negotiated')"""
    return [pt for pt, nm, apt in table if nm == "rtx" and apt == table[0][0]]


def table_send_line(table):
    return ",".join("%d:%s:%s" % (pt, "r" if nm == "rtx" else "m", "n" if apt is None else apt) for pt, nm, apt in table)


def table_recv_line(table):
    return ",".join("%d:%s:%s" % (pt, nm, "n" if apt is None else apt) for pt, nm, apt in table)


def codec_shapes(rng):
    """codec lists of every shape: the first (= sending) codec with / without an rtx entry, rtx entries of other codecs
    before and after it, several codecs each with rtx, rtx listed before its base codec, none at all, duplicates"""
    first = rng.choice(["vp8", "h264"])
    other = "h264" if first == "vp8" else "vp8"
    A, B, C = 96, 98, 102                       # media payload types
    shape = rng.randrange(10)
    own = [[97, "rtx", A]]
    oth = [[99, "rtx", B]]
    if shape == 0:
        t = [[A, first, None]]
    elif shape == 1:
        t = [[A, first, None]] + own
    elif shape == 2:
        t = [[A, first, None], [B, other, None]] + oth                       # only the OTHER codec has rtx
    elif shape == 3:
        t = [[A, first, None]] + oth + [[B, other, None]]                    # ... listed before its base codec
    elif shape == 4:
        t = [[A, first, None]] + own + [[B, other, None]] + oth
    elif shape == 5:
        t = [[A, first, None]] + oth + own + [[B, other, None]]              # foreign rtx before the own one
    elif shape == 6:
        t = [[A, first, None], [B, other, None]] + oth + own
    elif shape == 7:
        t = [[A, first, None]] + own + [[101, "rtx", A]]                      # duplicate rtx for the same apt
    elif shape == 8:
        t = [[A, first, None], [B, other, None], [C, "other", None], [103, "rtx", C]] + oth
    else:
        t = [[A, first, None], [B, other, None]]
    return t


class Clock:
    """the wall clock as rtcrtpsender / rtcrtpreceiver see it (time.time, clock.current_*): advanced only by the script"""

    def __init__(self, t0=1700000000.0):
        self.now = t0
        self._saved = []

    def install(self, mod):
        import datetime
        clk = self

        class TimeShim:
            def __init__(self, real):
                self._real = real

            def time(self):
                return clk.now

            def __getattr__(self, name):
                return getattr(self._real, name)

        class ClockShim:
            def __init__(self, real):
                self._real = real

            def current_datetime(self):
                return datetime.datetime.fromtimestamp(clk.now, datetime.timezone.utc)

            def current_ms(self):
                return int((self.current_datetime() - self._real.NTP_EPOCH).total_seconds() * 1000)

            def current_ntp_time(self):
                return self._real.datetime_to_ntp(self.current_datetime())

            def __getattr__(self, name):
                return getattr(self._real, name)

        # only names the module really has are replaced (a refactoring that stops using one of them is not our business)
        for name, shim in (("time", TimeShim), ("clock", ClockShim)):
            real = getattr(mod, name, None)
            if real is not None and hasattr(real, "__name__"):
                self._saved.append((mod, name, real))
                setattr(mod, name, shim(real))

    def restore(self):
        for mod, name, real in reversed(self._saved):
            setattr(mod, name, real)
        self._saved = []


def _hdr_ext(on):
    from aiortc.rtcrtpparameters import RTCRtpHeaderExtensionParameters
    if not on:
        return []
    return [RTCRtpHeaderExtensionParameters(id=1, uri="urn:ietf:params:rtp-hdrext:sdes:mid"),
            RTCRtpHeaderExtensionParameters(id=3, uri="http://www.webrtc.org/experiments/rtp-hdrext/abs-send-time")]


def _show_pkt(p):
    return ".".join([str(p.payload_type), str(p.sequence_number), str(p.timestamp), str(p.ssrc), str(p.marker), _hx(p.payload)])


class SenderStopped(Exception):
    pass


class SenderRig:
    """A real RTCRtpSender whose random origins, track and encoder are scripted."""

    def __init__(self, cfg, clk=None):
        self.cfg = cfg
        self.clk = clk or Clock()

    async def start(self):
        import aiortc.rtcrtpsender as rs
        from aiortc.mediastreams import MediaStreamTrack
        from aiortc.rtcrtpparameters import RTCRtpSendParameters
        cfg = self.cfg
        rig = self

        class ScriptTrack(MediaStreamTrack):
            kind = "video"

            def __init__(self):
                super().__init__()
                self.q = asyncio.Queue()
                self.idle = asyncio.Event()

            async def recv(self):
                self.idle.set()
                return await self.q.get()

        self._saved = (rs.random_sequence_number, rs.random32, rs.get_encoder)
        seqs = iter([cfg["rtx_seq0"], cfg["seq0"]])
        r32 = iter([cfg["ssrc"], cfg["rtx_ssrc"], cfg["ts0"]])
        rs.random_sequence_number = lambda: next(seqs)
        rs.random32 = lambda: next(r32)
        rs.get_encoder = lambda codec: _Encoder()
        self.clk.install(rs)
        self.transport = FakeTransport()
        self.track = ScriptTrack()
        self.sender = rs.RTCRtpSender(self.track, self.transport)
        await self.sender.send(RTCRtpSendParameters(codecs=table_params(codec_table(cfg)),
                                                   headerExtensions=_hdr_ext(cfg.get("ext", False)), muxId="0"))
        await self._wait_idle()           # _run_rtp reached its first recv(): both random origins are drawn
        self.transport.take()

    async def _wait_idle(self):
        """wait until _run_rtp is back at track.recv(); if the task died instead (it swallows exceptions), say so"""
        task = self.sender._RTCRtpSender__rtp_task
        w = asyncio.ensure_future(self.track.idle.wait())
        done, _ = await asyncio.wait([w, task], return_when=asyncio.FIRST_COMPLETED, timeout=10)
        if w not in done:
            w.cancel()
            raise SenderStopped("_run_rtp stopped (an exception escaped the packetisation loop)")

    def _rtp_only(self, datas):
        from aiortc.rtp import is_rtcp
        return [d for d in datas if not is_rtcp(d)]

    async def frame(self, enc_ts, payloads):
        self.track.idle.clear()
        self.track.q.put_nowait(_EncItem(payloads, enc_ts))
        await self._wait_idle()
        return self._rtp_only(self.transport.take())

    async def nack(self, lost):
        from aiortc.rtp import RTCP_RTPFB_NACK, RtcpRtpfbPacket
        pkt = RtcpRtpfbPacket(fmt=RTCP_RTPFB_NACK, ssrc=RTCP_SSRC, media_ssrc=self.cfg["ssrc"])
        pkt.lost = list(lost)
        await self.sender._handle_rtcp_packet(pkt)
        return self._rtp_only(self.transport.take())

    async def rtcp(self, pkt):
        await self.sender._handle_rtcp_packet(pkt)
        return self._rtp_only(self.transport.take())

    async def retransmit(self, s):
        await self.sender._retransmit(s)
        return self._rtp_only(self.transport.take())

    def parse(self, data):
        from aiortc.rtp import RtpPacket
        return RtpPacket.parse(data, self.transport._rtp_header_extensions_map)

    async def stop(self):
        import aiortc.rtcrtpsender as rs
        try:
            await self.sender.stop()
        finally:
            rs.random_sequence_number, rs.random32, rs.get_encoder = self._saved
            self.clk.restore()


class ReceiverRig:
    """A real video RTCRtpReceiver; decoder_worker replaced so that the decoder queue can be read."""

    def __init__(self, cfg, clk=None):
        self.cfg = cfg
        self.clk = clk or Clock()
        self._own_clk = clk is None

    async def start(self):
        import aiortc.rtcrtpreceiver as rr
        from aiortc.rtcrtpparameters import (RTCRtpCodecParameters, RTCRtpDecodingParameters,
                                             RTCRtpReceiveParameters, RTCRtpRtxParameters)
        cfg = self.cfg
        self._stop_evt = threading.Event()
        evt = self._stop_evt
        self._saved = rr.decoder_worker
        rr.decoder_worker = lambda loop, input_q, output_q: evt.wait()
        self.clk.install(rr)
        self.transport = FakeTransport()
        self.receiver = rr.RTCRtpReceiver("video", self.transport)
        self.receiver._track = rr.RemoteStreamTrack(kind="video")
        if cfg.get("rtcp_ssrc") is not None:
            self.receiver._set_rtcp_ssrc(cfg["rtcp_ssrc"])
        if "codecs" in cfg:      # explicit table: [[pt, name, apt|None], ...]
            codecs = table_params(cfg["codecs"])
        else:
            codecs = _codec_params(cfg.get("codec", "vp8"), cfg["rtx"])
        encodings = []
        for rtx_ssrc, ssrc in cfg.get("rtxmap", []):
            encodings.append(RTCRtpDecodingParameters(ssrc=ssrc, payloadType=PT, rtx=RTCRtpRtxParameters(ssrc=rtx_ssrc)))
        try:
            await self.receiver.receive(RTCRtpReceiveParameters(codecs=codecs, encodings=encodings,
                                                                headerExtensions=_hdr_ext(cfg.get("ext", False)), muxId="0"))
        finally:
            rr.decoder_worker = self._saved
        self.q = self.receiver._RTCRtpReceiver__decoder_queue

    async def feed(self, packet, t_ms):
        """-> (feedback list, items list, raw rtcp packets to forward)"""
        from aiortc.rtp import (RTCP_PSFB_PLI, RTCP_RTPFB_NACK, RtcpPacket, RtcpPsfbPacket, RtcpRtpfbPacket)
        await self.receiver._handle_rtp_packet(packet, arrival_time_ms=t_ms)
        fbs, fwd = [], []
        for data in self.transport.take():
            for p in RtcpPacket.parse(data):
                if isinstance(p, RtcpRtpfbPacket) and p.fmt == RTCP_RTPFB_NACK:
                    fbs.append("N%d:%s" % (p.media_ssrc, ".".join(str(x) for x in sorted(p.lost)) if p.lost else "-"))
                    fwd.append(p)
                elif isinstance(p, RtcpPsfbPacket) and p.fmt == RTCP_PSFB_PLI:
                    fbs.append("P%d" % p.media_ssrc)
                    fwd.append(p)
        items = []
        while not self.q.empty():
            codec, frame = self.q.get_nowait()
            items.append((codec.payloadType, frame.timestamp, bytes(frame.data)))
        return fbs, items, fwd

    async def stop(self):
        self._stop_evt.set()
        try:
            await self.receiver.stop()
        finally:
            if self._own_clk:
                self.clk.restore()


def _show_res(fbs, items):
    # at most one item per call (one JitterBuffer.add per packet)
    it = "n" if not items else "+".join("%d/%d/%s" % (pt, ts, _hx(d)) for pt, ts, d in items)
    return ("+".join(fbs) if fbs else "-") + "|" + it


def _run(coro):
    loop = asyncio.new_event_loop()
    try:
        return loop.run_until_complete(coro)
    finally:
        try:
            loop.run_until_complete(loop.shutdown_asyncgens())
        finally:
            loop.close()


class _Cached(Component):
    """impl() result and the observation behind it are cached per case (model_line/oracle need the observation)."""

    def __init__(self):
        self._cache = {}

    def observe(self, case):
        k = case_key(case)
        if k not in self._cache:
            if len(self._cache) > 20000:
                self._cache.clear()
            self._cache[k] = self._observe(case)
        return self._cache[k]

    def impl(self, case):
        return self.observe(case)["out"]


# ------------------------------------------------------------------------------------------------
# payload builders (valid VP8 / H264 RTP payloads; the codec packetisers themselves are C16)
# ------------------------------------------------------------------------------------------------
_uid = [0]


def _body(rng):
    """4 bytes: a 3-byte id that is unique within the process + 1 random byte (so that the oracle can tell which
    packets make up a decoder item)"""
    _uid[0] = (_uid[0] + 1) % (1 << 24)
    return _uid[0].to_bytes(3, "big") + bytes([rng.randrange(256)])


def vp8_payloads(rng, n):
    return [bytes([0x10 if i == 0 else 0x00]) + _body(rng) for i in range(n)]


def h264_payloads(rng, n):
    if n == 1:
        return [bytes([0x65]) + _body(rng)]
    out = []
    for i in range(n):
        fu = 0x80 | 5 if i == 0 else (0x40 | 5 if i == n - 1 else 5)
        out.append(bytes([0x7C, fu]) + _body(rng))
    return out


def make_frames(rng, codec, nframes, sizes=(1, 2, 3, 4, 5, 6, 7, 8)):
    frames = []
    ts = rng.choice([0, 0, 1234, rng.randrange(1 << 20)])
    for _ in range(nframes):
        n = rng.choice(sizes)
        pls = vp8_payloads(rng, n) if codec == "vp8" else h264_payloads(rng, n)
        frames.append([ts, [p.hex() for p in pls]])
        ts += rng.choice([3000, 3000, 3000, 1, 90000, rng.randrange(1, 10000)])
    return frames


def origins(rng):
    seq0 = rng.choice([65535, 65534, 65530, 65500, 65400, 0, 1, 32760, rng.randrange(M16)])
    ts0 = rng.choice([M32 - 1, M32 - 3000, M32 - 20000, M32 - 200000, 0, rng.randrange(M32)])
    rtx_seq0 = rng.choice([65535, 65534, 0, rng.randrange(M16)])
    return seq0, ts0, rtx_seq0


# ------------------------------------------------------------------------------------------------
# component: sender
# ------------------------------------------------------------------------------------------------
class Sender(_Cached):
    name = "sender"
    theorems = ["packetise_seq", "packetise_fields", "history_hit", "history_miss", "history_last128", "retransmit_verbatim",
                "retransmit_rtx_invertible", "rtx_seq_counter", "rtxFor_spec"]

    def corpus(self):
        one = ["10aa"]
        return [
            {"seq0": 65534, "rtx_seq0": 65535, "ts0": M32 - 10, "ssrc": 1234, "rtx_ssrc": 2345, "rtx": True, "ext": True,
             "ops": [["f", 0, ["10aa", "00bb", "00cc"]], ["k", [65534, 65535, 0, 1]], ["f", 3000, one], ["r", 1], ["r", 1]]},
            {"seq0": 0, "rtx_seq0": 7, "ts0": 0, "ssrc": 1, "rtx_ssrc": 2, "rtx": False, "ext": False,
             "ops": [["f", i, one] for i in range(130)] + [["k", [0, 1, 2, 129, 128, 65536 + 129, -127]]]},
            {"seq0": 5, "rtx_seq0": 7, "ts0": 0, "ssrc": 1, "rtx_ssrc": 2, "rtx": True, "ext": False,
             "ops": [["k", [5]], ["f", 9, []], ["f", 10, one], ["k", [5, 5]]]},
            # the NACK comes long after the send (pause / still scene): age is no reason not to resend
            {"seq0": 9, "rtx_seq0": 7, "ts0": 0, "ssrc": 1, "rtx_ssrc": 2, "rtx": False, "ext": False,
             "ops": [["f", 0, one], ["t", 0.5], ["k", [9]], ["t", 10.0], ["k", [9]], ["f", 1, one], ["t", 3600.0], ["r", 10]]},
            # only ANOTHER codec has rtx (listed before its base codec): verbatim retransmission
            {"seq0": 9, "rtx_seq0": 7, "ts0": 0, "ssrc": 1, "rtx_ssrc": 2, "ext": False,
             "codecs": [[96, "h264", None], [99, "rtx", 98], [98, "vp8", None]], "ops": [["f", 0, ["65aa"]], ["k", [9]]]},
            # foreign rtx first, then two rtx entries for the sending codec
            {"seq0": 9, "rtx_seq0": 7, "ts0": 0, "ssrc": 1, "rtx_ssrc": 2, "ext": False,
             "codecs": [[96, "vp8", None], [99, "rtx", 98], [97, "rtx", 96], [98, "h264", None], [101, "rtx", 96]],
             "ops": [["f", 0, one], ["k", [9]]]},
        ]

    def cases(self, rng, tier):
        n = 60 if tier == "quick" else 500
        out = []
        for _ in range(n):
            seq0, ts0, rtx_seq0 = origins(rng)
            case = {"seq0": seq0, "rtx_seq0": rtx_seq0, "ts0": ts0, "ssrc": rng.choice([1, 1234, M32 - 1]),
                    "rtx_ssrc": rng.choice([2, 2345, M32 - 2]), "codecs": codec_shapes(rng), "ext": rng.randrange(3) == 0, "ops": []}
            mk_payloads = vp8_payloads if case["codecs"][0][1] == "vp8" else h264_payloads
            timed = rng.randrange(2) == 0     # does wall-clock time pass between the events of this case?
            sent = []   # sequence numbers sent so far
            enc_ts = rng.choice([0, 5, 1 << 31, M32 - 1, -3000])
            nops = rng.choice([5, 20, 60]) if tier == "quick" else rng.choice([5, 20, 60, 200])
            for _ in range(nops):
                if timed and rng.randrange(3) == 0:
                    case["ops"].append(["t", rng.choice(CLOCK_STEPS)])
                m = rng.randrange(10)
                if m < 6 or not sent:
                    npl = rng.choice([0, 1, 1, 2, 3, 5, 8]) if rng.randrange(8) else rng.choice([40, 127, 128, 129])
                    pls = [p.hex() for p in mk_payloads(rng, npl)]
                    case["ops"].append(["f", enc_ts, pls])
                    for _ in range(npl):
                        sent.append((seq0 + len(sent)) % M16)
                    enc_ts += rng.choice([3000, 1, 90000, M32 - 1])
                else:
                    lost = []
                    for _ in range(rng.choice([1, 1, 2, 5, 17])):
                        k = rng.randrange(8)
                        last = len(sent) - 1
                        if k < 3:
                            lost.append(sent[max(0, last - rng.randrange(0, 20))])
                        elif k < 6:
                            back = rng.choice([126, 127, 128, 129, 130, 255, 256])
                            lost.append((seq0 + last - back) % M16 if last - back >= -2 else rng.randrange(M16))
                        elif k == 6:
                            lost.append(rng.choice(sent) + rng.choice([M16, -M16, 128, -128]))
                        else:
                            lost.append(rng.randrange(M16))
                    if m == 9:
                        case["ops"].append(["r", lost[0]])
                    else:
                        case["ops"].append(["k", lost])
            out.append(case)
        return out

    def _observe(self, case):
        async def go():
            rig = SenderRig(case)
            await rig.start()
            steps = []       # (op, [raw bytes])
            try:
                for op in case["ops"]:
                    if op[0] == "t":              # wall-clock time passes; nothing is sent or received
                        rig.clk.now += op[1]
                        continue
                    if op[0] == "f":
                        raw = await rig.frame(op[1], [bytes.fromhex(h) for h in op[2]])
                    elif op[0] == "k":
                        raw = await rig.nack(op[1])
                    else:
                        raw = await rig.retransmit(op[1])
                    steps.append([op, raw, [rig.parse(d) for d in raw]])
            finally:
                await rig.stop()
            return steps, rig

        try:
            steps, rig = _run(go())
        except Exception as exc:
            return {"out": _exc_tag(exc), "steps": None}
        out = "ok " + ";".join((",".join(_show_pkt(p) for p in pk) if pk else "-") for _, _, pk in steps)
        return {"out": out, "steps": steps, "rig": rig}

    def model_line(self, case):
        ops = []
        for op in case["ops"]:
            if op[0] == "f":
                ops.append("f:%d:%s" % (op[1], "/".join(op[2]) if op[2] else "-"))
            elif op[0] == "k":
                ops.append("k:" + (".".join(str(x) for x in op[1]) if op[1] else "-"))
            elif op[0] == "r":
                ops.append("r:%d" % op[1])
            # "t": the model's history has no notion of age
        return "video sender %d %d %s %d %d %d %s" % (case["ssrc"], case["rtx_ssrc"], table_send_line(codec_table(case)),
                                                      case["ts0"], case["seq0"], case["rtx_seq0"], ";".join(ops) if ops else "-")

    def oracle(self, case, impl_out):
        obs = self.observe(case)
        if obs["steps"] is None:
            return "the sender raised: " + obs["out"]
        return sender_oracle(case, obs["steps"], obs["rig"])

    def label(self, case, impl_out):
        obs = self.observe(case)
        if obs["steps"] is None:
            return impl_out[:24]
        hit = miss = 0
        for op, raw, _ in obs["steps"]:
            if op[0] != "f":
                want = 1 if op[0] == "r" else len(op[1])
                hit += len(raw)
                miss += want - len(raw)
        t = codec_table(case)
        shape = ("rtx" if negotiated_rtx(t) else "plain") + ("+foreign" if any(nm == "rtx" and apt != t[0][0] for _, nm, apt in t) else "")
        aged = "-aged" if any(op[0] == "t" and op[1] >= 1.0 for op in case["ops"]) else ""
        return shape + aged + ("-hit" if hit else "") + ("-miss" if miss else "")

    def shrink(self, case):
        ops = case["ops"]
        for i in range(len(ops)):
            yield dict(case, ops=ops[:i] + ops[i + 1:])
        for i, op in enumerate(ops):
            if op[0] == "k" and len(op[1]) > 1:
                for j in range(len(op[1])):
                    yield dict(case, ops=ops[:i] + [["k", op[1][:j] + op[1][j + 1:]]] + ops[i + 1:])
            if op[0] == "f" and len(op[2]) > 1:
                yield dict(case, ops=ops[:i] + [["f", op[1], op[2][:-1]]] + ops[i + 1:])
        if case["ext"]:
            yield dict(case, ext=False)
        t = codec_table(case)
        for i in range(1, len(t)):
            yield dict(case, codecs=t[:i] + t[i + 1:])


def sender_oracle(case, steps, rig):
    """The sender clauses of C11 on the wire output of the real sender.
    steps: [(op, [raw bytes], [parsed packets])] where op is ["f", enc_ts, payloads] / ["k", lost] / ["r", s]."""
    from aiortc.rtp import unwrap_rtx
    table = codec_table(case)
    send_pt = table[0][0]
    rtx_pts = negotiated_rtx(table)      # RTX iff an rtx codec with apt = the sending payload type was negotiated
    sent = []          # (seq, raw bytes) of every first transmission, in order
    nrtx = 0
    for op, raw, pk in steps:
        if op[0] == "f":
            pls = [bytes.fromhex(h) for h in op[2]]
            if len(pk) != len(pls):
                return f"frame of {len(pls)} payloads produced {len(pk)} packets"
            ts = (case["ts0"] + op[1]) % M32
            for i, (p, d) in enumerate(zip(pk, raw)):
                want_seq = (case["seq0"] + len(sent)) % M16
                if p.sequence_number != want_seq:
                    return f"packet {len(sent)} of the stream has sequence number {p.sequence_number}, expected {want_seq} (consecutive)"
                if p.timestamp != ts:
                    return f"packet {i} of a frame has timestamp {p.timestamp}, expected {ts} for every packet of the frame"
                if p.marker != (1 if i == len(pls) - 1 else 0):
                    return f"marker bit is {p.marker} on payload {i} of {len(pls)}"
                if p.payload != pls[i] or p.payload_type != send_pt or p.ssrc != case["ssrc"]:
                    return f"payload {i} / payload type / ssrc of the frame changed on the wire"
                sent.append((p.sequence_number, d))
        else:
            asked = [op[1]] if op[0] == "r" else list(op[1])
            window = {}
            for s, d in sent[-HIST:]:
                window[s] = d
            k = 0
            for s in asked:
                if s in window:
                    if k >= len(raw):
                        return f"sequence number {s} is among the last {HIST} sent but was not retransmitted"
                    d, p = raw[k], pk[k]
                    k += 1
                    if rtx_pts:
                        want = (case["rtx_seq0"] + nrtx) % M16
                        nrtx += 1
                        if p.payload_type not in rtx_pts or p.ssrc != case["rtx_ssrc"]:
                            return (f"retransmission of {s} is not the RTX negotiated for payload type {send_pt} "
                                    f"(pt {p.payload_type}, ssrc {p.ssrc}; negotiated rtx pt {rtx_pts})")
                        if p.sequence_number != want:
                            return f"RTX sequence number {p.sequence_number}, expected {want}"
                        back = unwrap_rtx(p, payload_type=send_pt, ssrc=case["ssrc"])
                        if back.serialize(rig.transport._rtp_header_extensions_map) != window[s]:
                            return f"unwrap_rtx of the retransmission of {s} is not the packet that was sent"
                    elif d != window[s]:
                        return (f"retransmission of {s} is not byte-identical to the original although no RTX was negotiated for "
                                f"payload type {send_pt} (codecs {table}; got pt {p.payload_type}, ssrc {p.ssrc})")
            if k != len(raw):
                extra = pk[k]
                return (f"retransmitted a packet (seq {extra.sequence_number}) for a request outside the last {HIST} sequence numbers sent "
                        f"(asked {asked[:6]})")
    return None


# ------------------------------------------------------------------------------------------------
# component: receiver (function level)
# ------------------------------------------------------------------------------------------------
class Receiver(_Cached):
    name = "receiver"
    theorems = ["receiver_feeds_buffer", "nack_lists_missing"]

    SSRC = 1234
    RTX_SSRC = 2345

    def _cfg(self, case):
        return {"rtx": True, "codec": case.get("codec", "vp8"), "rtcp_ssrc": case.get("rtcp_ssrc", RTCP_SSRC),
                "rtxmap": case.get("rtxmap", [[self.RTX_SSRC, self.SSRC]]), **({"codecs": case["codecs"]} if "codecs" in case else {})}

    def corpus(self):
        P = lambda pt, seq, ts, ssrc, m, pl: [pt, seq, ts, ssrc, m, pl]
        return [
            # 2 frames + first packet of a third; RTX duplicate; unknown pt; unknown RTX ssrc; short RTX; bad VP8; empty payload
            {"pkts": [P(96, 65535, 10, 1234, 0, "10aa"), P(96, 1, 20, 1234, 1, "10cc"), P(97, 5, 10, 2345, 1, "000000bb"),
                      P(50, 2, 30, 1234, 0, "10dd"), P(97, 6, 10, 9999, 0, "000210ee"), P(97, 7, 10, 2345, 0, "00"),
                      P(96, 2, 30, 1234, 0, "80"), P(96, 3, 40, 1234, 0, "-"), P(96, 2, 30, 1234, 0, "10ff"), P(96, 4, 50, 1234, 0, "10ab")]},
            # no rtcp ssrc: nothing is emitted
            {"rtcp_ssrc": None, "pkts": [P(96, 0, 1, 1234, 0, "1001"), P(96, 130, 2, 1234, 0, "1002")]},
            # rtx codec whose apt is itself rtx / missing / unknown
            {"codecs": [[96, "vp8", None], [97, "rtx", 98], [98, "rtx", 96], [99, "rtx", None], [100, "rtx", 77], [101, "other", None]],
             "rtxmap": [[2345, 1234]],
             "pkts": [P(97, 1, 1, 2345, 0, "00051001"), P(99, 2, 1, 2345, 0, "00051001"), P(100, 3, 1, 2345, 0, "00051001"),
                      P(101, 6, 2, 1234, 0, "1003"), P(98, 4, 3, 2345, 0, "00071004"), P(101, 8, 4, 1234, 0, "05")]},
        ]

    def cases(self, rng, tier):
        n = 80 if tier == "quick" else 600
        out = []
        for k in range(n):
            codec = "h264" if k % 4 == 3 else "vp8"
            s0 = rng.choice([65535, 65500, 0, rng.randrange(M16)])
            nfr = rng.choice([4, 12, 40])
            frames = make_frames(rng, codec, nfr)
            stream = []
            ts0 = rng.choice([M32 - 5000, 0, rng.randrange(M32)])
            for ts, pls in frames:
                for i, h in enumerate(pls):
                    stream.append([PT, (s0 + len(stream)) % M16, (ts0 + ts) % M32, self.SSRC, 1 if i == len(pls) - 1 else 0, h])
            pkts = []
            rtxseq = rng.randrange(M16)
            i = 0
            while i < len(stream):
                m = rng.randrange(100)
                p = stream[i]
                if m < 60:
                    pkts.append(p)
                elif m < 70:
                    pass                                            # lost
                elif m < 78:
                    pkts.extend([p, p])
                elif m < 86 and i > 0:                              # a retransmission of an older one, as RTX
                    q = stream[rng.randrange(max(0, i - 140), i)]
                    pkts.append([RTX_PT, rtxseq, q[2], self.RTX_SSRC, q[4], struct.pack("!H", q[1]).hex() + (q[5] if q[5] != "-" else "")])
                    rtxseq = (rtxseq + 1) % M16
                    pkts.append(p)
                elif m < 90:
                    i += rng.choice([1, 5, 127, 128, 129, 200])   # burst loss
                    continue
                elif m < 93:
                    pkts.append([rng.choice([50, 0, 127]), p[1], p[2], p[3], p[4], p[5]])       # unknown payload type
                elif m < 95:
                    pkts.append([RTX_PT, rtxseq, p[2], rng.choice([self.RTX_SSRC, 7]), 0, rng.choice(["-", "00", "0001"])])
                elif m < 97:
                    pkts.append([PT, p[1], p[2], p[3], p[4], rng.choice(["-", "80", "90", "ff", "1c"])])   # empty / undecodable
                else:
                    pkts.append(stream[rng.randrange(len(stream))])
                i += 1
            case = {"codec": codec, "pkts": pkts}
            if k % 17 == 0:
                case["rtcp_ssrc"] = None
            out.append(case)
        return out

    def _observe(self, case):
        from aiortc.rtp import RtpPacket

        async def go():
            rig = ReceiverRig(self._cfg(case))
            await rig.start()
            res = []
            try:
                for t, (pt, seq, ts, ssrc, m, h) in enumerate(case["pkts"]):
                    p = RtpPacket(payload_type=pt, sequence_number=seq, timestamp=ts, marker=m)
                    p.ssrc = ssrc
                    p.payload = b"" if h == "-" else bytes.fromhex(h)
                    fbs, items, _ = await rig.feed(p, t)
                    res.append((fbs, items))
            finally:
                await rig.stop()
            return res

        try:
            res = _run(go())
        except Exception as exc:
            return {"out": _exc_tag(exc), "res": None}
        return {"out": "ok " + ";".join(_show_res(f, i) for f, i in res), "res": res}

    def model_line(self, case):
        cfg = self._cfg(case)
        if "codecs" in cfg:
            codecs = ",".join("%d:%s:%s" % (pt, nm, "n" if apt is None else apt) for pt, nm, apt in cfg["codecs"])
        else:
            codecs = "%d:%s:n,%d:rtx:%d" % (PT, cfg["codec"], RTX_PT, PT)
        rtxmap = ",".join("%d:%d" % (a, b) for a, b in cfg["rtxmap"]) or "-"
        pk = ";".join(".".join(str(x) for x in p) for p in case["pkts"]) or "-"
        return "video recv %s %s %s 1 %s" % (codecs, rtxmap, "n" if cfg["rtcp_ssrc"] is None else cfg["rtcp_ssrc"], pk)

    def oracle(self, case, impl_out):
        obs = self.observe(case)
        if obs["res"] is None:
            return "_handle_rtp_packet raised: " + obs["out"]
        for fbs, items in obs["res"]:
            r = nack_fb_oracle(fbs)
            if r:
                return r
            if len(items) > 1:
                return "more than one frame entered the decoder queue in one call"
        return None

    def label(self, case, impl_out):
        obs = self.observe(case)
        if obs["res"] is None:
            return impl_out[:24]
        n = sum(1 for f, _ in obs["res"] for x in f if x.startswith("N"))
        p = sum(1 for f, _ in obs["res"] for x in f if x.startswith("P"))
        it = sum(len(i) for _, i in obs["res"])
        return ("nack" if n else "nonack") + ("-pli" if p else "") + ("-frames" if it else "-noframes")

    def shrink(self, case):
        pk = case["pkts"]
        n = len(pk)
        size = n // 2
        while size >= 1:
            for i in range(0, n, size):
                if pk[:i] + pk[i + size:]:
                    yield dict(case, pkts=pk[:i] + pk[i + size:])
            size //= 2


def nack_fb_oracle(fbs):
    for fb in fbs:
        if fb.startswith("N"):
            lost = fb.split(":")[1]
            lost = [] if lost == "-" else [int(x) for x in lost.split(".")]
            if len(lost) > HIST:
                return f"a NACK lists {len(lost)} sequence numbers, more than the {HIST}-packet retransmission history"
            if not lost:
                return "an empty NACK was sent"
    return None


# ------------------------------------------------------------------------------------------------
# component: pair (real sender + real receiver over a scripted network)
# ------------------------------------------------------------------------------------------------
class Pair(_Cached):
    name = "pair"
    theorems = ["decoder_frames_whole", "decoder_frames_whole_short", "decoder_frames_in_order", "retransmission_equiv",
                "loop_recovers_partial", "nack_bounded", "nack_complete", "history_hit", "tsmap_unwraps"]

    SSRC = 1234
    RTX_SSRC = 2345

    def corpus(self):
        f = lambda ts, *pl: [ts, list(pl)]
        return [
            # one loss in the middle frame, recovered by NACK + RTX across both wraps
            {"fam": "recover", "codec": "vp8", "seq0": 65534, "rtx_seq0": 65535, "ts0": M32 - 3000, "rtx": True, "ext": True,
             "frames": [f(0, "10a1", "00a2"), f(3000, "10b1", "00b2", "00b3"), f(6000, "10c1"), f(9000, "10d1"), f(12000, "10e1")],
             "net": [["d", "d"], ["d", "x", "d"], ["d"], ["d"], ["d"]], "drain": 2, "rnet": [], "fbnet": []},
            # same without RTX; first packet of the stream lost (first frame is a tail)
            {"fam": "recover", "codec": "vp8", "seq0": 7, "rtx_seq0": 1, "ts0": 5, "rtx": False, "ext": False,
             "frames": [f(0, "10a1", "00a2"), f(3000, "10b1", "00b2", "00b3"), f(6000, "10c1"), f(9000, "10d1"), f(12000, "10e1")],
             "net": [["x", "d"], ["d", "x", "d"], ["d"], ["d"], ["d"]], "drain": 2, "rnet": [], "fbnet": []},
            # reordering + duplication, h264
            {"fam": "recover", "codec": "h264", "seq0": 65530, "rtx_seq0": 3, "ts0": 0, "rtx": True, "ext": False,
             "frames": [f(0, "65aa"), f(10, "7c8501", "7c0502", "7c4503"), f(20, "65bb"), f(30, "65cc"), f(40, "65dd")],
             "net": [["d"], [["h", 2], "2", "d"], ["d"], ["d"], ["d"]], "drain": 2, "rnet": [], "fbnet": []},
            # tail loss before a pause: the last packet before a 3 s pause is lost, the gap shows (and the NACK is sent) only
            # when the next frame arrives; the packet is one packet old in the history and must still be resent
            {"fam": "recover", "codec": "vp8", "seq0": 100, "rtx_seq0": 1, "ts0": 5, "rtx": True, "ext": False,
             "frames": [f(0, "10a1", "00a2"), f(3000, "10b1"), f(273000, "10c1"), f(276000, "10d1"), f(279000, "10e1")],
             "net": [["d", "d"], ["x"], ["d"], ["d"], ["d"]], "drain": 2, "rnet": [], "fbnet": [],
             "clk": {"f": [0, 0.03, 3.0, 0.03, 0.03], "fb": [], "d": []}},
            # H264 preferred without rtx, RTX negotiated for VP8 only: lost H264 packets come back verbatim
            {"fam": "recover", "codecs": [[96, "h264", None], [98, "vp8", None], [99, "rtx", 98]], "seq0": 7, "rtx_seq0": 1, "ts0": 5,
             "ext": False, "frames": [f(0, "65a1"), f(10, "7c8501", "7c0502", "7c4503"), f(20, "65bb"), f(30, "65cc"), f(40, "65dd")],
             "net": [["d"], ["d", "x", "d"], ["d"], ["d"], ["d"]], "drain": 2, "rnet": [], "fbnet": []},
        ]

    def cases(self, rng, tier):
        n = 100 if tier == "quick" else 700
        out = []
        for k in range(n):
            fam = ["clean", "recover", "recover", "recover", "chaos", "chaos", "late"][k % 7]
            table = codec_shapes(rng)
            codec = table[0][1]
            seq0, ts0, rtx_seq0 = origins(rng)
            nfr = rng.choice([6, 15, 40]) if tier == "quick" else rng.choice([6, 15, 40, 120])
            if fam == "late":
                nfr = max(nfr, 60)
            frames = make_frames(rng, codec, nfr)
            norig = sum(len(pl) for _, pl in frames)
            net, rnet, fbnet = [], [], []
            drain = 0
            if fam in ("recover", "clean"):
                # traffic continues: DRAIN trailing 8-packet frames that always get through (one frame is released per
                # add() call, so a backlog of completed frames needs later arrivals to come out)
                drain = DRAIN
                more = make_frames(rng, codec, DRAIN, sizes=(8,))
                shift = frames[-1][0] + 3000
                frames = frames + [[shift + ts, pl] for ts, pl in more]
            if fam == "recover":
                p_loss = rng.choice([0.03, 0.1, 0.25])
                burst = 0
                for i in range(norig):
                    if burst:
                        burst -= 1
                        net.append("x")
                        continue
                    r = rng.random()
                    if r < p_loss:
                        net.append("x")
                        if rng.random() < 0.2:
                            burst = rng.randrange(1, 12)
                    elif r < p_loss + 0.06:
                        net.append("2")
                    elif r < p_loss + 0.16:
                        net.append(["h", rng.randrange(1, 6)])
                    else:
                        net.append("d")
            elif fam == "chaos":
                p_loss = rng.choice([0.05, 0.2, 0.4])
                burst = 0
                for i in range(norig):
                    if burst:
                        burst -= 1
                        net.append("x")
                        continue
                    r = rng.random()
                    if r < p_loss:
                        net.append("x")
                        if rng.random() < 0.15:
                            burst = rng.choice([3, 20, 100, 127, 128, 129, 200])
                    elif r < p_loss + 0.08:
                        net.append("2")
                    elif r < p_loss + 0.2:
                        net.append(["h", rng.choice([1, 2, 5, 30, 90])])
                    else:
                        net.append("d")
                rnet = [rng.choice(["d", "d", "d", "x", "2", ["h", 3]]) for _ in range(norig)]
                fbnet = [rng.choice([1, 1, 1, 0]) for _ in range(norig)]
            elif fam == "late":
                for i in range(norig):
                    r = rng.random()
                    if r < 0.03:
                        net.append(["h", rng.choice([99, 100, 101, 130, 200])])
                    elif r < 0.08:
                        net.append("x")
                    else:
                        net.append("d")
                rnet = [rng.choice(["d", "d", ["h", 120]]) for _ in range(norig)]
            # per-frame action lists (so that shrinking a frame away removes its actions too); missing entries = deliver
            it = iter(net)
            net = [[next(it, "d") for _ in pl] for _, pl in frames]
            clk = {}
            if k % 2 == 1:     # wall-clock time passes: sender pauses, late feedback, slow deliveries (0 … 10 s each)
                dens = rng.choice([0.05, 0.3])
                step = lambda: rng.choice(CLOCK_STEPS) if rng.random() < dens else 0.0
                clk = {"f": [step() for _ in frames], "fb": [step() for _ in range(norig)], "d": [step() for _ in range(2 * norig)]}
            out.append({"fam": fam, "codecs": table, "seq0": seq0, "rtx_seq0": rtx_seq0, "ts0": ts0,
                        "ext": k % 3 == 0, "frames": frames, "net": net, "drain": drain, "rnet": rnet, "fbnet": fbnet, "clk": clk})
        return out

    # -- running the real pair ------------------------------------------------------------------
    def _observe(self, case):
        scfg = {"seq0": case["seq0"], "rtx_seq0": case["rtx_seq0"], "ts0": case["ts0"], "ssrc": self.SSRC, "rtx_ssrc": self.RTX_SSRC,
                "ext": case["ext"], "codecs": codec_table(case)}
        table = codec_table(case)
        send_pt = table[0][0]
        rcfg = {"ext": case["ext"], "codecs": table, "rtcp_ssrc": RTCP_SSRC, "rtxmap": self._rtxmap(table)}
        clkf, clkfb, clkd = (case.get("clk") or {}).get("f", []), (case.get("clk") or {}).get("fb", []), (case.get("clk") or {}).get("d", [])
        net = [a for fr in case["net"] for a in fr]
        rnet, fbnet = case["rnet"], case["fbnet"]

        async def go():
            from aiortc.rtp import RtcpRtpfbPacket, unwrap_rtx
            clk = Clock()                 # one wall clock for both ends, advanced only by the script
            srig = SenderRig(scfg, clk)
            rrig = ReceiverRig(rcfg, clk)
            await srig.start()
            await rrig.start()
            sender_steps = []          # [op, raw, parsed]
            recv_steps = []            # {"pkt": parsed wire packet, "oi": original index, "fbs", "items"}
            originals = []             # raw bytes of first transmissions, by stream index
            seq_to_oi = {}
            held = []                  # [due tick, raw, oi]
            counters = {"o": 0, "r": 0, "fb": 0, "tick": 0, "t": 0}
            err = None

            async def deliver(raw, oi):
                pkt = RtpPacketParse(raw, rrig)      # as RTCDtlsTransport._handle_rtp_data does
                if counters["t"] < len(clkd):
                    clk.now += clkd[counters["t"]]           # transit time of this delivery (first transmission or RTX)
                counters["t"] += 1
                fbs, items, fwd = await rrig.feed(pkt, counters["t"])
                recv_steps.append({"pkt": pkt, "oi": oi, "fbs": fbs, "items": items})
                new = []
                for fb in fwd:
                    k = counters["fb"]
                    counters["fb"] += 1
                    if k < len(fbnet) and not fbnet[k]:
                        continue
                    if k < len(clkfb):
                        clk.now += clkfb[k]                      # the feedback arrives late
                    raw_out = await srig.rtcp(fb)
                    if isinstance(fb, RtcpRtpfbPacket):
                        sender_steps.append([["k", list(fb.lost)], raw_out, [srig.parse(d) for d in raw_out]])
                        for d in raw_out:
                            p = srig.parse(d)
                            s = p.sequence_number
                            if p.payload_type != send_pt and len(p.payload) >= 2:      # some RTX wrapping
                                s = unwrap_rtx(p, payload_type=send_pt, ssrc=self.SSRC).sequence_number
                            new.append((d, seq_to_oi.get(s), True))
                return new

            async def wire(queue):
                """process wire packets (raw, oi, is_retx) through the scripted network until quiescent"""
                while queue:
                    raw, oi, is_rtx = queue.pop(0)
                    if is_rtx:
                        k = counters["r"]
                        counters["r"] += 1
                        act = rnet[k] if k < len(rnet) else "d"
                    else:
                        k = counters["o"]
                        counters["o"] += 1
                        act = net[k] if k < len(net) else "d"
                    counters["tick"] += 1
                    now = []
                    if act == "d":
                        now.append((raw, oi))
                    elif act == "2":
                        now += [(raw, oi), (raw, oi)]
                    elif act != "x":
                        held.append([counters["tick"] + act[1], raw, oi])
                    due = [h for h in held if h[0] <= counters["tick"]]
                    for h in due:
                        held.remove(h)
                        now.append((h[1], h[2]))
                    for raw2, oi2 in now:
                        queue.extend(await deliver(raw2, oi2))

            try:
                try:
                    for fi, (enc_ts, pls) in enumerate(case["frames"]):
                        if fi < len(clkf):
                            clk.now += clkf[fi]                  # sender pause before this frame
                        raw = await srig.frame(enc_ts, [bytes.fromhex(h) for h in pls])
                        parsed = [srig.parse(d) for d in raw]
                        sender_steps.append([["f", enc_ts, pls], raw, parsed])
                        q = []
                        for d, p in zip(raw, parsed):
                            seq_to_oi[p.sequence_number] = len(originals)
                            q.append((d, len(originals), False))
                            originals.append(d)
                        await wire(q)
                    # end of traffic: everything still in flight arrives
                    while held:
                        h = held.pop(0)
                        await wire(await deliver(h[1], h[2]))
                except Exception as exc:     # the real code raised somewhere on the path
                    err = _exc_tag(exc)
            finally:
                await rrig.stop()
                await srig.stop()
            return sender_steps, recv_steps, srig, err

        def RtpPacketParse(raw, rrig):
            from aiortc.rtp import RtpPacket
            return RtpPacket.parse(raw, rrig.transport._rtp_header_extensions_map)

        try:
            sender_steps, recv_steps, srig, err = _run(go())
        except Exception as exc:
            return {"out": "HARNESS " + _exc_tag(exc) + " " + str(exc)[:100], "s": None, "r": None, "err": str(exc)}
        if err is not None:
            return {"out": err, "s": sender_steps, "r": recv_steps, "err": err, "rig": srig}
        out = ("ok " + ";".join((",".join(_show_pkt(p) for p in pk) if pk else "-") for _, _, pk in sender_steps) + "#"
               + (";".join(_show_res(st["fbs"], st["items"]) for st in recv_steps) if recv_steps else ""))
        return {"out": out, "s": sender_steps, "r": recv_steps, "err": None, "rig": srig}

    def model_line(self, case):
        obs = self.observe(case)
        if obs["s"] is None:
            return None
        ops = []
        for op, _, _ in obs["s"]:
            if op[0] == "f":
                ops.append("f:%d:%s" % (op[1], "/".join(op[2]) if op[2] else "-"))
            else:
                ops.append("k:" + (".".join(str(x) for x in op[1]) if op[1] else "-"))
        table = codec_table(case)
        rtxmap = ",".join("%d:%d" % (a, b) for a, b in self._rtxmap(table)) or "-"
        pk = ";".join(_show_pkt(st["pkt"]) for st in obs["r"]) or "-"
        return "video pair %d %d %s %d %d %d %s %s %s %d 1 %s" % (
            self.SSRC, self.RTX_SSRC, table_send_line(table), case["ts0"], case["seq0"], case["rtx_seq0"],
            ";".join(ops) if ops else "-", table_recv_line(table), rtxmap, RTCP_SSRC, pk)

    def _rtxmap(self, table):
        """the receiver learns the RTX SSRC of the stream whenever the negotiated list has any rtx codec"""
        return [[self.RTX_SSRC, self.SSRC]] if any(nm == "rtx" for _, nm, _ in table) else []

    # -- the property on the implementation -------------------------------------------------------
    def oracle(self, case, impl_out):
        from aiortc.codecs import depayload
        from aiortc.rtcrtpparameters import RTCRtpCodecParameters
        obs = self.observe(case)
        if obs["s"] is None:
            return "harness failure: " + obs["out"]
        if obs["err"]:
            return "the send/receive path raised: " + obs["err"]
        # sender clauses on the wire
        r = sender_oracle({"seq0": case["seq0"], "rtx_seq0": case["rtx_seq0"], "ts0": case["ts0"], "ssrc": self.SSRC,
                           "rtx_ssrc": self.RTX_SSRC, "codecs": codec_table(case)}, obs["s"], obs["rig"])
        if r:
            return r
        codec = table_params(codec_table(case))[0]
        send_pt = codec_table(case)[0][0]
        # what the sender packetised: per frame the depayloaded packets
        frames = []
        for op, raw, pk in obs["s"]:
            if op[0] == "f":
                frames.append([depayload(codec, p.payload) if p.payload else b"" for p in pk])
        whole = {}
        tails = {}
        for k, parts in enumerate(frames):
            whole.setdefault(b"".join(parts), []).append(k)
            for j in range(1, len(parts)):
                tails.setdefault(b"".join(parts[j:]), []).append(k)
        first_of = []      # stream index -> frame index
        for k, parts in enumerate(frames):
            first_of += [k] * len(parts)
        aligned = False
        last_k = -1
        hi = -1
        nolate = True
        delivered = []
        first_enc = None
        arrived = set()
        a0 = next((st["oi"] for st in obs["r"] if st["oi"] is not None), None)   # first arrival fixes max_seq / the origin
        for st in obs["r"]:
            r = nack_fb_oracle(st["fbs"])
            if r:
                return r
            oi = st["oi"]
            if oi is not None:
                if hi - oi >= MISORDER:
                    nolate = False
                hi = max(hi, oi)
                arrived.add(oi)
            # NACK content: every listed number is a not-yet-arrived packet of the last 128 before the highest arrived
            for fb in st["fbs"]:
                if fb.startswith("N"):
                    lost = [int(x) for x in fb.split(":")[1].split(".")]
                    if a0 is not None:
                        want = sorted((case["seq0"] + j) % M16 for j in range(max(a0 + 1, hi - HIST), hi) if j not in arrived)
                        if sorted(lost) != want:
                            return f"NACK lists {sorted(lost)[:10]} but the missing packets of the window are {want[:10]}"
            if any(fb.startswith("P") for fb in st["fbs"]):
                aligned = False
            if len(st["items"]) > 1:
                return "more than one frame entered the decoder queue in one call"
            for pt, ts, data in st["items"]:
                if pt != send_pt:
                    return f"decoder item carries codec payload type {pt}"
                ks = whole.get(data)
                if ks is None:
                    kt = tails.get(data)
                    if kt is None:
                        return (f"a frame of {len(data)} bytes entered the decoder queue that is neither a frame the sender packetised nor a tail of one "
                                f"(splice or hole): {data.hex()[:60]}")
                    if aligned:
                        return (f"a strict tail of sender frame {kt[0]} entered the decoder queue although a frame had been released since the "
                                f"last discard (PLI) / stream start")
                    ks = kt
                k = min((x for x in ks if x > last_k), default=None) if nolate else ks[0]
                if nolate:
                    if k is None:
                        return f"frame {ks} entered the decoder queue after frame {last_k}: not in sending order"
                    last_k = k
                    enc = case["frames"][k][0]
                    if first_enc is None:
                        first_enc = enc
                    if ts != enc - first_enc:
                        return f"decoder timestamp of frame {k} is {ts}, expected {enc - first_enc} (offset from the first delivered frame)"
                delivered.append(k)
                aligned = True
        # recovery: feedback and retransmissions get through, the tail of the stream is not lost
        if case["fam"] in ("clean", "recover") and a0 is not None:
            k0 = first_of[a0]
            # one frame is released per add(): the last `drain` frames are the continuing traffic that flushes the backlog
            want = list(range(k0 + 1, len(frames) - max(case.get("drain", 0), 1)))
            missing = [k for k in want if k not in delivered]
            if missing:
                return (f"frames {missing[:8]} were never delivered to the decoder although NACKs and retransmissions got through "
                        f"(delivered {len(delivered)} of {len(frames)})")
        return None

    def label(self, case, impl_out):
        obs = self.observe(case)
        if obs["s"] is None or obs["err"]:
            return impl_out[:24]
        nk = sum(1 for op, _, _ in obs["s"] if op[0] == "k")
        rt = sum(len(raw) for op, raw, _ in obs["s"] if op[0] == "k")
        pli = sum(1 for st in obs["r"] for fb in st["fbs"] if fb.startswith("P"))
        wrap = "wrap" if case["seq0"] + sum(len(pl) for _, pl in case["frames"]) >= M16 else "nowrap"
        return "%s-%s-%s%s%s-%s" % (case["fam"], ("rtx" if negotiated_rtx(codec_table(case)) else "plain") + ("+foreign" if any(nm == "rtx" and apt != codec_table(case)[0][0] for _, nm, apt in codec_table(case)) else "")
                                   + ("-aged" if any(x >= 1.0 for l in (case.get("clk") or {}).values() for x in l) else ""), "nack" if nk else "nonack",
                                   "-retx" if rt else "", "-pli" if pli else "", wrap)

    def nontrivial(self, case, impl_out):
        obs = self.observe(case)
        return obs["r"] is not None and any(st["items"] for st in obs["r"])

    def shrink(self, case):
        fr, net = case["frames"], case["net"]
        keep = case.get("drain", 0)
        for i in range(len(fr) - keep):          # never remove the continuing-traffic tail
            if len(fr) - keep > 2:
                yield dict(case, frames=fr[:i] + fr[i + 1:], net=net[:i] + net[i + 1:])
        for i, acts in enumerate(net):
            for j, a in enumerate(acts):
                if a != "d":
                    yield dict(case, net=net[:i] + [acts[:j] + ["d"] + acts[j + 1:]] + net[i + 1:])
        for key in ("rnet", "fbnet"):
            l = case[key]
            for i in range(len(l)):
                if l[i] not in ("d", 1):
                    yield dict(case, **{key: l[:i] + ["d" if key != "fbnet" else 1] + l[i + 1:]})
        for i, (ts, pl) in enumerate(fr[:len(fr) - keep]):
            if len(pl) > 1:
                yield dict(case, frames=fr[:i] + [[ts, pl[:-1]]] + fr[i + 1:], net=net[:i] + [net[i][:-1]] + net[i + 1:])
        if case["ext"]:
            yield dict(case, ext=False)
        clk = case.get("clk") or {}
        if any(x for l in clk.values() for x in l):
            yield dict(case, clk={})
            for key, l in clk.items():
                for i, x in enumerate(l):
                    if x:
                        yield dict(case, clk=dict(clk, **{key: l[:i] + [0.0] + l[i + 1:]}))
        t = codec_table(case)
        for i in range(1, len(t)):
            yield dict(case, codecs=t[:i] + t[i + 1:])


def components(tier):
    return [Nack(), TsMap(), Sender(), Receiver(), Pair()]


def classify_finding(finding, comp_name, case, what):
    return False
