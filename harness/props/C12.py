"""C12 — bundled RTP/RTCP routing: `RtpRouter` (src/aiortc/rtcdtlstransport.py) vs Model/Router.lean.

Two correspondences on the same histories of register / unregister / route operations:
  * `router`    — the bare `RtpRouter` with stub receiver / sender objects and RTCP packet objects built from
                  aiortc.rtp classes; observes the return values and the complete table state at the end;
  * `transport` — an `RTCDtlsTransport` whose ICE transport and SRTP session are stubs: registrations go
                  through `_register_rtp_*` with real parameter objects, packets are serialised and fed
                  datagram by datagram through `_recv_next` (RTP/RTCP demultiplexing, `RtcpPacket.parse`,
                  compound packets); observes the receiver / sender callbacks.
The oracle is an independent reference written from the property text (who is registered for which SSRC,
who accepts which payload type, which sender owns which SSRC), evaluated against what the implementation did.
"""
from __future__ import annotations

import itertools

from harness.check import Component

LEAN_TARGETS = ["Aiortc.Props.C12"]
DRIVERS = ["Router"]
MANIFEST = {
    "technique": "Lean 4 theorems (induction over histories, table invariants) about an executable model of RtpRouter + "
                 "differential run of the compiled model against RtpRouter and against RTCDtlsTransport callbacks on random and "
                 "exhaustively enumerated short histories; independent reference oracle",
    "text": "route_rtp / route_rtcp of the model are characterised exactly (who gets an RTP packet, SSRC latching, exact RTCP "
            "recipient sets incl. REMB FCI, no exception escapes) for every reachable router state, and an unregistered receiver / "
            "sender is proved never to be routed to again for every continuation of the history that does not re-register it. The model "
            "is tied to the real class by running identical histories through both and comparing every return value and the final tables.",
    "note": "Needs fixes/C12-remb-truncated-fci.patch (struct.error escaping route_rtcp on a REMB whose SSRC count exceeds its length).",
    "design_ref": "DESIGN.md §2 C12",
}
ASSUMPTIONS = [
    "receivers and senders are opaque identities compared with ==; an object registered both as receiver and as sender is outside the model",
    "SSRCs and payload types are non-negative integers (dict keys compared with ==)",
    "an RTCP SDES packet is routed to nobody (the code has no branch for it; it describes sources, it does not report on a registered stream)",
    "transport component: RTP packets with marker=1 and payload type 64..80 are not generated (RFC 5761 demultiplexing treats them as RTCP)",
    "'sticks from then on' is proved up to the next unregister_receiver of that receiver or register_receiver listing that SSRC",
]
TRUSTED_EXTRA = [
    "RtcpPacket.parse / RtpPacket.parse / SRTP / DTLS are not modelled here (C07/C05); the transport component only checks that callbacks equal the router model's results",
    "Python set/dict semantics (hash by identity for the stub objects) modelled as duplicate-free lists / association lists",
]
RULE = ("histories of 0..40 operations over <=6 receivers, <=6 senders, SSRC pool of 8 values (0, 1, 2^32-1, ...), payload types pool of 7, "
        "RTCP of all six classes, REMB FCIs well-formed and malformed (truncated at every byte, count +-1/255, bad prefix); thorough adds every "
        "history of length <=5 over an 11-letter alphabet with 3 receivers and every history of length 6 over a 7-letter alphabet; distinct = distinct history; nontrivial = some packet was routed to somebody")

SSRCS = [0, 1, 2, 1234, 5678, 0x7FFFFFFF, 0x80000000, 0xFFFFFFFF]
PTS = [0, 8, 96, 97, 98, 111, 127]
MIDS = [None, "", "0", "1", "a", "audio", "video"]


# ------------------------------------------------------------------------------------------------
# case <-> model line
# ------------------------------------------------------------------------------------------------

def _l(xs):
    return ",".join(str(x) for x in xs) if xs else "-"


def op_line(op):
    k = op[0]
    if k == "rr":
        mid = "n" if op[4] is None else "m" + op[4]
        return f"rr:{op[1]}:{_l(op[2])}:{_l(op[3])}:{mid}"
    if k in ("rs", "p"):
        return f"{k}:{op[1]}:{op[2]}"
    if k in ("ur", "us"):
        return f"{k}:{op[1]}"
    if k in ("sr", "rrp"):
        return f"{k}:{op[1]}:{_l(op[2])}"
    if k in ("sdes", "bye"):
        return f"{k}:{_l(op[1])}"
    if k == "fb":
        return f"fb:{op[1]}:{op[2]}:{op[3]}"
    if k == "ps":
        return f"ps:{op[1]}:{op[2]}:{op[3]}:{op[4] or '-'}"
    raise ValueError(k)


def model_line_for(ops):
    return "router run " + (";".join(op_line(o) for o in ops) if ops else "-")


# ------------------------------------------------------------------------------------------------
# reference semantics written from the property text (used by the oracle and for labels)
# ------------------------------------------------------------------------------------------------

def remb_ssrcs(fci: bytes):
    """SSRC list inside a REMB FCI per draft-alvestrand-rmcat-remb-03, or None if it is not a well-formed REMB."""
    if len(fci) < 8 or fci[0:4] != b"REMB":
        return None
    n = fci[4]
    if len(fci) < 8 + 4 * n:
        return None
    return [int.from_bytes(fci[8 + 4 * i: 12 + 4 * i], "big") for i in range(n)]


class Ref:
    def __init__(self):
        self.registered = set()   # receivers
        self.accept = {}          # receiver -> set(pt)
        self.bound = {}           # ssrc -> receiver
        self.snd = {}             # ssrc -> sender

    def step(self, op):
        """-> (expected output string, branch label)"""
        k = op[0]
        if k == "rr":
            _, r, ssrcs, pts, mid = op
            self.registered.add(r)
            self.accept.setdefault(r, set()).update(pts)
            for s in ssrcs:
                self.bound[s] = r
            return "-", "reg-receiver"
        if k == "rs":
            self.snd[op[2]] = op[1]
            return "-", "reg-sender"
        if k == "ur":
            r = op[1]
            was = r in self.registered
            self.registered.discard(r)
            self.accept.pop(r, None)
            self.bound = {s: x for s, x in self.bound.items() if x != r}
            return "-", "unreg-receiver" if was else "unreg-receiver-unknown"
        if k == "us":
            was = op[1] in self.snd.values()
            self.snd = {s: x for s, x in self.snd.items() if x != op[1]}
            return "-", "unreg-sender" if was else "unreg-sender-unknown"
        if k == "p":
            _, ssrc, pt = op
            if ssrc in self.bound:
                r = self.bound[ssrc]
                if pt in self.accept.get(r, ()):
                    return f"R{r}", "rtp-known-match"
                return "N", "rtp-known-pt-mismatch"
            acc = sorted(r for r in self.registered if pt in self.accept.get(r, ()))
            if len(acc) == 1:
                self.bound[ssrc] = acc[0]
                return f"R{acc[0]}", "rtp-latch"
            return "N", "rtp-unknown-none" if not acc else "rtp-unknown-several"
        # RTCP
        rec, snd = set(), set()
        lab = "rtcp-" + k
        if k == "sr":
            if op[1] in self.bound:
                rec.add(self.bound[op[1]])
            targets = op[2]
        elif k == "rrp":
            targets = op[2]
        elif k == "sdes":
            targets = []
        elif k == "bye":
            for s in op[1]:
                if s in self.bound:
                    rec.add(self.bound[s])
            targets = []
        elif k == "fb":
            targets = [op[3]]
        elif k == "ps":
            targets = [op[3]]
            if op[1] == 15:
                l = remb_ssrcs(bytes.fromhex(op[4]))
                if l is None:
                    lab = "rtcp-remb-malformed"
                else:
                    targets = targets + l
                    lab = "rtcp-remb"
        else:
            raise ValueError(k)
        for s in targets:
            if s in self.snd:
                snd.add(self.snd[s])
        out = [f"R{r}" for r in sorted(rec)] + [f"S{s}" for s in sorted(snd)]
        if not out:
            lab += "-nobody"
        return "ok " + (",".join(out) if out else "-"), lab


def ref_run(ops):
    ref = Ref()
    return [ref.step(o) for o in ops]


# ------------------------------------------------------------------------------------------------
# implementation side
# ------------------------------------------------------------------------------------------------

class StubReceiver:
    def __init__(self, i, log=None):
        self.i = i
        self.log = log

    def _handle_disconnect(self):
        pass

    async def _handle_rtcp_packet(self, packet):
        self.log.append(("R", self.i, packet))

    async def _handle_rtp_packet(self, packet, arrival_time_ms):
        self.log.append(("R", self.i, packet))


class StubSender:
    def __init__(self, i, log=None):
        self.i = i
        self._ssrc = None
        self.log = log

    async def _handle_rtcp_packet(self, packet):
        self.log.append(("S", self.i, packet))


def _exc_tag(exc):
    import struct
    if isinstance(exc, ValueError):
        return "ValueError"
    if isinstance(exc, struct.error):
        return "crash struct.error"
    return "crash " + type(exc).__name__


def make_rtcp(op):
    from aiortc import rtp
    k = op[0]

    def info(x):
        return rtp.RtcpReceiverInfo(ssrc=x, fraction_lost=x % 256, packets_lost=(x % 1000) - 500, highest_sequence=x,
                                    jitter=x % 777, lsr=0, dlsr=0)
    if k == "sr":
        return rtp.RtcpSrPacket(ssrc=op[1], sender_info=rtp.RtcpSenderInfo(ntp_timestamp=(op[1] << 8) + 7, rtp_timestamp=op[1] ^ 5,
                                                                           packet_count=3, octet_count=400),
                                reports=[info(x) for x in op[2]])
    if k == "rrp":
        return rtp.RtcpRrPacket(ssrc=op[1], reports=[info(x) for x in op[2]])
    if k == "sdes":
        return rtp.RtcpSdesPacket(chunks=[rtp.RtcpSourceInfo(ssrc=x, items=[(1, b"cn%d" % (x % 10))]) for x in op[1]])
    if k == "bye":
        return rtp.RtcpByePacket(sources=list(op[1]))
    if k == "fb":
        return rtp.RtcpRtpfbPacket(fmt=op[1], ssrc=op[2], media_ssrc=op[3], lost=[op[2] % 65536] if op[1] == 1 else [])
    if k == "ps":
        return rtp.RtcpPsfbPacket(fmt=op[1], ssrc=op[2], media_ssrc=op[3], fci=bytes.fromhex(op[4]))
    raise ValueError(k)


def dump_state(router):
    def i(x):
        return str(x.i)
    recv = sorted(x.i for x in router.receivers)
    snd = sorted((k, v.i) for k, v in router.senders.items())
    mid = sorted((k, v.i) for k, v in router.mid_table.items())
    ssrc = sorted((k, v.i) for k, v in router.ssrc_table.items())
    pt = sorted((k, sorted(x.i for x in v)) for k, v in router.payload_type_table.items())
    return ("recv=" + _l(recv)
            + " snd=" + (",".join(f"{k}>{v}" for k, v in snd) or "-")
            + " mid=" + (",".join(f"{k}>{v}" for k, v in mid) or "-")
            + " ssrc=" + (",".join(f"{k}>{v}" for k, v in ssrc) or "-")
            + " pt=" + (",".join(f"{k}>" + "+".join(str(x) for x in v) for k, v in pt) or "-"))


def show_recipients(items):
    rs = sorted(x.i for x in items if isinstance(x, StubReceiver))
    ss = sorted(x.i for x in items if isinstance(x, StubSender))
    out = [f"R{r}" for r in rs] + [f"S{s}" for s in ss]
    return ",".join(out) if out else "-"


def run_router(ops):
    from aiortc.rtcdtlstransport import RtpRouter
    from aiortc import rtp
    router = RtpRouter()
    recv, snd = {}, {}
    outs = []
    for op in ops:
        k = op[0]
        try:
            if k == "rr":
                r = recv.setdefault(op[1], StubReceiver(op[1]))
                router.register_receiver(r, ssrcs=list(op[2]), payload_types=list(op[3]), mid=op[4])
                outs.append("-")
            elif k == "rs":
                s = snd.setdefault(op[1], StubSender(op[1]))
                router.register_sender(s, ssrc=op[2])
                outs.append("-")
            elif k == "ur":
                router.unregister_receiver(recv.setdefault(op[1], StubReceiver(op[1])))
                outs.append("-")
            elif k == "us":
                router.unregister_sender(snd.setdefault(op[1], StubSender(op[1])))
                outs.append("-")
            elif k == "p":
                res = router.route_rtp(rtp.RtpPacket(payload_type=op[2], ssrc=op[1], sequence_number=len(outs) % 65536))
                outs.append("N" if res is None else f"R{res.i}")
            else:
                res = router.route_rtcp(make_rtcp(op))
                if not isinstance(res, (set, frozenset)):
                    outs.append("crash not-a-set")
                else:
                    outs.append("ok " + show_recipients(res))
        except Exception as exc:  # noqa: BLE001 - every escaping exception is an observable outcome
            outs.append(_exc_tag(exc))
    return ";".join(outs) + "|" + dump_state(router)


# ---- transport level ---------------------------------------------------------------------------

class _Ice:
    def __init__(self):
        self.queue = []

    async def _recv(self):
        return self.queue.pop(0)

    async def _send(self, data):
        pass


class _Srtp:
    def unprotect(self, data):
        return data

    def unprotect_rtcp(self, data):
        return data


def wire_rtcp(op):
    """Serialise one RTCP packet; PSFB with an FCI that is not a multiple of 4 uses RTCP padding."""
    import struct
    if op[0] == "ps" and (len(op[4]) // 2) % 4:
        fci = bytes.fromhex(op[4])
        payload = struct.pack("!LL", op[2], op[3]) + fci
        pad = 4 - len(payload) % 4
        payload += b"\x00" * (pad - 1) + bytes([pad])
        return struct.pack("!BBH", 0x80 | 0x20 | op[1], 206, len(payload) // 4) + payload
    return bytes(make_rtcp(op))


_LOOP = None


def _loop():
    global _LOOP
    if _LOOP is None:
        import asyncio
        _LOOP = asyncio.new_event_loop()
    return _LOOP


def run_transport(ops, compound):
    """Same history through RTCDtlsTransport; consecutive RTCP ops form one compound datagram if `compound`."""
    from aiortc import rtp
    from aiortc.rtcdtlstransport import RTCDtlsTransport
    from aiortc.rtcrtpparameters import (RTCRtpCodecParameters, RTCRtpDecodingParameters, RTCRtpReceiveParameters,
                                         RTCRtpSendParameters)
    ice = _Ice()
    dtls = RTCDtlsTransport(ice, [object()])
    dtls.encrypted = True
    dtls._rx_srtp = _Srtp()
    log = []
    recv, snd = {}, {}
    outs = []
    loop = _loop()

    def feed(data):
        ice.queue.append(data)
        del log[:]
        loop.run_until_complete(dtls._recv_next())
        return list(log)

    i = 0
    while i < len(ops):
        op = ops[i]
        k = op[0]
        try:
            if k == "rr":
                r = recv.setdefault(op[1], StubReceiver(op[1], log))
                params = RTCRtpReceiveParameters(
                    codecs=[RTCRtpCodecParameters(mimeType="video/x", clockRate=90000, payloadType=pt) for pt in op[3]],
                    encodings=[RTCRtpDecodingParameters(ssrc=s, payloadType=(op[3][0] if op[3] else 0)) for s in op[2]],
                    muxId=op[4] or "")
                dtls._register_rtp_receiver(r, params)
                outs.append("-")
            elif k == "rs":
                # a sender object has one _ssrc: a sender id registered on another SSRC is re-registered with the new one
                s = snd.setdefault(op[1], StubSender(op[1], log))
                s._ssrc = op[2]
                dtls._register_rtp_sender(s, RTCRtpSendParameters())
                outs.append("-")
            elif k == "ur":
                dtls._unregister_rtp_receiver(recv.setdefault(op[1], StubReceiver(op[1], log)))
                outs.append("-")
            elif k == "us":
                dtls._unregister_rtp_sender(snd.setdefault(op[1], StubSender(op[1], log)))
                outs.append("-")
            elif k == "p":
                seq = i % 65536
                pkt = rtp.RtpPacket(payload_type=op[2], ssrc=op[1], sequence_number=seq, timestamp=seq * 3, payload=b"x" * (i % 5),
                                    marker=1 if (op[2] < 64 or op[2] > 80) and i % 3 == 0 else 0)
                got = feed(pkt.serialize())
                bad = [g for g in got if not (g[0] == "R" and g[2].ssrc == op[1] and g[2].payload_type == op[2]
                                                and g[2].sequence_number == seq)]
                if bad or len(got) > 1:
                    outs.append("crash callbacks:" + ",".join(f"{g[0]}{g[1]}" for g in got))
                else:
                    outs.append(f"R{got[0][1]}" if got else "N")
            else:
                group = [op]
                if compound:
                    while i + len(group) < len(ops) and ops[i + len(group)][0] in ("sr", "rrp", "sdes", "bye", "fb", "ps"):
                        group.append(ops[i + len(group)])
                pkts = [make_rtcp(g) for g in group]
                try:
                    got = feed(b"".join(wire_rtcp(g) for g in group))
                    exc = None
                except Exception as e:  # noqa: BLE001
                    got, exc = list(log), e
                stray = [g for g in got if not any(g[2] == p for p in pkts)]
                for p in pkts:
                    mine = [g for g in got if g[2] == p]
                    mult = sum(1 for q in pkts if q == p)       # identical packets in one datagram
                    who = {(g[0], g[1]) for g in mine}
                    if exc is not None and not mine:
                        outs.append(_exc_tag(exc))
                    elif any(sum(1 for g in mine if (g[0], g[1]) == w) != mult for w in who):
                        outs.append("crash duplicate-callback")
                    else:
                        names = [f"R{x}" for x in sorted(b for a, b in who if a == "R")] + \
                                [f"S{x}" for x in sorted(b for a, b in who if a == "S")]
                        outs.append("ok " + (",".join(names) if names else "-"))
                if stray:
                    outs[-1] = "crash stray-callback"
                i += len(group) - 1
        except Exception as exc:  # noqa: BLE001
            outs.append(_exc_tag(exc))
        i += 1
    return ";".join(outs) + "|" + dump_state(dtls._rtp_router)


# ------------------------------------------------------------------------------------------------
# generators
# ------------------------------------------------------------------------------------------------

def gen_fci(rng):
    from aiortc import rtp
    n = rng.choice([0, 1, 1, 2, 3])
    good = rtp.pack_remb_fci(rng.choice([0, 1, 0x3FFFF, 0x40000, 10 ** 6, 2 ** 40]), [rng.choice(SSRCS) for _ in range(n)])
    mode = rng.randrange(10)
    if mode < 5:
        return good
    if mode == 5:
        return good[:rng.randrange(len(good) + 1)]                       # truncated anywhere
    if mode == 6:
        b = bytearray(good)
        b[4] = rng.choice([(n + 1) % 256, (n - 1) % 256, 255, 0, 64])     # count field wrong
        return bytes(b)
    if mode == 7:
        b = bytearray(good)
        b[rng.randrange(4)] ^= 1 << rng.randrange(8)                      # bad prefix
        return bytes(b)
    if mode == 8:
        return good + bytes(rng.randrange(256) for _ in range(rng.choice([1, 4, 5])))   # trailing garbage
    return bytes(rng.randrange(256) for _ in range(rng.choice([0, 4, 7, 8, 12])))


def gen_op(rng, nr, ns, ssrcs, pts):
    x = rng.random()

    def some(pool, lo, hi):
        return [rng.choice(pool) for _ in range(rng.randint(lo, hi))]
    if x < 0.16:
        return ["rr", rng.randrange(nr), some(ssrcs, 0, 2), some(pts, 0, 3), rng.choice(MIDS)]
    if x < 0.24:
        return ["rs", rng.randrange(ns), rng.choice(ssrcs)]
    if x < 0.31:
        return ["ur", rng.randrange(nr)]
    if x < 0.36:
        return ["us", rng.randrange(ns)]
    if x < 0.64:
        return ["p", rng.choice(ssrcs), rng.choice(pts)]
    k = rng.choice(["sr", "rrp", "sdes", "bye", "fb", "ps", "ps", "ps"])
    if k in ("sr", "rrp"):
        return [k, rng.choice(ssrcs), some(ssrcs, 0, 3)]
    if k in ("sdes", "bye"):
        return [k, some(ssrcs, 0, 3)]
    if k == "fb":
        return ["fb", rng.choice([1, 1, 15, 3]), rng.choice(ssrcs), rng.choice(ssrcs)]
    fmt = rng.choice([15, 15, 15, 1, 2, 3, 4])
    fci = gen_fci(rng) if fmt == 15 or rng.random() < 0.3 else b""
    return ["ps", fmt, rng.choice(ssrcs), rng.choice([0, 0, rng.choice(ssrcs)]), fci.hex()]


def gen_history(rng, maxlen):
    """Small pools so that SSRC / payload-type sets overlap; usually a registration phase first."""
    nr = rng.choice([1, 2, 2, 3, 3, 6])
    ns = rng.choice([1, 2, 3, 6])
    ssrcs = rng.sample(SSRCS, rng.choice([2, 3, 3, 4, 8]))
    pts = rng.sample(PTS, rng.choice([1, 2, 2, 3, 7]))
    n = rng.randint(0, maxlen)
    ops = []
    if rng.random() < 0.7:
        for _ in range(rng.randint(1, 4)):
            if rng.random() < 0.65:
                ops.append(["rr", rng.randrange(nr), [rng.choice(ssrcs) for _ in range(rng.choice([0, 0, 1, 1, 2]))],
                            [rng.choice(pts) for _ in range(rng.choice([1, 1, 2, 3]))], rng.choice(MIDS)])
            else:
                ops.append(["rs", rng.randrange(ns), rng.choice(ssrcs)])
    while len(ops) < n:
        ops.append(gen_op(rng, nr, ns, ssrcs, pts))
    return ops


ALPHABET = [
    ["rr", 0, [1], [96], None], ["rr", 1, [2], [96], "a"], ["rr", 2, [1], [97], "a"], ["rr", 0, [], [97], None],
    ["ur", 0], ["ur", 1], ["ur", 2],
    ["p", 1, 96], ["p", 3, 96], ["p", 3, 97], ["bye", [1, 3]],
]

ALPHABET6 = [
    ["rr", 0, [], [96], None], ["rr", 1, [1], [96], None], ["ur", 0], ["ur", 1], ["p", 1, 96], ["p", 3, 96], ["sr", 3, []],
]

CORPUS = [
    # REMB whose SSRC count exceeds its length: struct.error escaped route_rtcp before fixes/C12-remb-truncated-fci.patch
    [["rs", 0, 0], ["ps", 15, 1, 0, "52454d42010003e8"]],
    [["rs", 0, 5678], ["rs", 1, 1234], ["ps", 15, 1, 5678, "52454d42020003e8000004d2"]],
    # well-formed REMB reaches the senders in the FCI, media_ssrc 0
    [["rs", 0, 1234], ["rs", 1, 5678], ["rs", 2, 0], ["ps", 15, 9, 0, "52454d42020003e8000004d20000162e"]],
    # latch, stick, unregister, re-latch to another receiver
    [["rr", 0, [], [96], None], ["p", 7, 96], ["rr", 1, [], [96], None], ["p", 7, 96], ["p", 8, 96], ["ur", 0], ["p", 7, 96], ["p", 8, 96]],
    # SSRC stolen by a later registration; unregistering the first owner must not unbind it
    [["rr", 0, [1], [96], "a"], ["rr", 1, [1], [96], "a"], ["ur", 0], ["p", 1, 96], ["sr", 1, [1]], ["bye", [1]]],
    # sender on two SSRCs, unregistered once
    [["rs", 0, 1], ["rs", 0, 2], ["rs", 1, 1], ["rrp", 9, [1, 2]], ["us", 0], ["rrp", 9, [1, 2]], ["sr", 9, [2, 1]]],
    [],
]


# ------------------------------------------------------------------------------------------------
# components
# ------------------------------------------------------------------------------------------------

def _shrink_ops(ops):
    n = len(ops)
    # drop halves, then single ops
    if n > 3:
        yield ops[: n // 2]
        yield ops[n // 2:]
    for i in range(n):
        yield ops[:i] + ops[i + 1:]
    # simplify inside ops
    for i, op in enumerate(ops):
        for j, f in enumerate(op):
            if isinstance(f, list) and f:
                for t in range(len(f)):
                    yield ops[:i] + [op[:j] + [f[:t] + f[t + 1:]] + op[j + 1:]] + ops[i + 1:]
        if op[0] == "rr" and op[4] is not None:
            yield ops[:i] + [op[:4] + [None]] + ops[i + 1:]
        if op[0] == "ps" and len(op[4]) >= 2:
            yield ops[:i] + [op[:4] + [op[4][:-2]]] + ops[i + 1:]


class Router(Component):
    name = "router"
    theorems = ["reachable_wf", "register_receiver_spec", "unregister_receiver_spec", "register_sender_spec", "unregister_sender_spec",
                "route_rtp_spec", "route_rtp_none_iff", "route_rtp_state", "route_rtp_binds", "route_rtp_registered", "latch_sticks",
                "rtp_after_latch", "route_rtcp_spec", "route_rtcp_never_raises", "route_rtcp_registered",
                "rembList_of_isRemb", "rembList_of_not_isRemb", "route_rtcp_remb",
                "unregistered_receiver_is_gone", "unregistered_sender_is_gone", "history_spec"]

    def corpus(self):
        return [{"ops": ops} for ops in CORPUS]

    def cases(self, rng, tier):
        out = []
        n = 2500 if tier == "quick" else 60000
        for _ in range(n):
            out.append({"ops": gen_history(rng, rng.choice([4, 10, 25, 40]))})
        # every REMB truncation / count
        from aiortc import rtp
        good = rtp.pack_remb_fci(123456, [1234, 5678])
        for cut in range(len(good) + 1):
            out.append({"ops": [["rs", 0, 1234], ["rs", 1, 5678], ["rs", 2, 0], ["ps", 15, 1, 0, good[:cut].hex()]]})
        for cnt in (0, 1, 2, 3, 4, 255):
            b = bytearray(good)
            b[4] = cnt
            out.append({"ops": [["rs", 0, 1234], ["rs", 1, 5678], ["rs", 2, 0], ["ps", 15, 1, 0, bytes(b).hex()]]})
        if tier == "thorough":
            # exhaustive: every history of length <= 5 over ALPHABET, every history of length 6 over ALPHABET6
            for L in range(1, 6):
                for hist in itertools.product(ALPHABET, repeat=L):
                    out.append({"ops": list(hist)})
            for hist in itertools.product(ALPHABET6, repeat=6):
                out.append({"ops": list(hist)})
        return out

    def model_line(self, case):
        return model_line_for(case["ops"])

    def impl(self, case):
        return run_router(case["ops"])

    def _model_ops(self, case):
        return case["ops"]

    def oracle(self, case, impl_out):
        ops = self._model_ops(case)
        if "|" not in impl_out:
            return "implementation run failed: " + impl_out[:200]
        outs = impl_out.split("|", 1)[0]
        outs = outs.split(";") if ops else []
        if len(outs) != len(ops):
            return f"{len(outs)} outputs for {len(ops)} operations"
        ref = Ref()
        for n, (op, got) in enumerate(zip(ops, outs)):
            # "once unregistered nothing is routed to it again": judged on the state BEFORE the operation
            reg_r = set(ref.registered)
            reg_s = set(ref.snd.values())
            want, _ = ref.step(op)
            if got.startswith("crash") or got == "ValueError":
                return f"op {n} {op}: {got} escaped (expected {want})"
            if op[0] == "p" or op[0] not in ("rr", "rs", "ur", "us"):
                names = [] if got in ("N", "ok -") else got.replace("ok ", "").split(",")
                for nm in names:
                    if nm[0] == "R" and int(nm[1:]) not in reg_r:
                        return f"op {n} {op}: routed to receiver {nm[1:]} which is not registered"
                    if nm[0] == "S" and int(nm[1:]) not in reg_s:
                        return f"op {n} {op}: routed to sender {nm[1:]} which is not registered"
            if got != want:
                return f"op {n} {op}: routed to [{got}], the property demands [{want}]"
        return None

    def label(self, case, impl_out):
        ops = self._model_ops(case)
        if not ops:
            return "empty"
        return ref_run(ops)[-1][1]

    def nontrivial(self, case, impl_out):
        return any(w not in ("-", "N", "ok -") for w, _ in ref_run(self._model_ops(case)))

    def shrink(self, case):
        for ops in _shrink_ops(case["ops"]):
            yield dict(case, ops=ops)


class Transport(Router):
    name = "transport"
    theorems = ["route_rtp_spec", "route_rtcp_spec", "unregistered_receiver_is_gone", "unregistered_sender_is_gone", "history_spec"]

    def corpus(self):
        return [{"ops": _wire_ok(ops), "compound": bool(i % 2)} for i, ops in enumerate(CORPUS)]

    def cases(self, rng, tier):
        n = 600 if tier == "quick" else 12000
        return [{"ops": _wire_ok(gen_history(rng, rng.choice([4, 10, 25]))), "compound": rng.random() < 0.5} for _ in range(n)]

    def _model_ops(self, case):
        # through the transport: muxId "" instead of None; the SSRC list is de-duplicated (order is irrelevant);
        # a sender object carries ONE _ssrc, registering it again uses the new value (same as the router op)
        out = []
        for op in case["ops"]:
            if op[0] == "rr":
                op = op[:4] + [op[4] or ""]
            out.append(op)
        return out

    def model_line(self, case):
        return model_line_for(self._model_ops(case))

    def impl(self, case):
        return run_transport(case["ops"], case.get("compound", False))

    def shrink(self, case):
        if case.get("compound"):
            yield dict(case, compound=False)
        for ops in _shrink_ops(case["ops"]):
            yield dict(case, ops=_wire_ok(ops))


def _wire_ok(ops):
    """Restrict a history to what can appear on the wire / in parameter objects (counts are 5-bit, PT 7-bit)."""
    out = []
    for op in ops:
        if op[0] in ("sr", "rrp"):
            op = [op[0], op[1], op[2][:31]]
        elif op[0] in ("sdes", "bye"):
            op = [op[0], op[1][:31]]
        out.append(op)
    return out


def components(tier):
    return [Router(), Transport()]


def classify_finding(finding, comp_name, case, what):
    return False
