"""C12 — bundled RTP/RTCP routing: `RtpRouter` (src/aiortc/rtcdtlstransport.py) vs Model/Router.lean.

Two correspondences on the same histories of register / unregister / route operations:
  * `router`    — the bare `RtpRouter` with stub receiver / sender objects and RTCP packet objects built from
                  aiortc.rtp classes; observes the return values and the complete table state at the end;
  * `transport` — an `RTCDtlsTransport` whose ICE transport and SRTP session are stubs: registrations go
                  through `_register_rtp_*` with real parameter objects, packets are serialised and fed
                  datagram by datagram through `_recv_next` (RTP/RTCP demultiplexing, `RtcpPacket.parse`,
                  compound packets); observes the receiver / sender callbacks.  The stub endpoints follow scripts:
                  while handling the k-th packet handed to them they unregister themselves / another receiver / a sender
                  or register a new endpoint -- inline, after yielding to the event loop, or through ANOTHER task that
                  runs while the handler is suspended.  The model (Model/RouterDelivery.lean) processes a datagram
                  packet by packet against the current tables with the same scripted table changes threaded through.
The oracle is an independent reference written from the property text (who is registered for which SSRC,
who accepts which payload type, which sender owns which SSRC), evaluated against what the implementation did.
"""
from __future__ import annotations

import itertools

from harness import c12long
from harness.check import Component

LEAN_TARGETS = ["Aiortc.Props.C12", "Aiortc.Props.C12Delivery"]
AUDIT_PROPS = ["C12", "C12Delivery"]
DRIVERS = ["Router"]
MANIFEST = {
    "technique": "Lean 4 theorems (induction over histories, table invariants) about an executable model of RtpRouter and of the "
                 "delivery loops of RTCDtlsTransport (compound datagram = fold over its packets, table changes during deliveries as input) + "
                 "differential run of the compiled model against RtpRouter and against RTCDtlsTransport callbacks on random and "
                 "exhaustively enumerated short histories; independent reference oracle",
    "text": "route_rtp / route_rtcp of the model are characterised exactly (who gets an RTP packet, SSRC latching, exact RTCP "
            "recipient sets incl. REMB FCI, no exception escapes) for every reachable router state, and an unregistered receiver / "
            "sender is proved never to be routed to again for every continuation of the history that does not re-register it. The model "
            "is tied to the real class by running identical histories through both and comparing every return value and the final tables. "
            "At transport level a compound RTCP datagram is proved to be routed packet by packet on the tables as they are when each packet's turn comes "
            "(handlers and other tasks may change them during every delivery), so an endpoint unregistered in the middle of a datagram gets none of the "
            "packets behind; checked against a real RTCDtlsTransport with scripted stub endpoints. The tables have no capacity limit: any number of new streams "
            "latch and stick, any number of senders are reachable (proved for lists of any length; run with up to thousands of SSRCs / endpoints).",
    "note": "Needs fixes/C12-remb-truncated-fci.patch (struct.error escaping route_rtcp on a REMB whose SSRC count exceeds its length).",
    "design_ref": "DESIGN.md §2 C12",
}
ASSUMPTIONS = [
    "receivers and senders are opaque identities compared with ==; an object registered both as receiver and as sender is outside the model",
    "SSRCs and payload types are non-negative integers (dict keys compared with ==)",
    "an RTCP SDES packet is routed to nobody (the code has no branch for it; it describes sources, it does not report on a registered stream)",
    "transport component: RTP packets with marker=1 and payload type 64..80 are not generated (RFC 5761 demultiplexing treats them as RTCP)",
    "'sticks from then on' is proved up to the next unregister_receiver of that receiver or register_receiver listing that SSRC",
    "granularity of 'nothing is routed to it again' at transport level: the recipient set of ONE RTCP packet is fixed when the packet is routed; a co-recipient "
    "unregistered by the handler of another co-recipient of the same packet still gets that packet (the oracle accepts both, the model follows the code), "
    "from the next packet of the datagram on it gets nothing",
    "table changes during a delivery (by the handler or by another task while the handler awaits) and the iteration order of a recipient set are inputs of the "
    "transport model; generated cases are kept independent of the set order (several handlers firing on one packet only unregister)",
]
TRUSTED_EXTRA = [
    "RtcpPacket.parse / RtpPacket.parse / SRTP / DTLS are not modelled here (C07/C05); the transport component only checks that callbacks equal the router model's results",
    "Python set/dict semantics (hash by identity for the stub objects) modelled as duplicate-free lists / association lists",
]
RULE = ("histories of 0..40 operations over <=6 receivers, <=6 senders, SSRC pool of 8 values (0, 1, 2^32-1, ...), payload types pool of 7, "
        "RTCP of all six classes, REMB FCIs well-formed and malformed (truncated at every byte, count +-1/255, bad prefix); thorough adds every "
        "history of length <=5 over an 11-letter alphabet with 3 receivers and every history of length 6 over a 7-letter alphabet; transport: the same random "
        "histories plus traffic histories (bursts of 2..7 RTCP packets about the registered streams in one compound datagram, the same packet twice, RTP) with 0..3 "
        "scripted handlers (on the k-th packet handed to an endpoint: stop itself / another receiver / a sender, start a new endpoint, hand the stream over; inline, "
        "after yielding, or by another task while the handler is suspended) plus every compound datagram of 2..3 (thorough: ..4) packets over a 4-letter alphabet x "
        "every one of 16 single scripted changes; LONG histories (harness/c12long.py) about n = 60..70, 127..130, 255..257, 1000+ (thorough: ..4097, 10000) distinct "
        "streams / endpoints / cycles in five shapes (n unknown SSRCs latch, then a competing receiver and RTP / SR / BYE for every one; n SSRCs and n sender SSRCs "
        "registered on 1..n endpoints, all 128 payload types, BYE / RR / REMB with up to 255 entries, every third endpoint unregistered; n register-traffic-unregister "
        "cycles; n streams over all 128 payload types; the random mix over a pool of n SSRCs), every size x every shape on the bare router, a dozen through the transport; "
        "distinct = distinct history; nontrivial = some packet was routed to somebody")

SSRCS = [0, 1, 2, 1234, 5678, 0x7FFFFFFF, 0x80000000, 0xFFFFFFFF]
PTS = [0, 8, 96, 97, 98, 111, 127]
MIDS = [None, "", "0", "1", "a", "audio", "video"]


# ------------------------------------------------------------------------------------------------
# case <-> model line
# ------------------------------------------------------------------------------------------------

def _l(xs):
    return ",".join(str(x) for x in xs) if xs else "-"


def op_line(op):
    k = op[0]
    if k == "rr":
        mid = "n" if op[4] is None else "m" + op[4]
        return f"rr:{op[1]}:{_l(op[2])}:{_l(op[3])}:{mid}"
    if k in ("rs", "p"):
        return f"{k}:{op[1]}:{op[2]}"
    if k in ("ur", "us"):
        return f"{k}:{op[1]}"
    if k in ("sr", "rrp"):
        return f"{k}:{op[1]}:{_l(op[2])}"
    if k in ("sdes", "bye"):
        return f"{k}:{_l(op[1])}"
    if k == "fb":
        return f"fb:{op[1]}:{op[2]}:{op[3]}"
    if k == "ps":
        return f"ps:{op[1]}:{op[2]}:{op[3]}:{op[4] or '-'}"
    raise ValueError(k)


def model_line_for(ops):
    return "router run " + (";".join(op_line(o) for o in ops) if ops else "-")


# ------------------------------------------------------------------------------------------------
# reference semantics written from the property text (used by the oracle and for labels)
# ------------------------------------------------------------------------------------------------

def remb_ssrcs(fci: bytes):
    """SSRC list inside a REMB FCI per draft-alvestrand-rmcat-remb-03, or None if it is not a well-formed REMB."""
    if len(fci) < 8 or fci[0:4] != b"REMB":
        return None
    n = fci[4]
    if len(fci) < 8 + 4 * n:
        return None
    return [int.from_bytes(fci[8 + 4 * i: 12 + 4 * i], "big") for i in range(n)]


class Ref:
    def __init__(self):
        self.registered = set()   # receivers
        self.accept = {}          # receiver -> set(pt)
        self.bound = {}           # ssrc -> receiver
        self.snd = {}             # ssrc -> sender

    def step(self, op):
        """-> (expected output string, branch label)"""
        k = op[0]
        if k == "rr":
            _, r, ssrcs, pts, mid = op
            self.registered.add(r)
            self.accept.setdefault(r, set()).update(pts)
            for s in ssrcs:
                self.bound[s] = r
            return "-", "reg-receiver"
        if k == "rs":
            self.snd[op[2]] = op[1]
            return "-", "reg-sender"
        if k == "ur":
            r = op[1]
            was = r in self.registered
            self.registered.discard(r)
            self.accept.pop(r, None)
            self.bound = {s: x for s, x in self.bound.items() if x != r}
            return "-", "unreg-receiver" if was else "unreg-receiver-unknown"
        if k == "us":
            was = op[1] in self.snd.values()
            self.snd = {s: x for s, x in self.snd.items() if x != op[1]}
            return "-", "unreg-sender" if was else "unreg-sender-unknown"
        if k == "p":
            _, ssrc, pt = op
            if ssrc in self.bound:
                r = self.bound[ssrc]
                if pt in self.accept.get(r, ()):
                    return f"R{r}", "rtp-known-match"
                return "N", "rtp-known-pt-mismatch"
            acc = sorted(r for r in self.registered if pt in self.accept.get(r, ()))
            if len(acc) == 1:
                self.bound[ssrc] = acc[0]
                return f"R{acc[0]}", "rtp-latch"
            return "N", "rtp-unknown-none" if not acc else "rtp-unknown-several"
        # RTCP
        rec, snd = set(), set()
        lab = "rtcp-" + k
        if k == "sr":
            if op[1] in self.bound:
                rec.add(self.bound[op[1]])
            targets = op[2]
        elif k == "rrp":
            targets = op[2]
        elif k == "sdes":
            targets = []
        elif k == "bye":
            for s in op[1]:
                if s in self.bound:
                    rec.add(self.bound[s])
            targets = []
        elif k == "fb":
            targets = [op[3]]
        elif k == "ps":
            targets = [op[3]]
            if op[1] == 15:
                l = remb_ssrcs(bytes.fromhex(op[4]))
                if l is None:
                    lab = "rtcp-remb-malformed"
                else:
                    targets = targets + l
                    lab = "rtcp-remb"
        else:
            raise ValueError(k)
        for s in targets:
            if s in self.snd:
                snd.add(self.snd[s])
        out = [f"R{r}" for r in sorted(rec)] + [f"S{s}" for s in sorted(snd)]
        if not out:
            lab += "-nobody"
        return "ok " + (",".join(out) if out else "-"), lab


def ref_run(ops):
    ref = Ref()
    return [ref.step(o) for o in ops]


def names_of(out):
    """Recipient names in an output string (`R3`, `N`, `ok R1,S2`, `ok -`, `-`)."""
    if out in ("-", "N", "ok -") or out.startswith("crash") or out == "ValueError":
        return []
    return out.replace("ok ", "").split(",")


def ref_history(ops, scripts=(), compound=False, observed=None):
    """The property evaluated on a whole history, op by op: -> list of dicts
         want   expected output           label  branch
         reg_r / reg_s   receivers / senders registered when the operation starts (i.e. AFTER every table change that
                         preceded it, including the ones made during earlier deliveries of the same datagram)
         stale  what a routing decision taken when the datagram ARRIVED would have been (None for a datagram's first
                packet and for non-RTCP operations)
         fired  number of scripted table changes triggered by the deliveries of this operation
         maybe  recipients that another recipient of the SAME packet unregisters while handling it: the recipient set of
                one packet is computed once, so they get this packet too -- unless the implementation re-checks the
                registration before every single delivery, which the property permits just as well
    `observed` (oracle): the outputs of the implementation; the stubs change the tables on the deliveries that really
    happened, so these -- not the demanded ones -- drive the scripted table changes.
    `scripts`: [kind, id, nth, table ops, mode, yields] -- while endpoint (kind, id) handles the nth packet handed to it,
    the table ops are performed (by whom / after how many suspensions is irrelevant for what the property demands)."""
    import copy
    ref = Ref()
    seen = {}
    fire = {}
    for kind, i, nth, tops, _mode, _yields in scripts:
        fire.setdefault((f"{kind}{i}", nth), []).extend(tops)
    res = []
    reg = None      # (registered receivers, registered senders), shared by the entries until a table operation changes them
    for group in datagrams(ops, compound):
        snap = copy.deepcopy(ref) if len(group) > 1 else None
        for j, op in enumerate(group):
            if op[0] in ("rr", "rs", "ur", "us"):
                cur = (frozenset(), frozenset())       # nothing is routed by a table operation
            else:
                if reg is None:
                    reg = (frozenset(ref.registered), frozenset(ref.snd.values()))
                cur = reg
            entry = {"reg_r": cur[0], "reg_s": cur[1], "stale": None, "fired": 0, "firing": [], "maybe": set()}
            if snap is not None and j > 0:
                entry["stale"] = copy.deepcopy(snap).step(op)[0]
            entry["want"], entry["label"] = ref.step(op)
            if op[0] in ("rr", "rs", "ur", "us"):
                reg = None
            else:
                delivered = names_of(entry["want"])
                if observed is not None and len(res) < len(observed):
                    delivered = sorted(set(x for x in names_of(observed[len(res)]) if x[:1] in "RS" and x[1:].isdigit()))
                for nm in delivered:
                    seen[nm] = seen.get(nm, 0) + 1
                    tops = fire.get((nm, seen[nm]), [])
                    if tops:
                        entry["firing"].append((nm, seen[nm], tops))
                for nm, _n, tops in entry["firing"]:
                    for t in tops:
                        reg = None
                        ref.step(t)
                        entry["fired"] += 1
                        gone = {"ur": "R", "us": "S"}.get(t[0])
                        if gone and f"{gone}{t[1]}" != nm:
                            entry["maybe"].add(f"{gone}{t[1]}")
            res.append(entry)
    return res


# ------------------------------------------------------------------------------------------------
# implementation side
# ------------------------------------------------------------------------------------------------

class StubReceiver:
    """Stand-in for RTCRtpReceiver. `ctx` (transport runs only) scripts what the handler does to the routing tables."""

    def __init__(self, i, log=None, ctx=None):
        self.i = i
        self.log = log
        self.ctx = ctx

    def _handle_disconnect(self):
        pass

    async def _handle_rtcp_packet(self, packet):
        self.log.append(("R", self.i, packet))
        if self.ctx is not None:
            await self.ctx.handler_body("R", self.i)

    async def _handle_rtp_packet(self, packet, arrival_time_ms):
        self.log.append(("R", self.i, packet))
        if self.ctx is not None:
            await self.ctx.handler_body("R", self.i)


class StubSender:
    def __init__(self, i, log=None, ctx=None):
        self.i = i
        self._ssrc = None
        self.log = log
        self.ctx = ctx

    async def _handle_rtcp_packet(self, packet):
        self.log.append(("S", self.i, packet))
        if self.ctx is not None:
            await self.ctx.handler_body("S", self.i)


def _exc_tag(exc):
    import struct
    if isinstance(exc, ValueError):
        return "ValueError"
    if isinstance(exc, struct.error):
        return "crash struct.error"
    return "crash " + type(exc).__name__


def make_rtcp(op):
    from aiortc import rtp
    k = op[0]

    def info(x):
        return rtp.RtcpReceiverInfo(ssrc=x, fraction_lost=x % 256, packets_lost=(x % 1000) - 500, highest_sequence=x,
                                    jitter=x % 777, lsr=0, dlsr=0)
    if k == "sr":
        return rtp.RtcpSrPacket(ssrc=op[1], sender_info=rtp.RtcpSenderInfo(ntp_timestamp=(op[1] << 8) + 7, rtp_timestamp=op[1] ^ 5,
                                                                           packet_count=3, octet_count=400),
                                reports=[info(x) for x in op[2]])
    if k == "rrp":
        return rtp.RtcpRrPacket(ssrc=op[1], reports=[info(x) for x in op[2]])
    if k == "sdes":
        return rtp.RtcpSdesPacket(chunks=[rtp.RtcpSourceInfo(ssrc=x, items=[(1, b"cn%d" % (x % 10))]) for x in op[1]])
    if k == "bye":
        return rtp.RtcpByePacket(sources=list(op[1]))
    if k == "fb":
        return rtp.RtcpRtpfbPacket(fmt=op[1], ssrc=op[2], media_ssrc=op[3], lost=[op[2] % 65536] if op[1] == 1 else [])
    if k == "ps":
        return rtp.RtcpPsfbPacket(fmt=op[1], ssrc=op[2], media_ssrc=op[3], fci=bytes.fromhex(op[4]))
    raise ValueError(k)


def dump_state(router):
    def i(x):
        return str(x.i)
    recv = sorted(x.i for x in router.receivers)
    snd = sorted((k, v.i) for k, v in router.senders.items())
    mid = sorted((k, v.i) for k, v in router.mid_table.items())
    ssrc = sorted((k, v.i) for k, v in router.ssrc_table.items())
    pt = sorted((k, sorted(x.i for x in v)) for k, v in router.payload_type_table.items())
    return ("recv=" + _l(recv)
            + " snd=" + (",".join(f"{k}>{v}" for k, v in snd) or "-")
            + " mid=" + (",".join(f"{k}>{v}" for k, v in mid) or "-")
            + " ssrc=" + (",".join(f"{k}>{v}" for k, v in ssrc) or "-")
            + " pt=" + (",".join(f"{k}>" + "+".join(str(x) for x in v) for k, v in pt) or "-"))


def show_recipients(items):
    rs = sorted(x.i for x in items if isinstance(x, StubReceiver))
    ss = sorted(x.i for x in items if isinstance(x, StubSender))
    out = [f"R{r}" for r in rs] + [f"S{s}" for s in ss]
    return ",".join(out) if out else "-"


def run_router(ops):
    from aiortc.rtcdtlstransport import RtpRouter
    from aiortc import rtp
    router = RtpRouter()
    recv, snd = {}, {}
    outs = []
    for op in ops:
        k = op[0]
        try:
            if k == "rr":
                r = recv.setdefault(op[1], StubReceiver(op[1]))
                router.register_receiver(r, ssrcs=list(op[2]), payload_types=list(op[3]), mid=op[4])
                outs.append("-")
            elif k == "rs":
                s = snd.setdefault(op[1], StubSender(op[1]))
                router.register_sender(s, ssrc=op[2])
                outs.append("-")
            elif k == "ur":
                router.unregister_receiver(recv.setdefault(op[1], StubReceiver(op[1])))
                outs.append("-")
            elif k == "us":
                router.unregister_sender(snd.setdefault(op[1], StubSender(op[1])))
                outs.append("-")
            elif k == "p":
                res = router.route_rtp(rtp.RtpPacket(payload_type=op[2], ssrc=op[1], sequence_number=len(outs) % 65536))
                outs.append("N" if res is None else f"R{res.i}")
            else:
                res = router.route_rtcp(make_rtcp(op))
                if not isinstance(res, (set, frozenset)):
                    outs.append("crash not-a-set")
                else:
                    outs.append("ok " + show_recipients(res))
        except Exception as exc:  # noqa: BLE001 - every escaping exception is an observable outcome
            outs.append(_exc_tag(exc))
    return ";".join(outs) + "|" + dump_state(router)


# ---- transport level ---------------------------------------------------------------------------

class _Ice:
    def __init__(self):
        self.queue = []

    async def _recv(self):
        return self.queue.pop(0)

    async def _send(self, data):
        pass


class _Srtp:
    def unprotect(self, data):
        return data

    def unprotect_rtcp(self, data):
        return data


def wire_rtcp(op):
    """Serialise one RTCP packet; PSFB with an FCI that is not a multiple of 4 uses RTCP padding."""
    import struct
    if op[0] == "ps" and (len(op[4]) // 2) % 4:
        fci = bytes.fromhex(op[4])
        payload = struct.pack("!LL", op[2], op[3]) + fci
        pad = 4 - len(payload) % 4
        payload += b"\x00" * (pad - 1) + bytes([pad])
        return struct.pack("!BBH", 0x80 | 0x20 | op[1], 206, len(payload) // 4) + payload
    return bytes(make_rtcp(op))


_LOOP = None


def _loop():
    global _LOOP
    if _LOOP is None:
        import asyncio
        _LOOP = asyncio.new_event_loop()
    return _LOOP


RTCP_KINDS = ("sr", "rrp", "sdes", "bye", "fb", "ps")


def datagrams(ops, compound):
    """Top-level items of a transport history: [op] for a table operation / an RTP datagram, a list of RTCP ops for one
    (compound) RTCP datagram. With `compound`, consecutive RTCP operations travel in ONE datagram."""
    items, i = [], 0
    while i < len(ops):
        group = [ops[i]]
        if compound and ops[i][0] in RTCP_KINDS:
            while i + len(group) < len(ops) and ops[i + len(group)][0] in RTCP_KINDS:
                group.append(ops[i + len(group)])
        items.append(group)
        i += len(group)
    return items


def attribute(got, pkts):
    """Which log entries belong to which packet of the datagram -> per-packet list of (kind, id), or an error string.
    Entries for the packet object that was handed over last belong to the same packet; otherwise the next packet of
    the datagram that equals it (identical packets may occur twice in a datagram), otherwise any equal packet."""
    per = [[] for _ in pkts]
    cur, prev = -1, None
    for kind, i, o in got:
        idx = cur if (prev is not None and o is prev) else None
        if idx is None:
            idx = next((j for j in range(cur + 1, len(pkts)) if pkts[j] == o), None)
        if idx is None:
            idx = next((j for j in range(len(pkts)) if pkts[j] == o and (kind, i) not in per[j]), None)
        if idx is None:
            return "crash stray-callback"
        per[idx].append((kind, i))
        cur, prev = max(cur, idx), o
    if any(len(set(x)) != len(x) for x in per):
        return "crash duplicate-callback"
    return per


class _TransportRun:
    """One history through a real RTCDtlsTransport (stub ICE transport, identity SRTP session). Receivers / senders are
    stubs whose handlers follow `scripts`: while endpoint (kind, id) handles the nth packet handed to it, table operations
    are performed -- by the handler itself (`inline`), by the handler after it yielded to the event loop (`yield`), or by
    ANOTHER task while the handler is suspended (`task`)."""

    def __init__(self, scripts):
        from aiortc.rtcdtlstransport import RTCDtlsTransport
        self.ice = _Ice()
        self.dtls = RTCDtlsTransport(self.ice, [object()])
        self.dtls.encrypted = True
        self.dtls._rx_srtp = _Srtp()
        self.log = []
        self.recv, self.snd = {}, {}
        self.seen = {}
        self.fire = {}
        for kind, i, nth, tops, mode, yields in scripts:
            self.fire.setdefault((kind, i, nth), []).append((tops, mode, yields))
        self.loop = _loop()

    def receiver(self, i):
        return self.recv.setdefault(i, StubReceiver(i, self.log, self))

    def sender(self, i):
        return self.snd.setdefault(i, StubSender(i, self.log, self))

    def table_op(self, op):
        from aiortc.rtcrtpparameters import (RTCRtpCodecParameters, RTCRtpDecodingParameters, RTCRtpReceiveParameters,
                                             RTCRtpSendParameters)
        k = op[0]
        if k == "rr":
            params = RTCRtpReceiveParameters(
                codecs=[RTCRtpCodecParameters(mimeType="video/x", clockRate=90000, payloadType=pt) for pt in op[3]],
                encodings=[RTCRtpDecodingParameters(ssrc=x, payloadType=(op[3][0] if op[3] else 0)) for x in op[2]],
                muxId=op[4] or "")
            self.dtls._register_rtp_receiver(self.receiver(op[1]), params)
        elif k == "rs":
            # a sender object has one _ssrc: a sender id registered on another SSRC is re-registered with the new one
            snd = self.sender(op[1])
            snd._ssrc = op[2]
            self.dtls._register_rtp_sender(snd, RTCRtpSendParameters())
        elif k == "ur":
            self.dtls._unregister_rtp_receiver(self.receiver(op[1]))
        elif k == "us":
            self.dtls._unregister_rtp_sender(self.sender(op[1]))
        else:
            raise ValueError(k)

    async def handler_body(self, kind, i):
        import asyncio
        n = self.seen[(kind, i)] = self.seen.get((kind, i), 0) + 1
        for tops, mode, yields in self.fire.get((kind, i, n), ()):
            if mode == "inline":
                for t in tops:
                    self.table_op(t)
            elif mode == "yield":
                for _ in range(yields):
                    await asyncio.sleep(0)
                for t in tops:
                    self.table_op(t)
                for _ in range(yields):
                    await asyncio.sleep(0)
            else:
                busy, resume = asyncio.Event(), asyncio.Event()

                async def other(tops=tops, yields=yields, busy=busy, resume=resume):
                    await busy.wait()
                    try:
                        for _ in range(yields):
                            await asyncio.sleep(0)
                        for t in tops:
                            self.table_op(t)
                    finally:
                        resume.set()

                task = asyncio.ensure_future(other())
                await asyncio.sleep(0)
                busy.set()              # "I am busy with this packet" ...
                await resume.wait()     # ... and the other task stops / starts endpoints meanwhile
                await task

    def feed(self, data):
        import asyncio
        self.ice.queue.append(data)
        del self.log[:]
        self.loop.run_until_complete(asyncio.wait_for(self.dtls._recv_next(), 20))
        return list(self.log)

    def run(self, ops, compound):
        from aiortc import rtp
        outs = []
        n = 0
        for group in datagrams(ops, compound):
            op = group[0]
            k = op[0]
            try:
                if k in ("rr", "rs", "ur", "us"):
                    self.table_op(op)
                    outs.append("-")
                elif k == "p":
                    seq = n % 65536
                    pkt = rtp.RtpPacket(payload_type=op[2], ssrc=op[1], sequence_number=seq, timestamp=seq * 3, payload=b"x" * (n % 5),
                                        marker=1 if (op[2] < 64 or op[2] > 80) and n % 3 == 0 else 0)
                    got = self.feed(pkt.serialize())
                    bad = [g for g in got if not (g[0] == "R" and g[2].ssrc == op[1] and g[2].payload_type == op[2]
                                                    and g[2].sequence_number == seq)]
                    if bad or len(got) > 1:
                        outs.append("crash callbacks:" + ",".join(f"{g[0]}{g[1]}" for g in got))
                    else:
                        outs.append(f"R{got[0][1]}" if got else "N")
                else:
                    pkts = [make_rtcp(g) for g in group]
                    try:
                        got = self.feed(b"".join(wire_rtcp(g) for g in group))
                        exc = None
                    except Exception as e:  # noqa: BLE001
                        got, exc = list(self.log), e
                    per = attribute(got, pkts)
                    if isinstance(per, str):
                        outs.extend(["ok -"] * (len(pkts) - 1) + [per])
                    else:
                        for who in per:
                            if exc is not None and not who:
                                outs.append(_exc_tag(exc))
                            else:
                                names = [f"R{x}" for x in sorted(b for a, b in who if a == "R")] + \
                                        [f"S{x}" for x in sorted(b for a, b in who if a == "S")]
                                outs.append("ok " + (",".join(names) if names else "-"))
            except Exception as exc:  # noqa: BLE001
                outs.append(_exc_tag(exc))
            n += len(group)
        return outs


def run_transport(ops, compound, scripts=()):
    """Same history through RTCDtlsTransport; consecutive RTCP ops form one compound datagram if `compound`."""
    t = _TransportRun(scripts)
    outs = t.run(ops, compound)
    return ";".join(outs) + "|" + dump_state(t.dtls._rtp_router)


# ------------------------------------------------------------------------------------------------
# generators
# ------------------------------------------------------------------------------------------------

def gen_fci(rng):
    from aiortc import rtp
    n = rng.choice([0, 1, 1, 2, 3])
    good = rtp.pack_remb_fci(rng.choice([0, 1, 0x3FFFF, 0x40000, 10 ** 6, 2 ** 40]), [rng.choice(SSRCS) for _ in range(n)])
    mode = rng.randrange(10)
    if mode < 5:
        return good
    if mode == 5:
        return good[:rng.randrange(len(good) + 1)]                       # truncated anywhere
    if mode == 6:
        b = bytearray(good)
        b[4] = rng.choice([(n + 1) % 256, (n - 1) % 256, 255, 0, 64])     # count field wrong
        return bytes(b)
    if mode == 7:
        b = bytearray(good)
        b[rng.randrange(4)] ^= 1 << rng.randrange(8)                      # bad prefix
        return bytes(b)
    if mode == 8:
        return good + bytes(rng.randrange(256) for _ in range(rng.choice([1, 4, 5])))   # trailing garbage
    return bytes(rng.randrange(256) for _ in range(rng.choice([0, 4, 7, 8, 12])))


def gen_op(rng, nr, ns, ssrcs, pts):
    x = rng.random()

    def some(pool, lo, hi):
        return [rng.choice(pool) for _ in range(rng.randint(lo, hi))]
    if x < 0.16:
        return ["rr", rng.randrange(nr), some(ssrcs, 0, 2), some(pts, 0, 3), rng.choice(MIDS)]
    if x < 0.24:
        return ["rs", rng.randrange(ns), rng.choice(ssrcs)]
    if x < 0.31:
        return ["ur", rng.randrange(nr)]
    if x < 0.36:
        return ["us", rng.randrange(ns)]
    if x < 0.64:
        return ["p", rng.choice(ssrcs), rng.choice(pts)]
    k = rng.choice(["sr", "rrp", "sdes", "bye", "fb", "ps", "ps", "ps"])
    if k in ("sr", "rrp"):
        return [k, rng.choice(ssrcs), some(ssrcs, 0, 3)]
    if k in ("sdes", "bye"):
        return [k, some(ssrcs, 0, 3)]
    if k == "fb":
        return ["fb", rng.choice([1, 1, 15, 3]), rng.choice(ssrcs), rng.choice(ssrcs)]
    fmt = rng.choice([15, 15, 15, 1, 2, 3, 4])
    fci = gen_fci(rng) if fmt == 15 or rng.random() < 0.3 else b""
    return ["ps", fmt, rng.choice(ssrcs), rng.choice([0, 0, rng.choice(ssrcs)]), fci.hex()]


def gen_history(rng, maxlen):
    """Small pools so that SSRC / payload-type sets overlap; usually a registration phase first."""
    nr = rng.choice([1, 2, 2, 3, 3, 6])
    ns = rng.choice([1, 2, 3, 6])
    ssrcs = rng.sample(SSRCS, rng.choice([2, 3, 3, 4, 8]))
    pts = rng.sample(PTS, rng.choice([1, 2, 2, 3, 7]))
    n = rng.randint(0, maxlen)
    ops = []
    if rng.random() < 0.7:
        for _ in range(rng.randint(1, 4)):
            if rng.random() < 0.65:
                ops.append(["rr", rng.randrange(nr), [rng.choice(ssrcs) for _ in range(rng.choice([0, 0, 1, 1, 2]))],
                            [rng.choice(pts) for _ in range(rng.choice([1, 1, 2, 3]))], rng.choice(MIDS)])
            else:
                ops.append(["rs", rng.randrange(ns), rng.choice(ssrcs)])
    while len(ops) < n:
        ops.append(gen_op(rng, nr, ns, ssrcs, pts))
    return ops


ALPHABET = [
    ["rr", 0, [1], [96], None], ["rr", 1, [2], [96], "a"], ["rr", 2, [1], [97], "a"], ["rr", 0, [], [97], None],
    ["ur", 0], ["ur", 1], ["ur", 2],
    ["p", 1, 96], ["p", 3, 96], ["p", 3, 97], ["bye", [1, 3]],
]

ALPHABET6 = [
    ["rr", 0, [], [96], None], ["rr", 1, [1], [96], None], ["ur", 0], ["ur", 1], ["p", 1, 96], ["p", 3, 96], ["sr", 3, []],
]

CORPUS = [
    # REMB whose SSRC count exceeds its length: struct.error escaped route_rtcp before fixes/C12-remb-truncated-fci.patch
    [["rs", 0, 0], ["ps", 15, 1, 0, "52454d42010003e8"]],
    [["rs", 0, 5678], ["rs", 1, 1234], ["ps", 15, 1, 5678, "52454d42020003e8000004d2"]],
    # well-formed REMB reaches the senders in the FCI, media_ssrc 0
    [["rs", 0, 1234], ["rs", 1, 5678], ["rs", 2, 0], ["ps", 15, 9, 0, "52454d42020003e8000004d20000162e"]],
    # latch, stick, unregister, re-latch to another receiver
    [["rr", 0, [], [96], None], ["p", 7, 96], ["rr", 1, [], [96], None], ["p", 7, 96], ["p", 8, 96], ["ur", 0], ["p", 7, 96], ["p", 8, 96]],
    # SSRC stolen by a later registration; unregistering the first owner must not unbind it
    [["rr", 0, [1], [96], "a"], ["rr", 1, [1], [96], "a"], ["ur", 0], ["p", 1, 96], ["sr", 1, [1]], ["bye", [1]]],
    # sender on two SSRCs, unregistered once
    [["rs", 0, 1], ["rs", 0, 2], ["rs", 1, 1], ["rrp", 9, [1, 2]], ["us", 0], ["rrp", 9, [1, 2]], ["sr", 9, [2, 1]]],
    [],
]


# ------------------------------------------------------------------------------------------------
# components
# ------------------------------------------------------------------------------------------------

def _shrink_ops(ops):
    n = len(ops)
    # drop halves, then single ops
    if n > 3:
        yield ops[: n // 2]
        yield ops[n // 2:]
    for i in range(n):
        yield ops[:i] + ops[i + 1:]
    # simplify inside ops
    for i, op in enumerate(ops):
        for j, f in enumerate(op):
            if isinstance(f, list) and f:
                for t in range(len(f)):
                    yield ops[:i] + [op[:j] + [f[:t] + f[t + 1:]] + op[j + 1:]] + ops[i + 1:]
        if op[0] == "rr" and op[4] is not None:
            yield ops[:i] + [op[:4] + [None]] + ops[i + 1:]
        if op[0] == "ps" and len(op[4]) >= 2:
            yield ops[:i] + [op[:4] + [op[4][:-2]]] + ops[i + 1:]


def _long_suffix(case):
    if "long" not in case:
        return ""
    return "+long-" + case["long"].split("/")[0] + "(" + c12long.bucket(case["ops"]) + ")"


def long_cases(rng, tier, transport):
    """Histories about MANY streams / endpoints / payload types / cycles (harness/c12long.py): the tables pass every size up to
    n in {60..70, 127..130, 255..257, 1000+} and every entry is probed afterwards. Bare router: every size x every shape (cheap,
    thousands of operations per case); transport: a few of them, through serialised packets and the stub endpoints' callbacks,
    some with a handler that changes the tables on its 2nd..n-th packet."""
    sizes = c12long.SIZES[tier]
    out = []
    if not transport:
        reps = 1 if tier == "quick" else 3
        for _ in range(reps):
            for n in sizes:
                for shape in c12long.SHAPES:
                    out.append({"ops": c12long.gen_long(rng, shape, n, gen_op), "long": f"{shape}/{n}"})
        for n in ([1000, 1030] if tier == "quick" else [6000, 10000]):
            out.append({"ops": c12long.gen_long(rng, "latch", n, gen_op), "long": f"latch/{n}"})
            out.append({"ops": c12long.gen_long(rng, "registered", n, gen_op), "long": f"registered/{n}"})
        return out
    picks = [(shape, rng.choice(sizes[:11])) for shape in c12long.SHAPES] + \
            [(shape, rng.choice(sizes[11:18])) for shape in c12long.SHAPES] + [("latch", 1001)]
    if tier == "thorough":
        picks += [(shape, n) for shape in c12long.SHAPES for n in rng.sample(sizes, 8)]
    for shape, n in picks:
        ops = c12long.gen_long(rng, shape, n, gen_op)
        scripts = []
        if rng.random() < 0.4:
            who = ("R", 0) if rng.random() < 0.7 else ("S", 0)
            nth = rng.choice([2, 30, 63, 64, 65, 66, 100, 128, 129, max(2, n // 2)])
            scripts = [[who[0], who[1], nth, gen_table_change(rng, who, 2, 2, SSRCS, PTS), rng.choice(MODES), rng.choice([0, 1, 3])]]
        out.append({"ops": ops, "compound": n <= 130 and rng.random() < 0.5, "rev": rng.randrange(2), "scripts": scripts, "long": f"{shape}/{n}"})
    return out


class Router(Component):
    name = "router"
    theorems = ["reachable_wf", "register_receiver_spec", "unregister_receiver_spec", "register_sender_spec", "unregister_sender_spec",
                "route_rtp_spec", "route_rtp_none_iff", "route_rtp_state", "route_rtp_binds", "route_rtp_registered", "latch_sticks",
                "rtp_after_latch", "route_rtcp_spec", "route_rtcp_never_raises", "route_rtcp_registered",
                "rembList_of_isRemb", "rembList_of_not_isRemb", "route_rtcp_remb",
                "unregistered_receiver_is_gone", "unregistered_sender_is_gone", "history_spec",
                "many_streams_all_latch", "many_streams_stick", "ssrc_table_unbounded", "many_senders_all_reachable"]

    def corpus(self):
        return [{"ops": ops} for ops in CORPUS]

    def cases(self, rng, tier):
        out = []
        n = 2500 if tier == "quick" else 60000
        for _ in range(n):
            out.append({"ops": gen_history(rng, rng.choice([4, 10, 25, 40]))})
        # every REMB truncation / count
        from aiortc import rtp
        good = rtp.pack_remb_fci(123456, [1234, 5678])
        for cut in range(len(good) + 1):
            out.append({"ops": [["rs", 0, 1234], ["rs", 1, 5678], ["rs", 2, 0], ["ps", 15, 1, 0, good[:cut].hex()]]})
        for cnt in (0, 1, 2, 3, 4, 255):
            b = bytearray(good)
            b[4] = cnt
            out.append({"ops": [["rs", 0, 1234], ["rs", 1, 5678], ["rs", 2, 0], ["ps", 15, 1, 0, bytes(b).hex()]]})
        out.extend(long_cases(rng, tier, transport=False))
        if tier == "thorough":
            # exhaustive: every history of length <= 5 over ALPHABET, every history of length 6 over ALPHABET6
            for L in range(1, 6):
                for hist in itertools.product(ALPHABET, repeat=L):
                    out.append({"ops": list(hist)})
            for hist in itertools.product(ALPHABET6, repeat=6):
                out.append({"ops": list(hist)})
        return out

    def model_line(self, case):
        return model_line_for(case["ops"])

    def impl(self, case):
        return run_router(case["ops"])

    def _model_ops(self, case):
        return case["ops"]

    def _ref(self, case, observed=None):
        return ref_history(self._model_ops(case))

    def oracle(self, case, impl_out):
        ops = self._model_ops(case)
        if impl_out.startswith("HARNESS-EXC"):
            return None     # the harness could not drive the implementation: a broken correspondence, not a failing input
        if "|" not in impl_out:
            return "implementation run failed: " + impl_out[:200]
        outs = impl_out.split("|", 1)[0]
        outs = outs.split(";") if ops else []
        if len(outs) != len(ops):
            return f"{len(outs)} outputs for {len(ops)} operations"
        for n, (op, got, e) in enumerate(zip(ops, outs, self._ref(case, outs))):
            want = e["want"]
            if got.startswith("crash") or got == "ValueError":
                return f"op {n} {op}: {got} escaped (expected {want})"
            # "once unregistered nothing is routed to it again": judged on the registrations as they are when the
            # packet's turn comes, i.e. after every table change that preceded it
            for nm in names_of(got):
                if nm[0] == "R" and int(nm[1:]) not in e["reg_r"]:
                    return f"op {n} {op}: routed to receiver {nm[1:]} which is not registered" + self._why(case, n, nm)
                if nm[0] == "S" and int(nm[1:]) not in e["reg_s"]:
                    return f"op {n} {op}: routed to sender {nm[1:]} which is not registered" + self._why(case, n, nm)
            if got != want:
                g, w = set(names_of(got)), set(names_of(want))
                if got[:2] == want[:2] == "ok" and g <= w and w - g <= e["maybe"]:
                    continue
                return f"op {n} {op}: routed to [{got}], the property demands [{want}]"
        return None

    def _why(self, case, n, nm):
        return ""

    def label(self, case, impl_out):
        r = self._ref(case)
        if not r:
            return "empty"
        return r[-1]["label"] + _long_suffix(case)

    def nontrivial(self, case, impl_out):
        return any(e["want"] not in ("-", "N", "ok -") for e in self._ref(case))

    def _fix(self, case):
        return case

    def _premin(self, case):
        """Long failing histories: cut behind the first failing operation, then delta-debug chunks of decreasing size (the
        one-op-at-a-time candidates below would spend the whole budget on a long essential prefix)."""
        import re
        if len(case["ops"]) <= 30 or case.get("dd"):
            return None                 # short, or already delta-debugged (the mark is inherited by the candidates derived from it)

        def fails(ops):
            c = self._fix(dict(case, ops=ops))
            return self.oracle(c, self.impl(c))
        what = fails(case["ops"])
        if not what:
            return None
        ops = case["ops"]
        m = re.match(r"op (\d+) ", what)
        if m and int(m.group(1)) + 1 < len(ops) and fails(ops[: int(m.group(1)) + 1]):
            ops = ops[: int(m.group(1)) + 1]
        ops = c12long.ddmin(ops, fails)
        return self._fix(dict(case, ops=ops, dd=1))

    def shrink(self, case):
        small = self._premin(case)
        if small is not None:
            yield small
        for ops in _shrink_ops(case["ops"]):
            yield dict(case, ops=ops)


MODES = ["inline", "yield", "task"]


def _norm_op(op):
    # through the transport: muxId "" instead of None; the SSRC list is de-duplicated (order is irrelevant);
    # a sender object carries ONE _ssrc, registering it again uses the new value (same as the router op)
    if op[0] == "rr":
        return op[:4] + [op[4] or ""]
    return op


def _norm_scripts(scripts):
    return [[k, i, nth, [_norm_op(t) for t in tops], mode, y] for k, i, nth, tops, mode, y in scripts]


def sanitize(case):
    """The set returned by route_rtcp is walked in hash order. Keep a case independent of that order: when the deliveries
    of ONE packet trigger the scripts of several of its recipients, these must commute -- all of them only unregister;
    otherwise all but the first firing script of that packet are dropped from the case."""
    case = dict(case, ops=_wire_ok(case["ops"]), scripts=[list(x) for x in case.get("scripts", [])])
    for _ in range(50):
        drop = None
        for e in ref_history([_norm_op(o) for o in case["ops"]], _norm_scripts(case["scripts"]), case.get("compound", False)):
            f = e["firing"]
            if len(f) > 1 and any(t[0] in ("rr", "rs") for _nm, _n, tops in f for t in tops):
                drop = {(nm, n) for nm, n, _t in f[1:]}
                break
        if drop is None:
            return case
        case["scripts"] = [x for x in case["scripts"] if (f"{x[0]}{x[1]}", x[2]) not in drop]
    case["scripts"] = []
    return case


def gen_table_change(rng, who, nr, ns, ssrcs, pts):
    """What a handler (or a task running while it awaits) does to the tables."""
    kind, i = who
    x = rng.random()

    def some(pool, lo, hi):
        return [rng.choice(pool) for _ in range(rng.randint(lo, hi))]
    if x < 0.40:                                        # stop myself
        return [["ur", i] if kind == "R" else ["us", i]]
    if x < 0.55:                                        # stop somebody else
        return [["ur", rng.randrange(nr + 1)] if rng.random() < 0.5 else ["us", rng.randrange(ns + 1)]]
    if x < 0.70:                                        # start a new / restart an existing endpoint
        if rng.random() < 0.5:
            return [["rr", rng.randrange(nr + 2), some(ssrcs, 0, 2), some(pts, 1, 2), rng.choice(MIDS)]]
        return [["rs", rng.randrange(ns + 2), rng.choice(ssrcs)]]
    if x < 0.90:                                        # replace myself: stop, and another endpoint takes the stream over
        if kind == "R":
            return [["ur", i], ["rr", nr + rng.randrange(2), some(ssrcs, 1, 2), some(pts, 1, 2), rng.choice(MIDS)]]
        return [["us", i], ["rs", ns + rng.randrange(2), rng.choice(ssrcs)]]
    return [t for _ in range(rng.randint(0, 3)) for t in gen_table_change(rng, who, nr, ns, ssrcs, pts)][:4]      # several things / nothing


def gen_scripts(rng, nr, ns, ssrcs, pts, count):
    out = []
    for _ in range(count):
        who = ("R", rng.randrange(nr + 1)) if rng.random() < 0.5 else ("S", rng.randrange(ns + 1))
        out.append([who[0], who[1], rng.choice([1, 1, 1, 2, 2, 3, 4]), gen_table_change(rng, who, nr, ns, ssrcs, pts),
                    rng.choice(MODES), rng.choice([0, 1, 1, 3])])
    return out


def gen_traffic_history(rng):
    """Endpoints are registered first, then bursts of RTCP about THEIR streams (several packets for the same endpoint
    in a row = one compound datagram), RTP, and top-level table operations; handlers change the tables meanwhile."""
    nr, ns = rng.choice([1, 2, 3]), rng.choice([1, 2, 3])
    ssrcs = rng.sample(SSRCS, rng.choice([2, 3, 4]))
    pts = rng.sample(PTS, rng.choice([1, 2, 3]))
    ops = []
    for r in range(nr):
        ops.append(["rr", r, [rng.choice(ssrcs) for _ in range(rng.choice([0, 1, 1, 2]))], [rng.choice(pts) for _ in range(rng.choice([1, 1, 2]))],
                    rng.choice(MIDS)])
    for x in range(ns):
        ops.append(["rs", x, rng.choice(ssrcs)])
    rng.shuffle(ops)

    def rtcp():
        k = rng.choice(["sr", "sr", "bye", "bye", "rrp", "rrp", "fb", "ps", "remb", "sdes"])
        if k in ("sr", "rrp"):
            return [k, rng.choice(ssrcs), [rng.choice(ssrcs) for _ in range(rng.choice([0, 1, 1, 2]))]]
        if k == "bye":
            return ["bye", [rng.choice(ssrcs) for _ in range(rng.choice([1, 1, 2]))]]
        if k == "sdes":
            return ["sdes", [rng.choice(ssrcs)]]
        if k == "fb":
            return ["fb", rng.choice([1, 15]), rng.choice(ssrcs), rng.choice(ssrcs)]
        if k == "ps":
            return ["ps", rng.choice([1, 2, 4]), rng.choice(ssrcs), rng.choice(ssrcs), ""]
        from aiortc import rtp
        return ["ps", 15, rng.choice(ssrcs), 0, rtp.pack_remb_fci(rng.choice([1, 10 ** 6]), [rng.choice(ssrcs) for _ in range(rng.choice([1, 2]))]).hex()]
    for _ in range(rng.randint(1, 4)):
        x = rng.random()
        if x < 0.65:
            burst = [rtcp() for _ in range(rng.choice([2, 2, 3, 3, 4, 6]))]
            if rng.random() < 0.3:
                burst.insert(rng.randrange(len(burst) + 1), list(rng.choice(burst)))     # the same packet twice
            ops.extend(burst)
        elif x < 0.85:
            ops.append(["p", rng.choice(ssrcs), rng.choice(pts)])
        else:
            ops.append(gen_op(rng, nr, ns, ssrcs, pts))
    return {"ops": ops, "compound": rng.random() < 0.85, "rev": rng.randrange(2),
            "scripts": gen_scripts(rng, nr - 1, ns - 1, ssrcs, pts, rng.choice([1, 1, 2, 3]))}


# every short compound datagram x every single scripted change, on a fixed registration (receiver 0: SSRC 1 / PT 96, sender 0: SSRC 2)
SMALL_SETUP = [["rr", 0, [1], [96], None], ["rs", 0, 2]]
SMALL_PACKETS = [["bye", [1]], ["sr", 1, [2]], ["rrp", 9, [2]], ["fb", 1, 9, 2]]
SMALL_CHANGES = [[["ur", 0]], [["us", 0]], [["ur", 0], ["rr", 1, [1], [96], None]], [["us", 0], ["rs", 1, 2]]]


def small_cases(maxlen):
    out = []
    n = 0
    for L in range(2, maxlen + 1):
        for dg in itertools.product(SMALL_PACKETS, repeat=L):
            for who in (("R", 0), ("S", 0)):
                for nth in (1, 2):
                    for ch in SMALL_CHANGES:
                        n += 1
                        out.append({"ops": SMALL_SETUP + [list(x) for x in dg] + [["p", 1, 96]], "compound": True, "rev": n % 2,
                                    "scripts": [[who[0], who[1], nth, ch, MODES[n % 3], n % 2]]})
    return out


TRANSPORT_CORPUS = [
    # the receiver stops itself on the BYE; the SR behind it in the same datagram must not reach it
    {"ops": [["rr", 0, [1], [96], None], ["bye", [1]], ["sr", 1, []], ["sr", 1, []]], "compound": True, "rev": 0,
     "scripts": [["R", 0, 1, [["ur", 0]], "inline", 0]]},
    # another task stops the sender while its handler awaits on the RR; NACK and PLI behind it must not reach it
    {"ops": [["rs", 0, 2], ["rrp", 1, [2]], ["fb", 1, 1, 2], ["ps", 1, 1, 2, ""]], "compound": True, "rev": 1,
     "scripts": [["S", 0, 1, [["us", 0]], "task", 1]]},
    # ... and a sender started by that task for the same SSRC gets the rest of the datagram
    {"ops": [["rs", 0, 2], ["rrp", 1, [2]], ["fb", 1, 1, 2], ["ps", 1, 1, 2, ""]], "compound": True, "rev": 0,
     "scripts": [["S", 0, 1, [["us", 0], ["rs", 1, 2]], "task", 3]]},
    # a receiver handler stops a sender (and the other way round) in the middle of a datagram about both
    {"ops": [["rr", 0, [1], [96], "a"], ["rs", 0, 2], ["sr", 1, [2]], ["sr", 1, [2]], ["rrp", 1, [2]], ["bye", [1]]], "compound": True, "rev": 1,
     "scripts": [["R", 0, 1, [["us", 0]], "yield", 1], ["S", 0, 1, [["ur", 0]], "inline", 0]]},
    # the handler of an RTP packet stops the receiver; a second receiver then latches the SSRC
    {"ops": [["rr", 0, [], [96], None], ["p", 7, 96], ["rr", 1, [], [96], None], ["p", 7, 96], ["p", 7, 96], ["bye", [7]]], "compound": False, "rev": 0,
     "scripts": [["R", 0, 2, [["ur", 0]], "task", 0]]},
    # the same packet twice in a datagram: the first copy makes the receiver hand the stream over to another receiver
    {"ops": [["rr", 0, [1], [96], None], ["bye", [1]], ["bye", [1]], ["bye", [1]]], "compound": True, "rev": 0,
     "scripts": [["R", 0, 1, [["ur", 0], ["rr", 1, [1], [97], ""]], "inline", 0], ["R", 1, 1, [["ur", 1]], "yield", 3]]},
]


class Transport(Router):
    name = "transport"
    theorems = ["route_rtp_spec", "route_rtcp_spec", "unregistered_receiver_is_gone", "unregistered_sender_is_gone", "history_spec",
                "compound_delivery_uses_current_tables", "compound_delivery_only_to_registered",
                "unregistered_mid_datagram_receiver_is_gone", "unregistered_mid_datagram_sender_is_gone",
                "transport_unregistered_receiver_is_gone", "transport_unregistered_sender_is_gone", "compound_without_table_changes"]

    def corpus(self):
        return [sanitize({"ops": ops, "compound": bool(i % 2), "rev": i % 2, "scripts": []}) for i, ops in enumerate(CORPUS)] + \
               [sanitize(c) for c in TRANSPORT_CORPUS]

    def cases(self, rng, tier):
        n = 600 if tier == "quick" else 12000
        out = []
        for _ in range(n):
            nr_ns_hist = gen_history(rng, rng.choice([4, 10, 25]))
            scripts = gen_scripts(rng, 2, 2, SSRCS, PTS, rng.choice([0, 0, 1, 2])) if rng.random() < 0.5 else []
            out.append(sanitize({"ops": nr_ns_hist, "compound": rng.random() < 0.5, "rev": rng.randrange(2), "scripts": scripts}))
        for _ in range(n):
            out.append(sanitize(gen_traffic_history(rng)))
        out.extend(sanitize(c) for c in small_cases(3 if tier == "quick" else 4))
        out.extend(sanitize(c) for c in long_cases(rng, tier, transport=True))
        return out

    def _model_ops(self, case):
        return [_norm_op(op) for op in case["ops"]]

    def _ref(self, case, observed=None):
        return ref_history(self._model_ops(case), _norm_scripts(case.get("scripts", [])), case.get("compound", False), observed)

    def model_line(self, case):
        scripts = _norm_scripts(case.get("scripts", []))
        sl = ";".join(f"{k}{i}@{nth}=" + "/".join(op_line(t) for t in tops) for k, i, nth, tops, _m, _y in scripts) or "-"
        items = ";".join("&".join(op_line(o) for o in g) for g in datagrams(self._model_ops(case), case.get("compound", False))) or "-"
        return f"router deliver {case.get('rev', 0)} {sl} {items}"

    def impl(self, case):
        return run_transport(case["ops"], case.get("compound", False), case.get("scripts", []))

    def _why(self, case, n, nm):
        return " any more when this packet's turn comes (table changes made during earlier deliveries count)"

    def label(self, case, impl_out):
        r = self._ref(case)
        if not r:
            return "empty"
        lab = r[-1]["label"]
        if any(e["stale"] is not None and e["stale"] != e["want"] for e in r):
            lab += "+changed-mid-datagram"       # a routing decision taken when the datagram arrived would be wrong
        elif any(e["fired"] for e in r):
            lab += "+handler-changed-tables"
        return lab + _long_suffix(case)

    def _fix(self, case):
        return sanitize(case)

    def shrink(self, case):
        small = self._premin(case)
        if small is not None:
            yield small
        scripts = case.get("scripts", [])
        for i in range(len(scripts)):
            yield sanitize(dict(case, scripts=scripts[:i] + scripts[i + 1:]))
        for ops in _shrink_ops(case["ops"]):
            yield sanitize(dict(case, ops=ops))
        for i, sc in enumerate(scripts):
            for t in range(len(sc[3])):
                yield sanitize(dict(case, scripts=scripts[:i] + [sc[:3] + [sc[3][:t] + sc[3][t + 1:]] + sc[4:]] + scripts[i + 1:]))
            if sc[4] != "inline":
                yield sanitize(dict(case, scripts=scripts[:i] + [sc[:4] + ["inline", 0]] + scripts[i + 1:]))
            elif sc[5]:
                yield sanitize(dict(case, scripts=scripts[:i] + [sc[:5] + [0]] + scripts[i + 1:]))
        if case.get("rev"):
            yield dict(case, rev=0)


def _wire_ok(ops):
    """Restrict a history to what can appear on the wire / in parameter objects (counts are 5-bit, PT 7-bit)."""
    out = []
    for op in ops:
        if op[0] in ("sr", "rrp"):
            op = [op[0], op[1], op[2][:31]]
        elif op[0] in ("sdes", "bye"):
            op = [op[0], op[1][:31]]
        out.append(op)
    return out


def components(tier):
    return [Router(), Transport()]


def classify_finding(finding, comp_name, case, what):
    return False
