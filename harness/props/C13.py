"""C13 — data channel lifecycle: faithful open, forward-only states, exact bufferedAmount."""
from __future__ import annotations

import collections
import random
import re
import struct

from harness.check import Component, case_key
from harness import sctp_check as S
from harness import sctp_world as W

LEAN_TARGETS = ["Aiortc.Props.C13"]
DRIVERS = ["Sctp", "Dcep"]
MANIFEST = {
    "technique": "Lean 4 invariant / refinement proofs over the executable endpoint automaton (Model/Sctp/Endpoint.lean: "
                 "RTCSctpTransport + RTCDataChannel as `step : Ep -> clock -> Input -> Ep x outputs`), proved with a small "
                 "weakest-precondition calculus for the handler monad (Lemmas/SctpWp.lean) + step-by-step trace correspondence of "
                 "the compiled automaton with two REAL endpoints under recorded fault schedules + function-level differential run of "
                 "the DCEP/UTF-8 helpers + implementation-side oracles",
    "text": "Props/C13.lean proves, for EVERY endpoint state satisfying the (proved inductive) invariant, every clock value and every "
            "input - i.e. all programs of create/send/close/threshold calls at any time, all datagrams (arbitrary bytes, so all loss/"
            "duplication/reordering schedules), all timers and tasks: (a) dcep_roundtrip: the OPEN message of _data_channel_open parsed "
            "by the OPEN branch of _data_channel_receive returns exactly label, protocol, ordered, maxRetransmits, maxPacketLifeTime for "
            "all valid-UTF-8 labels/protocols < 65536 bytes; utf8_exact: the decoder model accepts exactly the concatenations of UTF-8 "
            "encoded Unicode scalar values (Table 3-6/3-7); open_announces: a received OPEN that decodes to p on a free stream id creates "
            "one channel object with parameters p and that id and emits `datachannel` for it; (b) ids_disjoint / auto_id_parity / "
            "auto_ids_never_collide: the id chosen by _data_channel_flush has the parity of the role (even with is_server, odd otherwise), "
            "is not registered, ids never change once set, and ids of different roles differ; (c) ready_forward(_run): every step keeps every "
            "channel object, never decreases readyState (0 connecting < 1 open < 2 closing < 3 closed), never changes "
            "label/protocol/ordered/reliability/negotiated; events_on_change + at_most_one_event: open/close/datachannel are emitted only on "
            "the corresponding transition and at most once per channel object over every run from the initial state; (d) buffered_exact: "
            "bufferedAmount of every non-closed channel = user-data bytes queued for it in _data_channel_queue, preserved by every step in "
            "which no exception escapes - INCLUDING steps in which an application handler re-entered send() (buffered_react: react/dcSend are "
            "accounted like send()) -, hence never negative and 0 when nothing is queued; evLow_exact: _addBufferedAmount (up to the handler: "
            "addBufferedCore) emits bufferedamountlow iff the amount goes from > threshold to <= threshold, addBuffered_core_react: the handler "
            "runs after the amount was stored, at most once; re-entrant handlers: react_sends_only_when_open (a handler consumes its reaction "
            "and, iff the channel is open, does exactly _data_channel_send, otherwise only InvalidStateError inside the handler), "
            "reactions_one_shot (only the application arms reactions, a firing handler consumes one), flush_fuel_suffices (the flush loop "
            "never stops on fuel although handlers append entries inside it); (e) closed_all: _set_state(CLOSED) closes every channel "
            "in _data_channels or _data_channel_queue and empties both; (f) negotiated_exact_id: negotiated=True registers exactly the "
            "given id or raises ValueError leaving the state unchanged.",
    "note": "End-to-end clauses that need the peer and the network to make progress (exactly one `datachannel` event at the PEER, close() "
            "closing BOTH ends and freeing the id, drained => 0) are liveness statements over the two-endpoint system: they are covered by "
            "the trace correspondence + oracles on healed runs, not by a Lean theorem; the per-endpoint halves (open_announces, "
            "negotiated_exact_id, closed_all, buffered_exact) are proved. Known finding C13-negotiated-close-before-established stays.",
    "design_ref": "DESIGN.md §2 C13, §2.0",
}
ASSUMPTIONS = [
    "dcep_roundtrip: at most one of maxRetransmits / maxPacketLifeTime is set (RTCPeerConnection.createDataChannel rejects both) and the value is < 2^32 (struct 'L')",
    "buffered_exact is claimed for steps in which no exception escapes a handler (NoCrash): after an exception inside _data_channel_flush the popped "
    "message is neither sent nor subtracted; oracle_no_crash checks on every real run that no handler raises",
    "buffered_exact says nothing about channels that are already closed (close() before the association is up drops their queue entries without touching bufferedAmount)",
    "closed_all assumes the keys of _data_channels are distinct (a dict in the real code)",
    "LifeInv (readyState in 0..3, _data_channel_id = role parity once started) and BufInv hold initially (lifeInv_init, bufInv_init) and are preserved (ready_forward, buffered_exact)",
    "evLow_exact is stated for addBufferedCore (= _addBufferedAmount up to the application's bufferedamountlow handler), the only emitter of "
    "bufferedamountlow in the model; addBuffered = core + at most one reaction (addBuffered_core_react); that send() only adds and flush only "
    "subtracts is in buffered_send_flush",
    "'is_server' of the two sides differ (ICE roles of a pair differ): hypothesis of auto_ids_never_collide",
]
TRUSTED_EXTRA = [
    "The endpoint automaton Model/Sctp/Endpoint.lean is tied to rtcsctptransport.py / rtcdatachannel.py by trace correspondence (compiled model replayed on the "
    "inputs of two real endpoints, outputs and public state compared at every step), not by proof",
    "Labels/protocols are byte strings in the model (their UTF-8 encoding); `utf8Valid` models CPython's strict UTF-8 decoder (checked by the `dcep` component "
    "on boundary code points, surrogates, overlong forms, truncations and random bytes); `encodeCp` is a transcription of Unicode Table 3-6",
    "asyncio scheduling: every handler runs atomically (checked: a suspended handler is reported as harness assumption violation); ensure_future'd coroutines are the `task` inputs",
    "pyee event delivery: `silent` models 'no listener can be registered yet / listeners removed', events are compared as recorded by listeners attached "
    "at creation/announcement; handlers that re-enter the API are modelled for `send()` (one-shot reactions in open/close/bufferedamountlow/message/"
    "datachannel handlers, `react`); handlers that call close() or createDataChannel() from inside an event are NOT modelled",
]
RULE = ("programs of create/send/close/threshold/stop operations issued by both sides at arbitrary steps of a recorded fault "
        "schedule over two REAL endpoints (creates before start, close right after create, thresholds incl. invalid values, Unicode labels of all "
        "UTF-8 lengths, all reliability settings, negotiated and explicit ids, abort in the middle), healed; public state (readyState, "
        "bufferedAmount, id) and every event compared with the Lean automaton at every step; plus DCEP/UTF-8 helper functions on "
        "valid, boundary and malformed byte strings")


WITNESS_NEGOTIATED = {
    "tagA": 1, "tagB": 2, "tsnA": 100, "tsnB": 200, "profile": "lifecycle", "wrap": False,
    "ops": [["start", "A"], ["start", "B"],
            ["create", "B", {"id": 200, "label": "neg", "negotiated": True, "ordered": True}],
            ["create", "A", {"id": 200, "label": "neg", "negotiated": True, "ordered": True}],
            ["close", "B", 0]],
}


def directed_lifecycle_cases():
    """Systematic small programs: every kind of channel (automatic id, explicit id, partially reliable, negotiated on both
    sides) created at every stage of the association set-up (before start, after k datagrams of the handshake,
    established) by either side, then - nothing / close() at once / close() after the flush task / a send and close() -
    and the canonical continuation. Cheap, always run: the random programs reach these corners only by luck."""
    kinds = [("auto", dict(label="auto", ordered=True)),
             ("explicit", None),
             ("pr", dict(label="pr", ordered=False, maxRetransmits=0)),
             ("negotiated", dict(label="neg", negotiated=True, id=40, ordered=True))]
    out = []
    n = 0
    for kname, params in kinds:
        for stage in range(0, 7):            # 0: before start; 1..5: after start + (stage-1) handshake deliveries; 6: healed
            for side in "AB":
                for action in ("none", "close", "task-close", "close-create"):
                    n += 1
                    p = dict(params) if params is not None else dict(label="id", id=31 if side == "A" else 30, ordered=True)
                    ops = []
                    pre = [["start", "A"], ["start", "B"]]
                    if stage >= 1:
                        ops += pre
                        order = ["B", "A", "B", "A"]
                        for k in range(min(stage - 1, 4)):
                            ops.append(["deliver", order[k], 0])
                        if stage == 6:
                            ops.append(["heal"])
                    ops.append(["create", side, p])
                    if kname == "negotiated":
                        ops.append(["create", "B" if side == "A" else "A", dict(p)])
                    if action == "close":
                        ops.append(["close", side, 0])
                    elif action == "task-close":
                        ops += [["task", side], ["close", side, 0]]
                    elif action == "close-create":
                        # close at once, then a second channel of the same kind (the id must be free again)
                        ops.append(["close", side, 0])
                        ops.append(["create", side, dict(p, label="again") if kname != "negotiated" else dict(label="auto2")])
                    if stage == 0:
                        ops += pre
                    out.append({"tagA": 100 + n, "tagB": 5000 + n, "tsnA": 10 * n, "tsnB": 2**32 - 3 - n, "profile": "directed",
                                "wrap": False, "ops": ops})
    # handlers that create / close channels from inside events at the moments the transport itself walks its channel tables
    # (association established: `open` of channels created before set-up; association closed: `close` of every channel)
    for side in "AB":
        for pre in (dict(label="neg", negotiated=True, id=44, ordered=True), dict(label="auto", ordered=True),
                    dict(label="id", id=33 if side == "A" else 32, ordered=True)):
            for act in (["create", dict(label="hid", id=55 if side == "A" else 54, ordered=True)],
                        ["create", dict(label="hneg", negotiated=True, id=66, ordered=True)],
                        ["create", dict(label="h", ordered=True)], ["close", 1], ["close", 0]):
                for kind in (0, 1):
                    for ending in ("heal", "stop"):
                        n += 1
                        ops = [["create", side, dict(pre)], ["create", side, dict(label="second", ordered=True)],
                               ["react2", side, kind, 0, act], ["start", "A"], ["start", "B"]]
                        if ending == "stop":
                            ops += [["deliver", "B", 0], ["deliver", "A", 0], ["stop", side]]
                        else:
                            ops += [["heal"], ["close", side, 0], ["heal"]]
                        out.append({"tagA": 100 + n, "tagB": 5000 + n, "tsnA": 10 * n, "tsnB": 2**32 - 3 - n,
                                    "profile": "directed-reentrant", "wrap": False, "ops": ops})
    # bufferedAmount against the threshold at its boundaries: amounts equal to, one below and one above the threshold,
    # reached by one or two sends, drained by one flush or message by message
    for t in (0, 1, 10, 100, 1200):
        for sizes in ((t,), (t + 1,), (t, 1), (max(t - 1, 0), 2), (t + 1, t), (1, t, 1)):
            for piecewise in (False, True):
                n += 1
                ops = [["start", "A"], ["start", "B"], ["heal"], ["create", "A", dict(label="thr", ordered=True)], ["heal"],
                       ["threshold", "A", 0, t]]
                for k, sz in enumerate(sizes):
                    ops.append(["send", "A", 0, "b", sz, 1000 + n * 10 + k])
                    if piecewise:
                        ops += [["task", "A"], ["heal"]]
                ops.append(["heal"])
                out.append({"tagA": 100 + n, "tagB": 5000 + n, "tsnA": 10 * n, "tsnB": 2**32 - 3 - n, "profile": "directed",
                            "wrap": False, "ops": ops})
    # id bookkeeping across close and re-use: one side opens channels, either side closes one of them, everything
    # settles, then BOTH sides create channels at the same moment (glare): automatically chosen ids must not collide,
    # freed ids may be used again, every channel opens on both sides
    for opener in "AB":
        other = "B" if opener == "A" else "A"
        for first in (1, 2):
            for closer in (opener, other, None):
                for which in range(first):
                    for glare in (1, 2):
                        n += 1
                        ops = [["start", "A"], ["start", "B"], ["heal"]]
                        for k in range(first):
                            ops.append(["create", opener, dict(label="c%d" % k, ordered=True)])
                        ops.append(["heal"])
                        if closer is not None:
                            ops += [["close", closer, which], ["heal"]]
                        for k in range(glare):
                            ops.append(["create", "A", dict(label="gA%d" % k, ordered=True)])
                            ops.append(["create", "B", dict(label="gB%d" % k, ordered=True)])
                        out.append({"tagA": 100 + n, "tagB": 5000 + n, "tsnA": 10 * n, "tsnB": 2**32 - 3 - n,
                                    "profile": "directed", "wrap": False, "ops": ops})
    return out


# regression seeds for the mutations listed in notes/C13.md
WITNESS_EARLY_STOP = {
    "tagA": 3, "tagB": 4, "tsnA": 10, "tsnB": 20, "profile": "life2", "wrap": False,
    "ops": [["create", "A", {"label": "early"}], ["start", "A"], ["start", "B"], ["stop", "A"]],
}
WITNESS_THRESHOLD = {
    "tagA": 5, "tagB": 6, "tsnA": 1000, "tsnB": 2000, "profile": "life2", "wrap": False,
    "ops": [["start", "A"], ["start", "B"], ["deliver", "B", 0], ["deliver", "A", 0], ["deliver", "B", 0], ["deliver", "A", 0],
            ["create", "A", {"label": "thr"}], ["task", "A"], ["task", "A"], ["deliver", "B", 0], ["deliver", "A", 0],
            ["deliver", "A", 0], ["task", "A"], ["task", "B"],
            ["threshold", "A", 0, 10], ["send", "A", 0, "s", 10, 1], ["send", "A", 0, "b", 1, 2], ["task", "A"], ["task", "A"],
            ["threshold", "A", 0, 0], ["send", "A", 0, "s", 3, 3], ["task", "A"]],
}

WITNESS_OPEN_AFTER_CLOSE = {
    "tagA": 2471846464, "tagB": 1186512605, "tsnA": 1634978810, "tsnB": 671750508, "profile": "life2", "wrap": False,
    "ops": [["start", "A"], ["start", "B"], ["deliver", "B", 0], ["deliver", "A", 0], ["deliver", "B", 0], ["deliver", "A", 0],
            ["create", "B", {"id": 22, "label": "id", "ordered": True}], ["task", "B"], ["drop", "A", 0], ["close", "B", 0]],
}
# the lost DATA_CHANNEL_OPEN carries TSN 0 while the peer's cumulative TSN is still 2^32-1: the stream-reset request
# ("last assigned TSN" 0) has to be compared in serial arithmetic
WITNESS_RESET_ACROSS_WRAP = {
    "tagA": 21, "tagB": 22, "tsnA": 4294967295, "tsnB": 0, "profile": "life2", "wrap": True,
    "ops": [["start", "A"], ["start", "B"], ["deliver", "B", 0], ["deliver", "A", 0], ["deliver", "B", 0], ["deliver", "A", 0],
            ["create", "B", {"id": 22, "label": "id", "ordered": True}], ["task", "B"], ["drop", "A", 0], ["close", "B", 0]],
}
WITNESS_RESET_ACROSS_WRAP_A = {
    "tagA": 23, "tagB": 24, "tsnA": 0, "tsnB": 4294967295, "profile": "life2", "wrap": True,
    "ops": [["start", "A"], ["start", "B"], ["deliver", "B", 0], ["deliver", "A", 0], ["deliver", "B", 0], ["deliver", "A", 0],
            ["create", "A", {"label": "auto", "ordered": True}], ["task", "A"], ["drop", "B", 0], ["close", "A", 0]],
}
# a duplicated COOKIE ECHO reaches the server while a negotiated channel is closing (fix 4ffefd0)
WITNESS_COOKIE_DUP = {
    "tagA": 11, "tagB": 12, "tsnA": 500, "tsnB": 600, "profile": "life2", "wrap": False,
    "ops": [["start", "A"], ["start", "B"], ["deliver", "B", 0], ["deliver", "A", 0], ["dup", "B", 0], ["deliver", "B", 0],
            ["create", "B", {"id": 10, "label": "neg", "negotiated": True, "ordered": True}], ["close", "B", 0],
            ["deliver", "B", 0], ["task", "B"], ["task", "B"]],
}

UNI_LABELS = S.LABELS + ["\x00", "\x7f\x80", "߿ࠀ", "퟿", "￿\U00010000", "\U0010ffff", "é", "שלום", "a" * 300,
                         "é" * 200]


def p_unicode(rng, w, name):
    return dict(label=rng.choice(UNI_LABELS), protocol=rng.choice(["", "π", "🙂", "x" * 100, "\U0010ffff"]),
                ordered=rng.random() < 0.5,
                **rng.choice([{}, {}, {"maxRetransmits": rng.choice([0, 1, 2**16])}, {"maxPacketLifeTime": rng.choice([1, 2001])}]))


def p_bad_negotiated(rng, w, name):
    return dict(label="neg", negotiated=True, id=rng.choice([None, -1, 65535, 65534, 10, 11]), ordered=True)


LIFE2 = dict(S.PROFILES["lifecycle"],
             chan_params=[S.p_reliable, S.p_rexmit, S.p_negotiated, S.p_explicit_id, p_unicode, p_unicode, p_bad_negotiated],
             channels=7)
THRESHOLDS = [0, 0, 1, 5, 10, 100, 1200, 3000, -1, 2**32, 2**32 - 1]


def lifecycle_ops(rng, case, n_steps, profile, reentrant=False):
    """Like sctp_world.random_ops, plus: channels created before start(), close right after create, thresholds,
    stop() in the middle."""
    w = W.World(dict(case, ops=[]))
    ops = []

    def do(op):
        if w.apply(op):
            ops.append(op)
            return True
        return False

    def create(name):
        ep = w.ep[name]
        n0 = len(ep.channels)
        if do(["create", name, rng.choice(profile["chan_params"])(rng, w, name)]) and len(ep.channels) > n0:
            i = len(ep.channels) - 1
            x = rng.random()
            if x < 0.35:
                do(["threshold", name, i, rng.choice(THRESHOLDS)])
            elif x < 0.50:
                do(["close", name, i])

    for _ in range(rng.choice([0, 0, 1, 2, 3])):
        create(rng.choice("AB"))
    do(["start", "A"])
    if rng.random() < 0.8:
        do(["start", "B"])
    stop_at = rng.randrange(n_steps) if rng.random() < 0.35 else None
    loss, dup, reorder = profile.get("loss", 0.1), profile.get("dup", 0.03), profile.get("reorder", 0.2)
    for step in range(n_steps):
        r = rng.random()
        name = rng.choice("AB")
        ep = w.ep[name]
        if step == stop_at:
            do(["stop", name])
            continue
        if rng.random() < 0.05:
            W.arm_reaction(rng, w, name, do)
            continue
        if reentrant and rng.random() < 0.06:
            W.arm_reaction2(rng, w, name, do)
            continue
        if r < 0.45:
            q = w.net[name]
            if not q:
                name = "B" if name == "A" else "A"
                q = w.net[name]
            if q:
                i = rng.randrange(len(q)) if rng.random() < reorder else 0
                x = rng.random()
                if x < loss:
                    do(["drop", name, i])
                elif x < loss + dup:
                    do(["dup", name, i])
                else:
                    do(["deliver", name, i])
                continue
        if r < 0.70:
            if ep.tasks:
                do(["task", name])
                continue
        if r < 0.76:
            arm = ep.armed()
            if arm and rng.random() < profile.get("fire", 0.5):
                do(["fire", name, rng.choice(arm).name])
                continue
        if r < 0.78:
            do(["start", name])
            continue
        if r < 0.84 and len(ep.channels) < profile.get("channels", 3):
            create(name)
            continue
        if r < 0.95 and ep.channels:
            i = rng.randrange(len(ep.channels))
            w.salt += 1
            do(["send", name, i, rng.choice("sb"), rng.choice(profile.get("sizes", [0, 1, 10, 100, 1200, 3000])), w.salt])
            continue
        if r < 0.965 and ep.channels:
            do(["threshold", name, rng.randrange(len(ep.channels)), rng.choice(THRESHOLDS)])
            continue
        if r < 0.98 and ep.channels:
            do(["close", name, rng.randrange(len(ep.channels))])
            continue
        if r < 0.99:
            do(["clock", rng.choice([1, 10, 100, 1000, 3000, 70000])])
            continue
        if ep.tasks:
            do(["task", name])
    return ops


def _gen13(args):
    seed, profile_name, steps, wrap = args
    if profile_name not in ("life2", "life2-reentrant"):
        return S._gen(args)
    rng = random.Random(seed)
    if wrap:
        tsnA, tsnB = (2**32 - rng.randrange(1, 40)) % 2**32, (2**32 - rng.randrange(1, 40)) % 2**32
    else:
        tsnA, tsnB = rng.randrange(2**32), rng.randrange(2**32)
    case = dict(tagA=rng.randrange(1, 2**32), tagB=rng.randrange(1, 2**32), tsnA=tsnA, tsnB=tsnB)
    # "life2-reentrant": application handlers also call close() / create channels from inside events; such runs are outside
    # the automaton and judged by the oracles only
    return dict(case, ops=lifecycle_ops(rng, case, steps, LIFE2, reentrant=profile_name == "life2-reentrant"),
                profile=profile_name, wrap=wrap)


class Run13(S.Run):
    """S.Run plus the full per-step inputs/events/public state of the recorded part of the schedule."""

    def __init__(self, case, heal=True):
        super().__init__(case, heal=heal)
        w = W.World(case)
        order = {"n": 0}
        orig = w._after

        def after(name, inp, exc):
            orig(name, inp, exc)
            order["n"] += 1
            w.trace[name][-1]["g"] = order["n"]

        w._after = after
        w.run()
        # global step at which channel object #i of a side first existed / first was closing or closed
        self.g_created = {n: {} for n in "AB"}
        self.g_closing = {n: {} for n in "AB"}
        for n in "AB":
            for st in w.trace[n]:
                for i, (cid, ready, _b) in enumerate(st["public"]["channels"]):
                    self.g_created[n].setdefault(i, st["g"])
                    if ready in ("closing", "closed"):
                        self.g_closing[n].setdefault(i, st["g"])
        self.full = {n: [(st["in"], [list(e) if isinstance(e, tuple) else e for e in st["events"]], st["public"], st["exc"])
                         for st in w.trace[n]] for n in "AB"}


def _run13(case):
    try:
        return Run13(case, heal=case.get("heal", True))
    except Exception as exc:  # harness failure: keep visible
        import traceback
        return "HARNESS-EXC " + type(exc).__name__ + ": " + str(exc)[:300] + " " + traceback.format_exc()[-400:]


def _nbytes(msg):
    n = len(msg.encode("utf8")) if isinstance(msg, str) else len(msg)
    return n if n else 1


def _created_after_close(run, side, j, closer, i):
    """channel #j at `side` is negotiated and was created after channel #i at `closer` had started closing"""
    d = run.channels[side][j]
    gc = run.g_created[side].get(j)
    gx = run.g_closing[closer].get(i)
    return bool(d["negotiated"]) and gc is not None and gx is not None and gx < gc


def oracle_c13_local(case, run):
    """sctp_check.oracle_c13 with one refinement: a negotiated end that the application created only AFTER the other side had
    closed its end is a legitimate reuse of a freed id, not a half-closed channel."""
    for n in "AB":
        other = "B" if n == "A" else "A"
        nch = len(run.channels[n])
        # (3) readyState only moves forward; at most one open / close event
        last = {}
        for k, pub in enumerate(run.publics[n]):
            for i, (cid, ready, buffered) in enumerate(pub["channels"]):
                if i in last and S.ORDER[ready] < S.ORDER[last[i]]:
                    return (f"endpoint {n} channel #{i} id={cid}: readyState went backwards "
                            f"{last[i]} -> {ready} at step {k} ({run.inputs[n][k]})")
                last[i] = ready
                # (5) never negative
                if buffered < 0:
                    return f"endpoint {n} channel #{i} id={cid}: bufferedAmount={buffered} < 0 at step {k}"
        cnt = collections.Counter((ev[0], ev[1]) for _, ev in run.events[n] if ev[0] in ("open", "close"))
        for (kind, i), v in cnt.items():
            if v > 1:
                return f"endpoint {n} channel #{i}: {v} '{kind}' events"
        # (1) datachannel events mirror the opener's parameters, at most one per id at a time
        seen_ids = collections.Counter()
        for _, ev in run.events[n]:
            if ev[0] != "chan":
                continue
            _, i, cid, label, proto, ordered, rtx, life = ev
            cands = [c for c in run.channels[other] if c["id"] == cid and not c["negotiated"]]
            if not cands:
                return f"endpoint {n}: datachannel event for id={cid} but the peer has no such channel"
            if not any(c["label"] == label and c["protocol"] == proto and c["ordered"] == ordered
                       and c["rtx"] == rtx and c["life"] == life for c in cands):
                c = cands[0]
                return (f"endpoint {n}: datachannel event id={cid} announces label={label!r} protocol={proto!r} "
                        f"ordered={ordered} maxRetransmits={rtx} maxPacketLifeTime={life}, but the peer opened "
                        f"label={c['label']!r} protocol={c['protocol']!r} ordered={c['ordered']} "
                        f"maxRetransmits={c['rtx']} maxPacketLifeTime={c['life']}")
        # (2) automatically chosen ids: odd on the client (A), even on the server (B)
        for i, c in enumerate(run.channels[n]):
            if c["id"] is None or c["negotiated"]:
                continue
            explicit = c["label"] in ("id", "hid")
            created_here = not any(ev[0] == "chan" and ev[1] == i for _, ev in run.events[n])
            if created_here and not explicit and (c["id"] % 2) != (1 if n == "A" else 0):
                return f"endpoint {n}: automatically chosen id {c['id']} has the wrong parity"
        # two live local channels never share an id
        live = collections.Counter(c["id"] for c in run.channels[n] if c["id"] is not None and c["ready"] != "closed")
        for cid, v in live.items():
            if v > 1:
                return f"endpoint {n}: {v} channels that are not closed share id {cid}"
        # (4) association over => every channel closed
        if run.state[n] == "closed":
            for i, c in enumerate(run.channels[n]):
                # a channel the application created when the association had already ended (e.g. from inside the `close`
                # handler of another channel) was not there to be closed: not covered by the clause
                born_closed = next((pub["state"] == "closed" for pub in run.publics[n] if len(pub["channels"]) > i), False)
                if c["ready"] != "closed" and not born_closed:
                    return f"endpoint {n}: association is closed but channel #{i} id={c['id']} is {c['ready']}"
    # (4) close() closes both ends once the network has healed
    if run.healed and run.state["A"] == "connected" and run.state["B"] == "connected":
        for n in "AB":
            other = "B" if n == "A" else "A"
            for i, c in enumerate(run.channels[n]):
                if c["ready"] == "closing":
                    return f"endpoint {n} channel #{i} id={c['id']} still 'closing' after the network healed"
                if c["ready"] == "closed" and c["id"] is not None:
                    for j, d in enumerate(run.channels[other]):
                        if d["id"] == c["id"] and d["ready"] in ("open", "closing") and not (S._reused(run, other, j, n, i) or _created_after_close(run, other, j, n, i)):
                            tag = ""
                            if c["negotiated"] and c.get("closed_state") in ("new", "connecting"):
                                tag = " [negotiated channel closed before the association was established]"
                            return (f"channel id={c['id']} is closed at {n} but still {d['ready']} at {other} after the "
                                    f"network healed" + tag)
        # (5) drained => bufferedAmount 0
        for n in "AB":
            for i, c in enumerate(run.channels[n]):
                if c["buffered"] != 0 and c["ready"] == "open":
                    return f"endpoint {n} channel #{i} id={c['id']}: bufferedAmount={c['buffered']} after draining"
    return None



def oracle_c13_extra(case, run):
    """bufferedAmount bookkeeping, bufferedamountlow on exactly the downward crossings, one datachannel event."""
    for n in "AB":
        thr = collections.defaultdict(int)
        prev = None
        for k, (inp, events, pub, exc) in enumerate(run.full[n]):
            chans = pub["channels"]
            before = prev["channels"] if prev is not None else []
            lows = collections.Counter(ev[1] for ev in events if ev[0] == "low")
            # send() calls the application issued from inside an event handler during this step (accepted ones)
            rsent = collections.Counter()
            for ev in events:
                if ev[0] == "rsend":
                    rsent[ev[1]] += _nbytes(ev[2])
            for i, (cid, ready, buffered) in enumerate(chans):
                if buffered < 0:
                    return f"endpoint {n} channel #{i} id={cid}: bufferedAmount={buffered} is negative (step {k}, {inp[0]})"
                if i >= len(before):
                    if buffered != rsent.get(i, 0):
                        return f"endpoint {n} channel #{i}: bufferedAmount={buffered} at creation (step {k})"
                    continue
                _, ready0, b0 = before[i]
                if inp[0] == "send" and inp[1] == i:
                    want = _nbytes(W.message(inp[2], inp[3], inp[4])) if ready0 == "open" else 0
                    if buffered - b0 != want:
                        return (f"endpoint {n} channel #{i} id={cid}: send() of {want} byte(s) in state {ready0} changed "
                                f"bufferedAmount by {buffered - b0} (step {k})")
                elif buffered > b0 + rsent.get(i, 0):
                    return f"endpoint {n} channel #{i} id={cid}: bufferedAmount grew {b0} -> {buffered} without send() (step {k}, {inp[0]})"
                if i in rsent:
                    continue        # not monotone within the step: the crossings are judged by the model comparison
                if ready != "closed" and ready0 != "closed":
                    want_low = 1 if (b0 > thr[i] and buffered <= thr[i]) else 0
                    if lows.get(i, 0) != want_low:
                        return (f"endpoint {n} channel #{i} id={cid}: bufferedAmount {b0} -> {buffered} with threshold {thr[i]} "
                                f"but {lows.get(i, 0)} bufferedamountlow event(s) (step {k}, {inp[0]})")
            if inp[0] == "threshold" and exc is None and 0 <= inp[2] <= 4294967295:
                thr[inp[1]] = inp[2]
            # close() frees the id for reuse: creating a channel with an id whose previous holders are all closed succeeds
            if inp[0] == "create" and exc == "ValueError" and prev is not None and prev["state"] != "closed":
                want = inp[1].get("id")
                if isinstance(want, int) and 0 <= want <= 65534:
                    holders = [c for c in before if c[0] == want]
                    if holders and all(c[1] == "closed" for c in holders):
                        return (f"endpoint {n}: creating a channel with id {want} raised ValueError although every channel that "
                                f"held this id is closed (step {k}): close() did not free the id")
            prev = pub
    # exactly one datachannel event at the peer for a channel that is open on both... (healed runs only)
    for n in "AB":
        other = "B" if n == "A" else "A"
        announced_here = {ev[1] for _, ev in run.events[n] if ev[0] == "chan"}
        per_id = collections.Counter(ev[2] for _, ev in run.events[other] if ev[0] == "chan")
        for i, c in enumerate(run.channels[n]):
            if i in announced_here or c["negotiated"] or c["id"] is None:
                continue
            ids_here = sum(1 for d in run.channels[n] if d["id"] == c["id"])
            ids_there = sum(1 for d in run.channels[other] if d["id"] == c["id"])
            if ids_here != 1 or ids_there > 1:
                continue
            if per_id[c["id"]] > 1:
                return f"endpoint {other}: {per_id[c['id']]} datachannel events for id={c['id']}"
            if (run.healed and run.state["A"] == "connected" and run.state["B"] == "connected" and c["ready"] == "open"
                    and per_id[c["id"]] != 1):
                return (f"channel id={c['id']} opened by {n} is open after the network healed but {other} saw "
                        f"{per_id[c['id']]} datachannel events")
    return None


class World(S.WorldComponent):
    name = "world"
    prop = "C13"
    theorems = ["dcep_roundtrip", "open_announces", "ids_disjoint", "auto_id_parity", "ready_forward", "events_on_change",
                "at_most_one_event", "buffered_exact", "buffered_react", "evLow_exact", "addBuffered_core_react", "closed_all",
                "negotiated_exact_id", "react_sends_only_when_open", "reactions_one_shot", "flush_fuel_suffices", "reset_deferred",
                "flushLoop_ids_in_range"]
    mix = [("early", False, 1), ("life2", False, 4), ("lifecycle", False, 2), ("life2", True, 1), ("mixed-pr", False, 1), ("life2-reentrant", False, 3)]
    quick = (32, 220)
    thorough = (400, 450)
    oracles = [S.oracle_no_crash, oracle_c13_local, oracle_c13_extra, S.oracle_c01, S.oracle_c06]

    def corpus(self):
        return ([WITNESS_NEGOTIATED, WITNESS_OPEN_AFTER_CLOSE, WITNESS_EARLY_STOP, WITNESS_THRESHOLD, WITNESS_COOKIE_DUP,
                 WITNESS_RESET_ACROSS_WRAP, WITNESS_RESET_ACROSS_WRAP_A]
                + super().corpus() + directed_lifecycle_cases())

    def cases(self, rng, tier):
        n, steps = self.quick if tier == "quick" else self.thorough
        weighted = [m for m in self.mix for _ in range(m[2])]
        args = []
        for i in range(n):
            prof, wrap, _ = weighted[i % len(weighted)]
            args.append((rng.getrandbits(48), prof, steps if i % 3 else max(60, steps // 3), wrap))
        return S.pool().map(_gen13, args)

    def impl_many(self, cases):
        results = S.pool().map(_run13, cases, chunksize=1)
        outs = []
        for c, r in zip(cases, results):
            if isinstance(r, str):
                outs.append(r)
            else:
                self.runs[case_key(c)] = r
                outs.append(r.expected)
        return outs

    def impl(self, case):
        r = _run13(case)
        if isinstance(r, str):
            return r
        self.runs[case_key(case)] = r
        return r.expected

    def label(self, case, impl_out):
        r = self.runs.get(case_key(case))
        feats = list(r.features) if r is not None else ["?"]
        kinds = {op[0] for op in case["ops"]}
        for k in ("stop", "threshold"):
            if k in kinds:
                feats.append(k)
        if r is not None and any(ev[0] == "low" for n in "AB" for _, ev in r.events[n]):
            feats.append("low")
        if case["ops"] and case["ops"][0][0] == "create":
            feats.append("early-create")
        return f"{case.get('profile')}{'-wrap' if case.get('wrap') else ''}[{','.join(feats)}]"

    def nontrivial(self, case, impl_out):
        r = self.runs.get(case_key(case))
        return r is not None and any(r.channels[n] for n in "AB")


# ---------------------------------------------------------------------------------------------
# DCEP / UTF-8 helper functions against the real code
# ---------------------------------------------------------------------------------------------

def _enc(cp):
    return chr(cp).encode("utf8", "surrogatepass")


BOUNDARY_CPS = [0, 0x41, 0x7F, 0x80, 0x7FF, 0x800, 0xFFF, 0x1000, 0xCFFF, 0xD000, 0xD7FF, 0xE000, 0xFFFF, 0x10000, 0x3FFFF,
                0x40000, 0xFFFFF, 0x100000, 0x10FFFF]
MALFORMED = [b"\x80", b"\xbf", b"\xc0\x80", b"\xc1\xbf", b"\xc2", b"\xc2\x7f", b"\xc2\xc0", b"\xdf\xbf", b"\xe0\x80\x80", b"\xe0\x9f\xbf",
             b"\xe0\xa0\x80", b"\xe0\xa0", b"\xed\x9f\xbf", b"\xed\xa0\x80", b"\xed\xbf\xbf", b"\xee\x80\x80", b"\xef\xbf\xbf",
             b"\xf0\x80\x80\x80", b"\xf0\x8f\xbf\xbf", b"\xf0\x90\x80\x80", b"\xf0\x90\x80", b"\xf4\x8f\xbf\xbf", b"\xf4\x90\x80\x80",
             b"\xf5\x80\x80\x80", b"\xf8\x88\x80\x80\x80", b"\xff", b"\xfe", b"\xe2\x82", b"\xe2\x28\xa1", b"\xf0\x28\x8c\xbc",
             b"\xf0\x90\x28\xbc", b"\xf0\x28\x8c\x28"]


def _open_msg(ct, prio, rel, label, proto, ll=None, pl=None):
    return struct.pack("!BBHLHH", 3, ct, prio, rel, len(label) if ll is None else ll, len(proto) if pl is None else pl) + label + proto


class Dcep(Component):
    name = "dcep"
    theorems = ["dcep_roundtrip", "utf8_exact", "open_announces"]

    def corpus(self):
        out = [{"k": "utf8", "d": b.hex()} for b in MALFORMED]
        out += [{"k": "utf8", "d": _enc(cp).hex()} for cp in BOUNDARY_CPS + [0xD800, 0xDFFF]]
        out += [{"k": "cp", "n": cp} for cp in BOUNDARY_CPS]
        out += [{"k": "decode", "d": _open_msg(0x80 | 1, 0, 5, "héllo→".encode(), "prötø".encode()).hex()},
                {"k": "decode", "d": _open_msg(2, 7, 2**32 - 1, b"", b"").hex()},
                {"k": "decode", "d": "03"}, {"k": "decode", "d": ""}, {"k": "decode", "d": "02"},
                {"k": "encode", "label": "héllo→", "protocol": "prötø", "ordered": False, "rtx": 3, "life": None},
                {"k": "encode", "label": "a" * 65535, "protocol": "", "ordered": True, "rtx": None, "life": None},
                {"k": "encode", "label": "a" * 65536, "protocol": "", "ordered": True, "rtx": None, "life": None},
                {"k": "encode", "label": "é" * 32768, "protocol": "", "ordered": True, "rtx": None, "life": None},
                {"k": "encode", "label": "", "protocol": "é" * 32767 + "a", "ordered": True, "rtx": None, "life": 2**32 - 1},
                {"k": "encode", "label": "x", "protocol": "", "ordered": True, "rtx": 2**32, "life": None}]
        return out

    def _rand_text(self, rng, n):
        return "".join(chr(rng.choice(BOUNDARY_CPS + [0x61, 0xE9, 0x2192, 0x1F642])) for _ in range(n))

    def cases(self, rng, tier):
        n = 300 if tier == "quick" else 4000
        out = []
        for _ in range(n):
            x = rng.random()
            if x < 0.08:
                cp = rng.randrange(0x110000)
                out.append({"k": "cp", "n": cp if not 0xD800 <= cp <= 0xDFFF else 0xE000})
            elif x < 0.4:
                b = bytearray()
                for _ in range(rng.randrange(0, 6)):
                    y = rng.random()
                    if y < 0.5:
                        b += _enc(rng.choice(BOUNDARY_CPS) if rng.random() < 0.6 else rng.randrange(0x110000))
                    elif y < 0.8:
                        b += rng.choice(MALFORMED)
                    else:
                        b += bytes(rng.randrange(256) for _ in range(rng.randrange(1, 4)))
                if b and rng.random() < 0.3:
                    j = rng.randrange(len(b))
                    b[j] ^= 1 << rng.randrange(8)
                if b and rng.random() < 0.2:
                    b = b[:rng.randrange(len(b))]
                out.append({"k": "utf8", "d": bytes(b).hex()})
            elif x < 0.75:
                label = self._rand_text(rng, rng.randrange(0, 5)).encode("utf8", "surrogatepass") if rng.random() < 0.8 else rng.choice(MALFORMED)
                proto = self._rand_text(rng, rng.randrange(0, 3)).encode("utf8", "surrogatepass") if rng.random() < 0.8 else rng.choice(MALFORMED)
                ct = rng.choice([0, 1, 2, 3, 0x80, 0x81, 0x82, 0x83, 0x40, 0x7f, 0xff, rng.randrange(256)])
                rel = rng.choice([0, 1, 65535, 2**31, 2**32 - 1, rng.randrange(2**32)])
                ll = rng.choice([None, None, None, 0, len(label) + 1, max(0, len(label) - 1), 65535])
                pl = rng.choice([None, None, None, 0, len(proto) + 1, max(0, len(proto) - 1), 65535])
                m = bytearray(_open_msg(ct, rng.choice([0, 1, 65535]), rel, label, proto, ll, pl))
                y = rng.random()
                if y < 0.25:
                    m = m[:rng.choice([0, 1, 2, 4, 8, 10, 11, 12, 13, len(m) - 1 if m else 0])]
                elif y < 0.35:
                    m[0] = rng.choice([0, 2, 3, 4, 255])
                elif y < 0.45:
                    m += bytes(rng.randrange(256) for _ in range(rng.randrange(1, 5)))
                out.append({"k": "decode", "d": bytes(m).hex()})
            else:
                rel = rng.choice([None, None, ("rtx", rng.choice([0, 1, 3, 65535, 2**32 - 1])), ("life", rng.choice([0, 1, 2001, 2**32 - 1]))])
                text = lambda k: self._rand_text(rng, k).replace("퟿", "퟿")
                out.append({"k": "encode", "label": "".join(c for c in text(rng.randrange(0, 6)) if not 0xD800 <= ord(c) <= 0xDFFF),
                            "protocol": "".join(c for c in text(rng.randrange(0, 3)) if not 0xD800 <= ord(c) <= 0xDFFF),
                            "ordered": rng.random() < 0.5,
                            "rtx": rel[1] if rel and rel[0] == "rtx" else None, "life": rel[1] if rel and rel[0] == "life" else None})
        return out

    # -- real code ---------------------------------------------------------------------------
    def _endpoint(self):
        from harness import sctp_sim as sim
        sim.Clock.ticks = 1024000
        return sim.Endpoint("B", "controlled", 7, 9)

    def _real_decode(self, data: bytes):
        ep = self._endpoint()
        got = []
        ep.t.on("datachannel", got.append)
        try:
            ep._drive(ep.t._data_channel_receive(4, 50, data))
        except Exception as exc:  # noqa
            return "crash " + type(exc).__name__
        ch = ep.t._data_channels.get(4)
        if ch is None:
            return "none"
        if len(got) != 1 or got[0] is not ch or ch.id != 4 or ch.negotiated or ch.readyState != "open":
            return f"ok-but-not-announced-once events={len(got)} id={ch.id} ready={ch.readyState}"
        opt = lambda v: "-" if v is None else str(v)
        hx = lambda s: s.encode("utf8").hex() or "-"
        return f"ok {hx(ch.label)} {hx(ch.protocol)} {1 if ch.ordered else 0} {opt(ch.maxRetransmits)} {opt(ch.maxPacketLifeTime)}"

    def _real_encode(self, case):
        from aiortc.rtcdatachannel import RTCDataChannel, RTCDataChannelParameters
        ep = self._endpoint()
        try:
            RTCDataChannel(ep.t, RTCDataChannelParameters(label=case["label"], protocol=case["protocol"], ordered=case["ordered"],
                                                          maxRetransmits=case["rtx"], maxPacketLifeTime=case["life"]))
        except struct.error:
            return "crash struct.error"
        except Exception as exc:  # noqa
            return "crash " + type(exc).__name__
        return "ok " + (ep.t._data_channel_queue[-1][2].hex() or "-")

    def impl(self, case):
        if case["k"] == "cp":
            return chr(case["n"]).encode("utf8").hex()
        if case["k"] == "utf8":
            try:
                bytes.fromhex(case["d"]).decode("utf8")
                return "1"
            except UnicodeDecodeError:
                return "0"
        if case["k"] == "decode":
            return self._real_decode(bytes.fromhex(case["d"]))
        return self._real_encode(case)

    def model_line(self, case):
        hx = lambda s: s.encode("utf8").hex() or "-"
        opt = lambda v: "-" if v is None else str(v)
        if case["k"] == "cp":
            return f"dcep cp {case['n']}"
        if case["k"] in ("utf8", "decode"):
            return f"dcep {case['k']} {case['d'] or '-'}"
        return f"dcep encode {hx(case['label'])} {hx(case['protocol'])} {1 if case['ordered'] else 0} {opt(case['rtx'])} {opt(case['life'])}"

    def oracle(self, case, impl_out):
        """the property on the real code: what is opened with (label, protocol, ordered, reliability) is announced with the same."""
        if case["k"] != "encode" or not impl_out.startswith("ok "):
            return None
        if case["rtx"] is not None and case["life"] is not None:
            return None
        got = self._real_decode(bytes.fromhex(impl_out[3:]))
        hx = lambda s: s.encode("utf8").hex() or "-"
        opt = lambda v: "-" if v is None else str(v)
        want = f"ok {hx(case['label'])} {hx(case['protocol'])} {1 if case['ordered'] else 0} {opt(case['rtx'])} {opt(case['life'])}"
        if got != want:
            return f"channel opened as [{want}] is announced to the peer as [{got}]"
        return None

    def label(self, case, impl_out):
        return case["k"] + ":" + impl_out.split(" ")[0]

    def nontrivial(self, case, impl_out):
        return True

    def shrink(self, case):
        if case["k"] in ("utf8", "decode"):
            d = bytes.fromhex(case["d"])
            for i in range(len(d)):
                yield dict(case, d=(d[:i] + d[i + 1:]).hex())


def components(tier):
    return [World(), Dcep()]


_ZOMBIE = re.compile(r"channel id=(\d+) is closed at ([AB]) but still (open|closing) at ([AB]) after the network healed$")


def _open_delivered_after_close(case, cid, closer, zombie_side):
    """True if, in the run of `case`, the channel object with id `cid` on `zombie_side` was created by a DATA_CHANNEL_OPEN that
    was delivered only after the opener (`closer`) had already called close() on its end."""
    w = W.World(case)
    order = {"n": 0}
    orig = w._after

    def after(name, inp, exc):
        orig(name, inp, exc)
        order["n"] += 1
        w.trace[name][-1]["g"] = order["n"]

    w._after = after
    w.run()
    w.heal(6000)
    g_announced = None
    for st in w.trace[zombie_side]:
        if any(ev[0] == "chan" and ev[2] == cid for ev in st["events"]):
            g_announced = st["g"]
            break
    g_closed = None
    for st in w.trace[closer]:
        if any(c[0] == cid and c[1] in ("closing", "closed") for c in st["public"]["channels"]):
            g_closed = st["g"]
            break
    return g_announced is not None and g_closed is not None and g_closed < g_announced


def _ids_reused_while_peer_closing(case):
    """Stream ids that one side gave to a NEW channel object while the peer still held a not yet closed channel object with
    that id (the peer's half of the close handshake of the previous channel had not finished)."""
    w = W.World(case)
    order = {"n": 0}
    orig = w._after

    def after(name, inp, exc):
        orig(name, inp, exc)
        order["n"] += 1
        w.trace[name][-1]["g"] = order["n"]

    w._after = after
    w.run()
    w.heal(6000)
    out = set()
    for x in "AB":
        y = "B" if x == "A" else "A"
        known = {}          # channel index -> id
        closed_ids = set()  # ids that belonged to a channel object of x which is closed by now
        for st in w.trace[x]:
            chans = st["public"]["channels"]
            for i, (cid, ready, _b) in enumerate(chans):
                if cid is not None and known.get(i) is None:
                    known[i] = cid
                    if cid in closed_ids:
                        # x re-uses cid at global time st["g"]: what does y hold at that time?
                        ystate = None
                        for sy in w.trace[y]:
                            if sy["g"] > st["g"]:
                                break
                            ystate = sy["public"]["channels"]
                        if ystate and any(c[0] == cid and c[1] != "closed" for c in ystate):
                            out.add(cid)
                if ready == "closed" and cid is not None:
                    closed_ids.add(cid)
    return out


_ID_IN_WHAT = re.compile(r"\bid=(\d+)\b")


def classify_finding(finding, comp_name, case, what):
    if finding.get("id") == "C13-id-reuse-before-peer-closed":
        if comp_name != "world":
            return False
        ids = {int(x) for x in _ID_IN_WHAT.findall(what)}
        return bool(ids) and bool(ids & _ids_reused_while_peer_closing(case))
    if finding.get("id") == "C13-negotiated-close-before-established":
        return what.endswith("[negotiated channel closed before the association was established]")
    if finding.get("id") == "C13-open-delivered-after-close":
        m = _ZOMBIE.search(what)
        if not m or comp_name != "world":
            return False
        return _open_delivered_after_close(case, int(m.group(1)), m.group(2), m.group(4))
    return False
