"""C13 — data channel lifecycle: faithful open, forward-only states, exact bufferedAmount."""
from harness import sctp_check as S

LEAN_TARGETS = ["Aiortc.Props.C13"]
DRIVERS = ["Sctp"]
RULE = ("programs of create/send/close/threshold operations issued by both sides at arbitrary steps of a recorded fault "
        "schedule over two REAL endpoints (Unicode labels, all reliability settings, negotiated and explicit ids), healed; "
        "public state (readyState, bufferedAmount, id) and every event compared with the Lean automaton at every step")


WITNESS_NEGOTIATED = {
    "tagA": 1, "tagB": 2, "tsnA": 100, "tsnB": 200, "profile": "lifecycle", "wrap": False,
    "ops": [["start", "A"], ["start", "B"],
            ["create", "B", {"id": 200, "label": "neg", "negotiated": True, "ordered": True}],
            ["create", "A", {"id": 200, "label": "neg", "negotiated": True, "ordered": True}],
            ["close", "B", 0]],
}


class World(S.WorldComponent):
    name = "world"
    prop = "C13"
    theorems = ["dcep_roundtrip", "ids_disjoint", "ready_forward", "buffered_exact"]
    mix = [("lifecycle", False, 4), ("lifecycle", True, 1), ("mixed-pr", False, 1)]
    quick = (36, 260)
    thorough = (300, 500)
    oracles = [S.oracle_no_crash, S.oracle_c13, S.oracle_c01, S.oracle_c06]

    def corpus(self):
        return [WITNESS_NEGOTIATED] + super().corpus()


def components(tier):
    return [World()]


def classify_finding(finding, comp_name, case, what):
    if finding.get("id") == "C13-negotiated-close-before-established":
        return what.endswith("[negotiated channel closed before the association was established]")
    return False
