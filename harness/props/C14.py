"""C14 — signalling follows the JSEP state machine; illegal calls have no side effects.

Trace acceptance: a REAL pair of RTCPeerConnection objects is driven with call sequences over the
property's alphabet; after every call the exception class, `signalingState`, the identity / type / media
sections of `localDescription` and `remoteDescription` and the number of `signalingstatechange` events of
BOTH peers are compared with the prediction of the compiled Lean model (Model/Jsep/Signaling.lean).
The oracle re-evaluates the property on the observed trace alone with a small JSEP table written in Python.
"""
from __future__ import annotations

import itertools
import json
import os

from harness.check import Component, case_key

LEAN_TARGETS = ["Aiortc.Props.C14"]
DRIVERS = ["Signaling"]
MANIFEST = {
    "technique": "Lean 4 refinement proof (abstract signalling model of RTCPeerConnection refines a JSEP spec, for all call "
                 "sequences) + trace acceptance of real RTCPeerConnection pairs against the compiled model",
    "text": "Model/Jsep/Signaling.lean mirrors the guards of createOffer/createAnswer/setLocalDescription/setRemoteDescription/"
            "close and __validate_description (order of checks kept) over an abstract state (signalling state, closed latch, four "
            "description slots). Props/C14.lean proves for ALL call sequences over offers/answers (any content): refinement of a "
            "20-line JSEP machine, a failing call leaves the whole state unchanged, illegal calls raise InvalidStateError, "
            "defective/mismatched descriptions raise ValueError, closed is absorbing, no other exception class can occur. "
            "The tie drives real pairs (all sequences up to length 3 quick / 4 thorough over 20 symbols, plus random longer ones "
            "over several media configurations) and diffs every step against the model.",
    "note": "The model is of the tree with fixes/C14-dtls-params-missing.patch and fixes/C14-answer-unmatched-transceiver.patch "
            "applied; the unpatched tree fails the corpus witnesses (AttributeError instead of ValueError; state changed by a "
            "raising setLocalDescription(answer)). pranswer/rollback are outside the property's alphabet (modelled, tied by an "
            "extra stream, not judged by the oracle).",
    "design_ref": "DESIGN.md §2 C14",
}
ASSUMPTIONS = [
    "the theorems quantify over call sequences whose descriptions have type offer/answer (or a type string that RTCSessionDescription "
    "rejects); pranswer and rollback are outside the property's alphabet: aiortc accepts them in every state except closed "
    "(theorem ext_types_rejected_when_closed: since the C19 close() fix a closed connection rejects them too)",
    "what createOffer puts into an offer (media sections) is an input of the model; createAnswer is modelled as echoing the "
    "(kind, mid) list of the remote offer, which holds when the remote offers are consistent with the negotiation history "
    "(m-sections keep their mid), as JSEP requires of the remote side",
    "calls are awaited one after the other (no two negotiation calls in flight on the same connection)",
]
TRUSTED_EXTRA = [
    "everything of setLocalDescription/setRemoteDescription after validation that does not touch signalingState or the description "
    "slots (transceiver/mid assignment, codec negotiation incl. OperationError, DTLS/ICE roles, gathering, __connect) is outside the "
    "model; the trace acceptance would show an exception escaping from it as a disagreement",
    "the harness abstracts SDP text to (type, [(kind, mid, ice-ufrag?, ice-pwd?, rtcp-mux?, setup class)]) with its own line scanner",
]
RULE = ("case = media configuration of the two peers + call sequence [(peer, op, variant)] over {createOffer, createAnswer, "
        "setLocal(offer|answer|implicit), setRemote(offer|answer|mismatched|defective), close} x {peer 0, peer 1}; quick: every "
        "sequence of length <= 3 (data-channel pair; from length 3 on only those whose first call is on peer 0, the peers being "
        "identical) + random sequences of length 4..12 over 5 configurations; thorough: every sequence of length <= 4 + more random ones; variants of mismatched/defective "
        "drawn per occurrence; distinct = distinct (configuration, sequence)")

OPS = ["createOffer", "createAnswer", "setLocalOffer", "setLocalAnswer", "setLocalImplicit",
       "setRemoteOffer", "setRemoteAnswer", "setRemoteMismatched", "setRemoteDefective", "close"]
EXT_OPS = ["setLocalTyped", "setRemoteTyped"]          # pranswer / rollback: outside the property's alphabet
MISMATCH = ["mid", "extra", "drop"]
DEFECTS = ["offer-noufrag", "offer-nopwd", "offer-nosetup", "offer-nomux", "answer-noufrag", "answer-nopwd",
           "answer-nosetup", "answer-actpass", "answer-nomux", "badtype"]
CFGS = ["dc", "audio", "both", "dc|both", "both|audio"]
SHORT = {"createOffer": "co", "createAnswer": "ca", "setLocalOffer": "sl", "setLocalAnswer": "sl", "setLocalImplicit": "si",
         "setRemoteOffer": "sr", "setRemoteAnswer": "sr", "setRemoteMismatched": "sr", "setRemoteDefective": "sr",
         "setLocalTyped": "sl", "setRemoteTyped": "sr", "close": "cl", "autoClose": "cl"}

# ----------------------------------------------------------------------------------------------------
# SDP text helpers (the harness's own scanner; aiortc's parser is not used for abstraction)


def _lines(sdp):
    return [l for l in sdp.replace("\r\n", "\n").split("\n") if l]


def _join(lines):
    return "\r\n".join(lines) + "\r\n"


def scan(sdp, typ):
    """abstract description: {'id', 'type', 'media': [{'kind','mid','ufrag','pwd','mux','role'}]}"""
    ident = 0
    sess = {"ufrag": False, "pwd": False, "role": "n"}
    media = []
    cur = None
    for l in _lines(sdp):
        if l.startswith("s="):
            v = l[2:]
            ident = int(v[1:]) if v.startswith("d") and v[1:].isdigit() else 0
        elif l.startswith("m="):
            cur = {"kind": l[2:].split(" ")[0], "mid": "", "ufrag": sess["ufrag"], "pwd": sess["pwd"], "mux": False,
                   "role": sess["role"]}
            media.append(cur)
        elif l.startswith("a="):
            tgt = cur if cur is not None else sess
            if l.startswith("a=ice-ufrag:"):
                tgt["ufrag"] = len(l) > len("a=ice-ufrag:")
            elif l.startswith("a=ice-pwd:"):
                tgt["pwd"] = len(l) > len("a=ice-pwd:")
            elif l.startswith("a=setup:"):
                v = l[len("a=setup:"):]
                tgt["role"] = {"actpass": "a", "active": "d", "passive": "d"}.get(v, "?")
            elif cur is not None and l == "a=rtcp-mux":
                cur["mux"] = True
            elif cur is not None and l.startswith("a=mid:"):
                cur["mid"] = l[len("a=mid:"):]
    return {"id": ident, "type": typ, "media": media}


def keys_str(media):
    return "+".join(f"{m['kind']}.{m['mid']}" for m in media) or "-"


def full_str(media):
    return "+".join(f"{m['kind']}.{m['mid']}.{int(m['ufrag'])}{int(m['pwd'])}{int(m['mux'])}{m['role']}" for m in media) or "-"


def desc_str(a):
    return f"{a['id']}/{a['type']}/{full_str(a['media'])}"


def slot_str(a):
    return "-" if a is None else f"{a['id']}/{a['type']}/{keys_str(a['media'])}"


def well_formed(a):
    for m in a["media"]:
        if not (m["ufrag"] and m["pwd"]):
            return False
        if m["role"] == "n":
            return False
        if a["type"] in ("answer", "pranswer") and m["role"] != "d":
            return False
        if m["kind"] in ("audio", "video") and not m["mux"]:
            return False
    return True


def retag(sdp, n):
    return _join([f"s=d{n}" if l.startswith("s=") else l for l in _lines(sdp)])


def drop_attr(sdp, prefix):
    return _join([l for l in _lines(sdp) if not l.startswith(prefix)])


def set_setup(sdp, value):
    return _join([f"a=setup:{value}" if l.startswith("a=setup:") else l for l in _lines(sdp)])


def _sections(sdp):
    sess, secs = [], []
    for l in _lines(sdp):
        if l.startswith("m="):
            secs.append([l])
        elif secs:
            secs[-1].append(l)
        else:
            sess.append(l)
    return sess, secs


def _rebuild(sess, secs):
    mids = [l[len("a=mid:"):] for s in secs for l in s if l.startswith("a=mid:")]
    sess = [("a=group:BUNDLE " + " ".join(mids)).rstrip() if l.startswith("a=group:BUNDLE") else l for l in sess]
    return _join(sess + [l for s in secs for l in s])


def mismatch(sdp, variant):
    sess, secs = _sections(sdp)
    if variant == "mid":
        secs = [[(l + "9") if l.startswith("a=mid:") else l for l in s] for s in secs]
    elif variant == "extra":
        secs = secs + [[("a=mid:7" if l.startswith("a=mid:") else l) for l in secs[-1]]]
    elif variant == "drop":
        secs = secs[:-1]
    return _rebuild(sess, secs)


# ----------------------------------------------------------------------------------------------------
# running a case on the real code


def _exc_name(exc):
    n = type(exc).__name__
    if n in ("InvalidStateError", "ValueError"):
        return n
    return "crash=" + n


class _Runner:
    def __init__(self, case):
        self.case = case
        cfg = case["cfg"]
        self.cfgs = cfg.split("|") if "|" in cfg else [cfg, cfg]
        self.next_id = 1
        self.ev = [0, 0]
        self.last_offer = [None, None]     # (sdp, type) created by / for the peer
        self.last_answer = [None, None]
        self.auto = [False, False]         # the connection asked to close itself
        self.real_close = []

    def fresh(self):
        n = self.next_id
        self.next_id += 1
        return n

    def obs(self, p):
        pc = self.pcs[p]
        l, r = pc.localDescription, pc.remoteDescription
        la = scan(l.sdp, l.type) if l is not None else None
        ra = scan(r.sdp, r.type) if r is not None else None
        return {"state": pc.signalingState, "local": la, "remote": ra, "ev": self.ev[p]}

    @staticmethod
    def obs_str(o):
        return f"{o['state']},{slot_str(o['local'])},{slot_str(o['remote'])},{o['ev']}"

    def fabricate_answer(self, offer_sdp):
        return set_setup(offer_sdp, "active")

    # ---- which description a call gets (see notes/C14.md) -------------------------------------------
    def local_offer(self, p):
        return self.last_offer[p], "offer"

    def local_answer(self, p):
        if self.last_answer[p] is not None:
            return self.last_answer[p], "answer"
        return retag(self.fabricate_answer(self.last_offer[p]), self.fresh()), "answer"

    def remote_offer(self, p):
        q = 1 - p
        l = self.pcs[q].localDescription
        if self.pcs[q].signalingState == "have-local-offer" and l is not None:
            return l.sdp, "offer"
        return self.last_offer[q], "offer"

    def remote_answer(self, p):
        q = 1 - p
        l = self.pcs[q].localDescription
        if l is not None and l.type == "answer":
            return l.sdp, "answer"
        if self.last_answer[q] is not None:
            return self.last_answer[q], "answer"
        return self.fabricate_answer(self.last_offer[q]), "answer"

    def defective(self, p, variant):
        if variant == "badtype":
            sdp, _ = self.remote_offer(p)
            return sdp, "bogus"
        typ, what = variant.split("-")
        sdp, _ = self.remote_offer(p) if typ == "offer" else self.remote_answer(p)
        if what == "nomux" and "a=rtcp-mux" not in sdp:
            what = "noufrag"
        if what == "noufrag":
            sdp = drop_attr(sdp, "a=ice-ufrag:")
        elif what == "nopwd":
            sdp = drop_attr(sdp, "a=ice-pwd:")
        elif what == "nosetup":
            sdp = drop_attr(sdp, "a=setup:")
        elif what == "actpass":
            sdp = set_setup(sdp, "actpass")
        elif what == "nomux":
            sdp = drop_attr(sdp, "a=rtcp-mux")
        return sdp, typ

    async def run(self):
        from aiortc import RTCPeerConnection, RTCSessionDescription

        self.pcs = [RTCPeerConnection(), RTCPeerConnection()]
        steps = []
        try:
            for p, pc in enumerate(self.pcs):
                if self.cfgs[p] in ("audio", "both"):
                    pc.addTransceiver("audio")
                if self.cfgs[p] in ("dc", "both"):
                    pc.createDataChannel("c14")

                def on_change(p=p):
                    self.ev[p] += 1
                pc.on("signalingstatechange", on_change)
                # aiortc closes a connection by itself (`ensure_future(self.close())` in __updateConnectionState) once
                # all its DTLS transports were closed by the remote side.  That internal call is an event of the
                # environment; it is deferred to the next step boundary and recorded as an `autoClose` step, so that
                # calls stay sequential (the property is about call sequences, not about concurrent calls).
                self.real_close.append(pc.close)

                async def deferred(p=p):
                    self.auto[p] = True
                pc.close = deferred
            # prelude: every peer has created one offer (material for the description arguments)
            for p, pc in enumerate(self.pcs):
                o = await pc.createOffer()
                self.last_offer[p] = retag(o.sdp, self.fresh())

            for call in self.case["calls"]:
                for q in (0, 1):
                    if self.auto[q] and self.pcs[q].signalingState != "closed":
                        before = [self.obs(0), self.obs(1)]
                        try:
                            await self.real_close[q]()
                            res = "ok"
                        except Exception as exc:  # noqa: BLE001
                            res = _exc_name(exc)
                        steps.append({"p": q, "op": "autoClose", "var": None, "arg": None, "created": None, "res": res,
                                      "before": before, "after": [self.obs(0), self.obs(1)]})
                p, op = call[0], call[1]
                var = call[2] if len(call) > 2 else None
                pc = self.pcs[p]
                if (self.cfgs[0] != self.cfgs[1] and op == "setRemoteOffer"
                        and self.pcs[1 - p].signalingState != "have-local-offer"):
                    # asymmetric pair: only an offer that the other peer has applied locally is consistent with the
                    # negotiation history (m-sections keep their mid); nothing to deliver otherwise -> the step is void
                    continue
                before = [self.obs(0), self.obs(1)]
                arg = None       # (sdp, type) handed to the call
                if op == "setLocalOffer":
                    arg = self.local_offer(p)
                elif op == "setLocalAnswer":
                    arg = self.local_answer(p)
                elif op == "setRemoteOffer":
                    s, t = self.remote_offer(p)
                    arg = (retag(s, self.fresh()), t)
                elif op == "setRemoteAnswer":
                    s, t = self.remote_answer(p)
                    arg = (retag(s, self.fresh()), t)
                elif op == "setRemoteMismatched":
                    s, t = self.remote_answer(p)
                    arg = (retag(mismatch(s, var), self.fresh()), t)
                elif op == "setRemoteDefective":
                    s, t = self.defective(p, var)
                    arg = (retag(s, self.fresh()), t)
                elif op == "setLocalTyped":
                    s, _ = self.local_offer(p) if var == "rollback" else self.local_answer(p)
                    arg = (retag(s, self.fresh()), var)
                elif op == "setRemoteTyped":
                    s, _ = self.remote_offer(p) if var == "rollback" else self.remote_answer(p)
                    arg = (retag(s, self.fresh()), var)
                arg_abs = None
                if arg is not None:
                    arg_abs = scan(arg[0], arg[1])
                created = None
                try:
                    if op == "createOffer":
                        d = await pc.createOffer()
                        n = self.fresh()
                        self.last_offer[p] = retag(d.sdp, n)
                        created = scan(d.sdp, d.type)
                        res = f"created={d.type}/{full_str(created['media'])}"
                    elif op == "createAnswer":
                        d = await pc.createAnswer()
                        n = self.fresh()
                        self.last_answer[p] = retag(d.sdp, n)
                        created = scan(d.sdp, d.type)
                        res = f"created={d.type}/{full_str(created['media'])}"
                    elif op == "setLocalImplicit":
                        await pc.setLocalDescription()
                        l = pc.localDescription
                        if l.type == "offer":
                            self.last_offer[p] = retag(l.sdp, self.fresh())
                        else:
                            self.last_answer[p] = retag(l.sdp, self.fresh())
                        res = "ok"
                    elif op in ("setLocalOffer", "setLocalAnswer", "setLocalTyped"):
                        await pc.setLocalDescription(RTCSessionDescription(sdp=arg[0], type=arg[1]))
                        res = "ok"
                    elif op.startswith("setRemote"):
                        await pc.setRemoteDescription(RTCSessionDescription(sdp=arg[0], type=arg[1]))
                        res = "ok"
                    elif op == "close":
                        await self.real_close[p]()
                        res = "ok"
                    elif op == "settle":      # environment: let ICE / DTLS / SCTP run (no call is made)
                        import asyncio
                        await asyncio.sleep(0.4)
                        res = "ok"
                    else:
                        raise RuntimeError("unknown op " + op)
                except Exception as exc:  # noqa: BLE001 - every exception class is an observation
                    res = _exc_name(exc)
                after = [self.obs(0), self.obs(1)]
                steps.append({"p": p, "op": op, "var": var, "arg": arg_abs, "created": created, "res": res,
                              "before": before, "after": after})
        finally:
            for i, pc in enumerate(self.pcs):
                try:
                    await (self.real_close[i] if i < len(self.real_close) else pc.close)()
                except Exception:  # noqa: BLE001
                    pass
        return steps


def _quiet_loop_handler(loop, context):
    pass


def run_case(case):
    """-> (impl string, model line, steps)"""
    import asyncio
    import logging

    logging.disable(logging.CRITICAL)

    async def main():
        asyncio.get_running_loop().set_exception_handler(_quiet_loop_handler)
        return await asyncio.wait_for(_Runner(case).run(), timeout=60)

    try:
        steps = asyncio.run(main())
    except Exception as exc:  # noqa: BLE001
        return "HARNESS-EXC " + type(exc).__name__ + ": " + str(exc)[:200], "signaling run -", []
    out = []
    line = []
    for st in steps:
        if st["op"] == "settle":
            continue
        out.append(st["res"] + "|" + _Runner.obs_str(st["after"][0]) + "|" + _Runner.obs_str(st["after"][1]))
        code = SHORT[st["op"]]
        p = st["p"]
        if code == "co":
            km = keys_str(st["created"]["media"]) if st["created"] else "-"
            line.append(f"{p}:co:{km}")
        elif code == "si":
            l = st["after"][p]["local"]
            km = keys_str(l["media"]) if st["res"] == "ok" and l is not None and l["type"] == "offer" else "-"
            line.append(f"{p}:si:{km}")
        elif code in ("sl", "sr"):
            line.append(f"{p}:{code}:{desc_str(st['arg'])}")
        else:
            line.append(f"{p}:{code}")
    return ";".join(out) or "-", "signaling run " + (";".join(line) or "-"), steps


def _pool_run(case):
    try:
        return run_case(case)
    except Exception as exc:  # noqa: BLE001
        return "HARNESS-EXC " + type(exc).__name__ + ": " + str(exc)[:200], "signaling run -", []


# ----------------------------------------------------------------------------------------------------
# the property on an observed trace (independent of the Lean model)

JSEP = {  # (state, side, type) -> next state
    ("stable", "local", "offer"): "have-local-offer",
    ("have-local-offer", "local", "offer"): "have-local-offer",
    ("have-remote-offer", "local", "answer"): "stable",
    ("stable", "remote", "offer"): "have-remote-offer",
    ("have-remote-offer", "remote", "offer"): "have-remote-offer",
    ("have-local-offer", "remote", "answer"): "stable",
}


def _same(o1, o2, with_events=True):
    a = (o1["state"], slot_str(o1["local"]), slot_str(o1["remote"]))
    b = (o2["state"], slot_str(o2["local"]), slot_str(o2["remote"]))
    return a == b and (not with_events or o1["ev"] == o2["ev"])


def judge_step(st, ext_seen=False):
    """None, or why the step violates C14.  After a pranswer/rollback call (outside the property's alphabet)
    only the clauses that do not depend on the description slots are judged."""
    p, op, res = st["p"], st["op"], st["res"]
    b, a = st["before"][p], st["after"][p]
    q = 1 - p
    if not _same(st["before"][q], st["after"][q]):
        return f"{op} on peer {p} changed the public signalling state of peer {q}"
    if b["state"] == "closed" and a["state"] != "closed":
        return f"closed is not absorbing: {op} moved a closed connection to {a['state']}"
    if op == "settle":
        return None if _same(b, a) else f"the connection changed without a call: {_Runner.obs_str(b)} -> {_Runner.obs_str(a)}"
    if op in EXT_OPS or ext_seen:
        return None
    failed = not (res == "ok" or res.startswith("created="))
    if failed and not _same(b, a):
        return (f"{op} raised {res} but changed the connection: {_Runner.obs_str(b)} -> {_Runner.obs_str(a)}")
    if res.startswith("crash="):
        return f"{op} in state {b['state']} raised {res[6:]} (neither InvalidStateError nor ValueError)"
    if op in ("close", "autoClose"):
        if failed or a["state"] != "closed" or slot_str(a["local"]) != slot_str(b["local"]) or slot_str(a["remote"]) != slot_str(b["remote"]):
            return f"close: result {res}, state {a['state']}"
        return None
    arg = st["arg"]
    if arg is not None and arg["type"] not in ("offer", "answer", "pranswer", "rollback"):
        return None if res == "ValueError" else f"{op} with an invalid type string: {res}, expected ValueError"
    if b["state"] == "closed":
        return None if res == "InvalidStateError" else f"{op} after close: {res}, expected InvalidStateError"
    if op == "createOffer":
        if not res.startswith("created=offer/") or not _same(b, a):
            return f"createOffer in state {b['state']}: {res}"
        if not well_formed(st["created"]):
            return "createOffer returned a description that __validate_description would reject"
        return None
    if op == "createAnswer":
        if b["state"] != "have-remote-offer":
            return None if res == "InvalidStateError" else f"createAnswer in state {b['state']}: {res}, expected InvalidStateError"
        if not res.startswith("created=answer/") or not _same(b, a):
            return f"createAnswer with a pending remote offer: {res}"
        if not well_formed(st["created"]) or keys_str(st["created"]["media"]) != keys_str(b["remote"]["media"]):
            return "createAnswer returned an answer that does not match the pending offer"
        return None
    if op == "setLocalImplicit":
        if failed:
            return f"setLocalDescription() in state {b['state']} raised {res}"
        if b["state"] == "have-remote-offer":
            ok = (a["state"] == "stable" and a["local"] is not None and a["local"]["type"] == "answer"
                  and keys_str(a["local"]["media"]) == keys_str(b["remote"]["media"]))
        else:
            ok = a["state"] == "have-local-offer" and a["local"] is not None and a["local"]["type"] == "offer"
        if not ok or slot_str(a["remote"]) != slot_str(b["remote"]):
            return f"setLocalDescription() in state {b['state']}: now {_Runner.obs_str(a)}"
        return None
    side = "local" if op.startswith("setLocal") else "remote"
    nxt = JSEP.get((b["state"], side, arg["type"]))
    if nxt is None:
        return None if res == "InvalidStateError" else (
            f"{op}({arg['type']}) is illegal in state {b['state']} but gave {res}, expected InvalidStateError")
    counterpart = b["remote"] if side == "local" else b["local"]
    bad = not well_formed(arg)
    if arg["type"] == "answer" and (counterpart is None or keys_str(arg["media"]) != keys_str(counterpart["media"])):
        bad = True
    if bad:
        return None if res == "ValueError" else (
            f"{op}({arg['type']}) with a defective/mismatched description in state {b['state']} gave {res}, expected ValueError")
    if failed:
        return f"legal {op}({arg['type']}) in state {b['state']} raised {res}"
    other = "remote" if side == "local" else "local"
    if a["state"] != nxt or slot_str(a[side]) != slot_str(arg) or slot_str(a[other]) != slot_str(b[other]):
        return (f"legal {op}({arg['type']}) in state {b['state']}: expected state {nxt} and {side}Description {slot_str(arg)}, "
                f"got {_Runner.obs_str(a)}")
    if a["ev"] - b["ev"] not in ((1,) if a["state"] != b["state"] else (0, 1)):
        return f"legal {op}({arg['type']}) emitted {a['ev'] - b['ev']} signalingstatechange events"
    return None


# ----------------------------------------------------------------------------------------------------


def _with_variants(rng, calls):
    out = []
    for c in calls:
        p, op = c[0], c[1]
        if op == "setRemoteMismatched":
            out.append([p, op, rng.choice(MISMATCH)])
        elif op == "setRemoteDefective":
            out.append([p, op, rng.choice(DEFECTS)])
        elif op in EXT_OPS:
            out.append([p, op, rng.choice(["pranswer", "rollback"])])
        else:
            out.append([p, op])
    return out


class Signaling(Component):
    name = "signaling"
    theorems = ["step_refines_jsep", "run_refines_jsep", "failed_call_no_effect", "illegal_no_effect", "defective_no_effect",
                "closed_absorbing", "closed_rejects", "no_crash", "implicit_never_fails", "inv_reachable"]

    def __init__(self):
        self._cache = {}
        self._batch = []

    def corpus(self):
        return [
            # defect #14 (fixes/C14-dtls-params-missing.patch): answer / offer without a=setup
            {"cfg": "dc", "calls": [[0, "setLocalOffer"], [0, "setRemoteDefective", "answer-nosetup"]]},
            {"cfg": "dc", "calls": [[0, "setRemoteDefective", "offer-nosetup"]]},
            {"cfg": "audio", "calls": [[1, "setLocalImplicit"], [1, "setRemoteDefective", "answer-nosetup"], [1, "setRemoteAnswer"]]},
            # defect #15 (fixes/C14-answer-unmatched-transceiver.patch): answerer owns a transceiver the offer does not match
            {"cfg": "dc|both", "calls": [[0, "setLocalImplicit"], [1, "setRemoteOffer"], [1, "createAnswer"], [1, "setLocalAnswer"]]},
            {"cfg": "dc|both", "calls": [[0, "setLocalImplicit"], [1, "setRemoteOffer"], [1, "setLocalImplicit"], [0, "setRemoteAnswer"]]},
            # complete negotiation, re-negotiation in the other direction, close
            {"cfg": "both", "calls": [[0, "createOffer"], [0, "setLocalOffer"], [1, "setRemoteOffer"], [1, "createAnswer"],
                                      [1, "setLocalAnswer"], [0, "setRemoteAnswer"], [1, "setLocalImplicit"], [0, "setRemoteOffer"],
                                      [0, "setLocalImplicit"], [1, "setRemoteAnswer"], [0, "close"], [0, "setRemoteOffer"],
                                      [0, "createOffer"], [1, "close"], [1, "setLocalImplicit"]]},
            # connection established, peer 0 closes, aiortc closes peer 1 by itself (autoClose step), then calls on peer 1
            {"cfg": "dc", "calls": [[0, "setLocalImplicit"], [1, "setRemoteOffer"], [1, "setLocalImplicit"], [0, "setRemoteAnswer"],
                                    [0, "settle"], [0, "close"], [0, "settle"], [1, "createOffer"], [1, "setRemoteOffer"]]},
            {"cfg": "both", "calls": [[1, "setLocalImplicit"], [0, "setRemoteOffer"], [0, "setLocalImplicit"], [1, "setRemoteAnswer"],
                                      [0, "settle"], [1, "close"], [0, "settle"], [0, "setLocalImplicit"], [0, "close"]]},
        ]

    def cases(self, rng, tier):
        out = []
        alphabet = [(p, op) for p in (0, 1) for op in OPS]
        maxlen = 3 if tier == "quick" else 4
        for n in range(1, maxlen + 1):
            for seq in itertools.product(alphabet, repeat=n):
                if n >= 3 and seq[0][0] != 0:
                    continue          # mirror image (identical peers) of a sequence starting on peer 0
                out.append({"cfg": "dc", "calls": _with_variants(rng, seq)})
        # the same short sequences on the other symmetric configurations (sample)
        n_short = 600 if tier == "quick" else 4000
        for _ in range(n_short):
            n = rng.choice([2, 3, 3])
            seq = [rng.choice(alphabet) for _ in range(n)]
            out.append({"cfg": rng.choice(["audio", "both"]), "calls": _with_variants(rng, seq)})
        # random longer sequences, biased towards progress (a walk that mostly follows a legal next call)
        n_rand = 1000 if tier == "quick" else 12000
        for i in range(n_rand):
            n = rng.randrange(4, 13)
            cfg = rng.choice(CFGS) if i % 3 else rng.choice(["dc", "audio", "both"])
            sym = "|" not in cfg
            seq = []
            for _ in range(n):
                r = rng.random()
                if r < 0.55:
                    op = rng.choice(["setLocalImplicit", "setRemoteOffer", "setRemoteAnswer", "createAnswer", "setLocalAnswer",
                                     "createOffer", "setLocalOffer"])
                elif r < 0.97:
                    op = rng.choice(OPS[:-1])
                else:
                    op = "close"
                if not sym and op in ("setLocalOffer", "setLocalAnswer"):
                    # asymmetric pairs: stale offers/answers are not consistent with the history -> create afresh
                    seq.append((rng.randrange(2), "setLocalImplicit"))
                    continue
                seq.append((rng.randrange(2), op))
            if i % 10 == 0:
                seq.insert(rng.randrange(len(seq) // 2, len(seq) + 1), (0, "settle"))
            out.append({"cfg": cfg, "calls": _with_variants(rng, seq)})
        # pranswer / rollback (outside the property's alphabet): ties the model's treatment of them
        n_ext = 150 if tier == "quick" else 2000
        for _ in range(n_ext):
            n = rng.randrange(1, 6)
            seq = [(rng.randrange(2), rng.choice(OPS + EXT_OPS * 3)) for _ in range(n)]
            out.append({"cfg": "dc", "calls": _with_variants(rng, seq), "ext": True})
        self._batch = list(self.corpus()) + out
        return out

    # ---- evaluation with a process pool -------------------------------------------------------------
    def _fill(self):
        todo = [c for c in self._batch if case_key(c) not in self._cache]
        self._batch = []
        if not todo:
            return
        from harness import core
        core.use_repo()
        import multiprocessing as mp
        nproc = min(16, os.cpu_count() or 1, max(1, len(todo) // 20))
        if nproc <= 1:
            results = [_pool_run(c) for c in todo]
        else:
            with mp.get_context("fork").Pool(nproc) as pool:
                results = pool.map(_pool_run, todo, chunksize=max(1, min(100, len(todo) // (nproc * 4))))
        for c, r in zip(todo, results):
            self._cache[case_key(c)] = r

    def _get(self, case):
        k = case_key(case)
        if k not in self._cache:
            if self._batch:
                self._fill()
            if k not in self._cache:
                from harness import core
                core.use_repo()
                self._cache[k] = _pool_run(case)
        return self._cache[k]

    def impl(self, case):
        return self._get(case)[0]

    def model_line(self, case):
        return self._get(case)[1]

    def oracle(self, case, impl_out):
        out, _line, steps = self._get(case)
        if out.startswith("HARNESS-EXC"):
            return "the harness could not run the case: " + out
        ext_seen = False
        for i, st in enumerate(steps):
            why = judge_step(st, ext_seen)
            if why:
                return f"step {i}: {why}"
            ext_seen = ext_seen or st["op"] in EXT_OPS
        return None

    def label(self, case, impl_out):
        _out, _line, steps = self._get(case)
        if not steps:
            return "empty"
        st = steps[-1]
        res = st["res"].split("/")[0]
        lab = f"{st['op']}@{st['before'][st['p']]['state']}:{res}"
        if case.get("ext"):
            lab = "ext:" + lab
        return lab

    def nontrivial(self, case, impl_out):
        return bool(case["calls"])

    def shrink(self, case):
        calls = case["calls"]
        for i in range(len(calls) - 1, -1, -1):
            yield dict(case, calls=calls[:i] + calls[i + 1:])
        if case["cfg"] != "dc":
            yield dict(case, cfg="dc")


def components(tier):
    return [Signaling()]


def classify_finding(finding, comp_name, case, what):
    return False
