"""C14 — signalling follows the JSEP state machine; illegal calls have no side effects.

Trace acceptance: a REAL pair of RTCPeerConnection objects is driven with call sequences over the
property's alphabet; after every call the exception class, `signalingState`, the identity / type / media
sections of `localDescription` and `remoteDescription` and the number of `signalingstatechange` events of
BOTH peers are compared with the prediction of the compiled Lean model (Model/Jsep/Signaling.lean).
The oracle re-evaluates the property on the observed trace alone with a small JSEP table written in Python.

Descriptions are handed to the model as their text has them (session-level / media-level ice-ufrag, ice-pwd, setup per
m-section); which sections are defective is decided by the model (Model/Jsep/Inherit.lean) and, independently, by the
harness's own scanner for the oracle.  Defects are applied to every subset of the m-sections of multi-section
descriptions (`defect_matrix`).  Besides call sequences there are schedules with TWO calls in flight on one connection
(`race`): the model runs them segment by segment (Model/Jsep/Segments.lean), the oracle checks that once a close() has
returned the public state of that connection never changes again.

Round 3: descriptions are VALUES for the property ("the local/remote descriptions are left unchanged").  The public state of every
connection (signalingState, type AND text of localDescription / remoteDescription, transceiver mids / directions) is re-read through
the public API after every call and compared with immutable copies taken before it.  Calls RE-USE texts (`setLocalReuse` /
`setRemoteReuse`: any text the pair stores / was handed / created, verbatim, under every type), the same description OBJECT travels
to every call that is given the same (text, type), in `mut` cases the application overwrites every description object after use, and
`twin` cases run a second pair in the same process that is fed the first pair's texts (Model/Jsep/System.lean, Props/C14Reuse.lean).
"""
from __future__ import annotations

import itertools
import json
import os
import zlib

from harness.check import Component, case_key

LEAN_TARGETS = ["Aiortc.Props.C14", "Aiortc.Props.C14Flight", "Aiortc.Props.C14Reuse"]
AUDIT_PROPS = ["C14", "C14Flight", "C14Reuse"]
DRIVERS = ["Signaling"]
MANIFEST = {
    "technique": "Lean 4 refinement proof (abstract signalling model of RTCPeerConnection refines a JSEP spec, for all call "
                 "sequences) + trace acceptance of real RTCPeerConnection pairs against the compiled model",
    "text": "Model/Jsep/Signaling.lean mirrors the guards of createOffer/createAnswer/setLocalDescription/setRemoteDescription/"
            "close and __validate_description (order of checks kept) over an abstract state (signalling state, closed latch, four "
            "description slots). Props/C14.lean proves for ALL call sequences over offers/answers (any content): refinement of a "
            "20-line JSEP machine, a failing call leaves the whole state unchanged, illegal calls raise InvalidStateError, "
            "defective/mismatched descriptions raise ValueError, closed is absorbing, no other exception class can occur. "
            "The tie drives real pairs (all sequences up to length 3 quick / 4 thorough over 20 symbols, plus random longer ones "
            "over several media configurations) and diffs every step against the model. "
            "Model/Jsep/Inherit.lean models how SessionDescription.parse resolves session-level vs media-level ice-ufrag/ice-pwd/"
            "setup per m-section; Props/C14Flight.lean proves that one defective section anywhere (any subset, any position) gives "
            "ValueError without effect and that session-level attributes cover all sections; the tie applies every defect kind to "
            "every subset of the sections of audio/video/data descriptions (bundled or not), at media or session level, offers and "
            "answers, in every signalling state. Model/Jsep/Segments.lean splits every call into its atomic segments between awaits; "
            "Props/C14Flight.lean proves closed absorbing for any number of calls in flight under any schedule and that a call "
            "overtaken by close() refines the JSEP machine as 'close, then the call'; the tie starts a call as a task, steps the "
            "event loop k times, issues close() or another negotiation call, and compares with the model run on the observed schedule. "
            "Round 3: descriptions are values in the model; Props/C14Reuse.lean states the instances where a call carries a text the "
            "connection already stores under another type (rejected, stored type unchanged) or the same description twice, and proves "
            "that connections of one process are independent (Model/Jsep/System.lean: runSys_proj - each connection follows `run` on "
            "the calls that name it). The tie hands every text a pair has stored / been given / created back to either call of either "
            "peer under every type, passes one description object per (text, type) to all calls, lets the application overwrite "
            "description objects after use, runs a second pair in the same process on the first pair's texts, and compares the whole "
            "public state (type and text of both descriptions, transceivers) re-read after the call with copies taken before it.",
    "note": "The model is of the tree with fixes/C14-dtls-params-missing.patch and fixes/C14-answer-unmatched-transceiver.patch "
            "applied; the unpatched tree fails the corpus witnesses (AttributeError instead of ValueError; state changed by a "
            "raising setLocalDescription(answer)). pranswer/rollback are outside the property's alphabet (modelled, tied by an "
            "extra stream, not judged by the oracle).",
    "design_ref": "DESIGN.md §2 C14",
}
ASSUMPTIONS = [
    "the theorems quantify over call sequences whose descriptions have type offer/answer (or a type string that RTCSessionDescription "
    "rejects); pranswer and rollback are outside the property's alphabet: aiortc accepts them in every state except closed "
    "(theorem ext_types_rejected_when_closed: since the C19 close() fix a closed connection rejects them too)",
    "what createOffer puts into an offer (media sections) is an input of the model; createAnswer is modelled as echoing the "
    "(kind, mid) list of the remote offer, which holds when the remote offers are consistent with the negotiation history "
    "(m-sections keep their mid), as JSEP requires of the remote side",
    "the theorems of Props/C14.lean are about calls awaited one after the other; for calls in flight together "
    "(Props/C14Flight.lean) only `closed is absorbing` and the refinement of a call overtaken by close() are claimed - two "
    "NEGOTIATION calls in flight on one connection are modelled and tied (as the code behaves), but the property says nothing "
    "about them and the oracle judges only the closed clause there",
    "segment boundaries: as far as signalingState / the closed latch / the description slots go, setLocalDescription suspends only "
    "in `await self.__gather()`, setRemoteDescription only between validation and the `__assertNotClosed()` that precedes its state "
    "update, createOffer/createAnswer not at all, close() sets latch and state before its first await (read off the code; the tie "
    "checks the consequences on every schedule it can produce by stepping the event loop, not the boundaries themselves)",
]
TRUSTED_EXTRA = [
    "everything of setLocalDescription/setRemoteDescription after validation that does not touch signalingState or the description "
    "slots (transceiver/mid assignment, codec negotiation incl. OperationError, DTLS/ICE roles, gathering, __connect) is outside the "
    "model; the trace acceptance would show an exception escaping from it as a disagreement",
    "the harness abstracts SDP text to (type, session-level ice-ufrag?/ice-pwd?/setup class, [(kind, mid, own ice-ufrag?, own "
    "ice-pwd?, own setup class, rtcp-mux?)]) with its own line scanner; Model/Jsep/Inherit.lean is a model of the corresponding "
    "part of SessionDescription.parse (tied through the acceptance / rejection of every description the cases deliver)",
    "only localDescription / remoteDescription are public in aiortc (no current/pending getters): the four slots are observed "
    "through them; transceivers are observed as (kind, mid, direction, currentDirection) + the SCTP transport's mid and compared "
    "only where the property demands `unchanged` (a call that raised, a connection that was not called); not for pranswer / rollback "
    "(setRemoteDescription applies their media sections before it notices that the connection is closed)",
    "which schedule a race took is observed from outside (had the first call returned before the second was issued; which of the "
    "two returned first); the model is run on that schedule",
]
RULE = ("case = media configuration of the two peers + call sequence [(peer, op, variant)] over {createOffer, createAnswer, "
        "setLocal(offer|answer|implicit), setRemote(offer|answer|mismatched|defective), close} x {peer 0, peer 1}; quick: every "
        "sequence of length <= 3 (data-channel pair; from length 3 on only those whose first call is on peer 0, the peers being "
        "identical) + random sequences of length 4..12 over 10 configurations (data channel / audio / video in several combinations, "
        "asymmetric pairs, non-bundled delivery); thorough: every sequence of length <= 4 + more random ones; variants of "
        "mismatched/defective drawn per occurrence: defect kind (no / empty ice-ufrag, ice-pwd, both, no setup, actpass in an answer, "
        "no rtcp-mux) x subset of the m-sections x placement (media level only / also at session level), mismatch per section "
        "(mid renamed / dropped, kind changed, section dropped / added / swapped); defect matrix: 5 multi-section configurations x 2 "
        "peers x 8 prefixes (every signalling state, fresh and after a negotiation) x offer/answer x defect kind x placement, the "
        "defect applied to EVERY non-empty subset of the sections (one call each) and followed by the legal call (quick: 280 drawn, "
        "thorough: all 2400); mismatch matrix likewise; races: first call started as a task, event loop stepped k in "
        "{0,1,2,3,4,6,9,14} times, second call awaited, then the first - all pairs (negotiation call, close) / (close, negotiation "
        "call) / (close, close) x 8 prefixes x 3 configurations x 2 peers (quick: 420 drawn, thorough: all 5760) + pairs of "
        "negotiation calls (120 / 2500 drawn), followed by calls that must find the connection closed; re-use matrix: 3 "
        "configurations x 2 peers x 8 states (descriptions applied explicitly) x setLocal/setRemote x 14 sources (localDescription / "
        "remoteDescription getter, text last accepted by setLocal / setRemote, text last handed to any call, created offer / answer - "
        "of the peer and of its partner) x 5 types, the call issued twice (same object) and followed by a legal call (quick: 420 "
        "drawn, thorough: all 6720), every second case with the application overwriting description objects after each call; twin "
        "matrix: pair A in 4 states x pair B fresh / with an own offer / holding the same texts x 10 sources of pair A x 4 types "
        "(quick: 140 drawn, thorough: all 5120); short random sequences ending in re-use calls (300 / 4000, a quarter over two "
        "pairs); the random walks draw re-use calls with probability 0.09 and a quarter of them runs in `mut` mode; distinct = "
        "distinct (configuration, sequence)")

OPS = ["createOffer", "createAnswer", "setLocalOffer", "setLocalAnswer", "setLocalImplicit",
       "setRemoteOffer", "setRemoteAnswer", "setRemoteMismatched", "setRemoteDefective", "close"]
EXT_OPS = ["setLocalTyped", "setRemoteTyped"]          # pranswer / rollback: outside the property's alphabet
# round 3: a description whose TEXT is one the pair (or a second pair in the same process) has already seen, handed to the
# call verbatim (no fresh tag) under any type.  variant = "<owner><what>-<type>":
#   owner  o = the peer itself, p = its partner, x = the peer's twin in the second pair, y = the partner's twin
#   what   l / r = the sdp of that peer's localDescription / remoteDescription as the public getter returns it now,
#          L / R = the text last handed to a setLocalDescription / setRemoteDescription of that peer that succeeded,
#          n = the text last handed to any set*Description of that peer, accepted or not (edited copies - mismatched /
#              defective - excepted),
#          c / a = the offer / answer that peer created last (as the application passes it on)
#   type   offer | answer | pranswer | rollback | bogus
REUSE_OPS = ["setLocalReuse", "setRemoteReuse"]
REUSE_WHAT = "lrLRnca"
REUSE_TYPES = ["offer", "answer", "pranswer", "rollback", "bogus"]
MISMATCH = ["mid", "extra", "drop"]
# defect kinds the validator knows: what is taken away from (emptied in) the selected m-sections; variant string =
# "<offer|answer>-<kind>[-<sections>[-<m|s>]]" (sections: 'all' or digits; m = media level only, s = also at session level)
DEFECT_KINDS = {"offer": ["noufrag", "nopwd", "nocred", "emptyufrag", "emptypwd", "nosetup", "nomux"],
                "answer": ["noufrag", "nopwd", "nocred", "emptyufrag", "emptypwd", "nosetup", "actpass", "nomux"]}
CFGS = ["dc", "audio", "both", "dc|both", "both|audio", "av", "avd", "avd/u", "va", "av|avd"]
MULTI_CFGS = ["both", "av", "avd", "avd/u", "va"]
SHORT = {"createOffer": "co", "createAnswer": "ca", "setLocalOffer": "sl", "setLocalAnswer": "sl", "setLocalImplicit": "si",
         "setRemoteOffer": "sr", "setRemoteAnswer": "sr", "setRemoteMismatched": "sr", "setRemoteDefective": "sr",
         "setLocalTyped": "sl", "setRemoteTyped": "sr", "setLocalReuse": "sl", "setRemoteReuse": "sr",
         "close": "cl", "autoClose": "cl"}

# ----------------------------------------------------------------------------------------------------
# SDP text helpers (the harness's own scanner; aiortc's parser is not used for abstraction)


def _lines(sdp):
    return [l for l in sdp.replace("\r\n", "\n").split("\n") if l]


def _join(lines):
    return "\r\n".join(lines) + "\r\n"


def _scan_attr(level, l):
    """record what ONE level (session part or one m-section) says about ICE credentials / DTLS setup"""
    if l.startswith("a=ice-ufrag:"):
        level["ufrag"] = len(l) > len("a=ice-ufrag:")
    elif l.startswith("a=ice-pwd:"):
        level["pwd"] = len(l) > len("a=ice-pwd:")
    elif l.startswith("a=setup:"):
        level["role"] = {"actpass": "a", "active": "d", "passive": "d"}.get(l[len("a=setup:"):], "?")


def scan(sdp, typ):
    """abstract description: {'id', 'type', 'sess': level, 'media': [{'kind','mid','mux','own': level, 'ufrag','pwd','role'}]}

    level = {'ufrag': None|False|True, 'pwd': None|False|True, 'role': None|'a'|'d'|'?'}: what the lines of that level say
    (None = no such line, False = line with an empty value).  'ufrag'/'pwd'/'role' of a media section are the values in
    force for that section: its own line if it has one, else the session-level one (RFC 8839 §5.4 / RFC 8842 §5:
    a session-level ice-ufrag / ice-pwd / setup is the default of every m-section; a media-level line covers only its
    own section).  `a=rtcp-mux` and `a=mid` are media-level only."""
    ident = 0
    sess = {"ufrag": None, "pwd": None, "role": None}
    media = []
    cur = None
    for l in _lines(sdp):
        if l.startswith("s="):
            v = l[2:]
            ident = int(v[1:]) if v.startswith("d") and v[1:].isdigit() else 0
        elif l.startswith("m="):
            cur = {"kind": l[2:].split(" ")[0], "mid": "", "mux": False, "own": {"ufrag": None, "pwd": None, "role": None}}
            media.append(cur)
        elif l.startswith("a="):
            _scan_attr(cur["own"] if cur is not None else sess, l)
            if cur is not None and l == "a=rtcp-mux":
                cur["mux"] = True
            elif cur is not None and l.startswith("a=mid:"):
                cur["mid"] = l[len("a=mid:"):]
    for m in media:
        own = m["own"]
        m["ufrag"] = bool(own["ufrag"] if own["ufrag"] is not None else sess["ufrag"])
        m["pwd"] = bool(own["pwd"] if own["pwd"] is not None else sess["pwd"])
        m["role"] = own["role"] or sess["role"] or "n"
    return {"id": ident, "type": typ, "sess": sess, "media": media, "h": "%08x" % zlib.crc32(sdp.encode())}


def keys_str(media):
    return "+".join(f"{m['kind']}.{m['mid']}" for m in media) or "-"


def full_str(media):
    """the values in force per section (what the validator has to look at)"""
    return "+".join(f"{m['kind']}.{m['mid']}.{int(m['ufrag'])}{int(m['pwd'])}{int(m['mux'])}{m['role']}" for m in media) or "-"


def _tri(v):
    return "-" if v is None else str(int(v))


def _level_str(lv):
    return _tri(lv["ufrag"]) + _tri(lv["pwd"]) + (lv["role"] or "-")


def desc_str(a):
    """wire form for the model: the RAW levels (session part + own lines of each section); the model resolves them
    itself (Model/Jsep/Inherit.lean), the oracle uses the harness's own resolution in `scan`"""
    med = "+".join(f"{m['kind']}.{m['mid']}.{_tri(m['own']['ufrag'])}{_tri(m['own']['pwd'])}{int(m['mux'])}{m['own']['role'] or '-'}"
                   for m in a["media"]) or "-"
    return f"{a['id']}/{a['type']}/{_level_str(a['sess'])}/{med}"


def slot_str(a):
    return "-" if a is None else f"{a['id']}/{a['type']}/{keys_str(a['media'])}"


def media_defects(a):
    """per section: the list of what `__validate_description` has to object to (empty = the section is fine)"""
    out = []
    for m in a["media"]:
        bad = []
        if not (m["ufrag"] and m["pwd"]):
            bad.append("ice")
        if m["role"] == "n":
            bad.append("setup")
        elif a["type"] in ("answer", "pranswer") and m["role"] != "d":
            bad.append("role")
        if m["kind"] in ("audio", "video") and not m["mux"]:
            bad.append("mux")
        out.append(bad)
    return out


def well_formed(a):
    return not any(media_defects(a))


def retag(sdp, n):
    return _join([f"s=d{n}" if l.startswith("s=") else l for l in _lines(sdp)])


def set_setup(sdp, value):
    return _join([f"a=setup:{value}" if l.startswith("a=setup:") else l for l in _lines(sdp)])


def unbundle(sdp):
    return _join([l for l in _lines(sdp) if not l.startswith("a=group:BUNDLE")])


def _sections(sdp):
    sess, secs = [], []
    for l in _lines(sdp):
        if l.startswith("m="):
            secs.append([l])
        elif secs:
            secs[-1].append(l)
        else:
            sess.append(l)
    return sess, secs


def _rebuild(sess, secs):
    mids = [l[len("a=mid:"):] for s in secs for l in s if l.startswith("a=mid:")]
    sess = [("a=group:BUNDLE " + " ".join(mids)).rstrip() if l.startswith("a=group:BUNDLE") else l for l in sess]
    return _join(sess + [l for s in secs for l in s])


def _select(sel, n):
    """section selector of a variant -> indices: 'all' or a digit string; digits beyond the description's sections are
    dropped, an empty selection means the LAST section"""
    if n == 0:
        return []
    if sel == "all":
        return list(range(n))
    idx = sorted({int(ch) for ch in sel if ch.isdigit() and int(ch) < n})
    return idx or [n - 1]


DEFECT_LINES = {"noufrag": ["a=ice-ufrag:"], "nopwd": ["a=ice-pwd:"], "nocred": ["a=ice-ufrag:", "a=ice-pwd:"],
                "emptyufrag": ["a=ice-ufrag:"], "emptypwd": ["a=ice-pwd:"], "nosetup": ["a=setup:"], "actpass": ["a=setup:"],
                "nomux": ["a=rtcp-mux"]}


def apply_defect(sdp, what, sel="all", place="m"):
    """Edit the description: attribute(s) of defect kind `what` are taken out of (or emptied in / set to actpass in) the
    selected m-sections.  place 'm': nothing else; place 's': the attribute is ALSO written at session level (value of the
    first selected section that had it), which for ice-ufrag / ice-pwd / setup legitimately covers the sections that lost
    theirs (=> no defect), but not for rtcp-mux, an emptied value or actpass.  What the result lacks is decided by `scan`."""
    sess, secs = _sections(sdp)
    idx = _select(sel, len(secs))
    if what == "nomux" and not any(l == "a=rtcp-mux" for i in idx for l in secs[i]):
        what = "noufrag"       # no RTP section selected: nothing to take away, use another defect
    prefixes = DEFECT_LINES[what]
    hoisted = []
    for i in idx:
        keep = []
        for l in secs[i]:
            hit = next((p for p in prefixes if l.startswith(p)), None)
            if hit is None:
                keep.append(l)
                continue
            if not any(h.startswith(hit) for h in hoisted):
                hoisted.append("a=setup:actpass" if what == "actpass" else l)
            if what in ("emptyufrag", "emptypwd"):
                keep.append(hit)
            elif what == "actpass" and place != "s":
                keep.append("a=setup:actpass")
        secs[i] = keep
    if place == "s":
        sess = sess + hoisted
    return _join(sess + [l for s in secs for l in s])


def mismatch(sdp, variant):
    """an answer whose (kind, mid) list differs from the offer's; `x@i` touches section i (mod number of sections)"""
    sess, secs = _sections(sdp)
    n = len(secs)
    name, _, at = variant.partition("@")
    i = (int(at) % n) if (at.isdigit() and n) else None
    if name == "swap" and n < 2:
        name, i = "mid", None
    if name == "kind" and (i is None or secs[i][0].split(" ")[0] not in ("m=audio", "m=video")):
        name = "mid"
    pick = (lambda j: True) if i is None else (lambda j: j == i)
    if name == "mid":
        secs = [[(l + "9") if (l.startswith("a=mid:") and pick(j)) else l for l in s] for j, s in enumerate(secs)]
    elif name == "nomid":
        secs = [[l for l in s if not (l.startswith("a=mid:") and pick(j))] for j, s in enumerate(secs)]
    elif name == "kind":
        head = secs[i][0]
        head = "m=video" + head[len("m=audio"):] if head.startswith("m=audio") else "m=audio" + head[len("m=video"):]
        secs[i] = [head] + secs[i][1:]
    elif name == "swap":
        j = (i if i is not None else 0) % n
        k = (j + 1) % n
        secs[j], secs[k] = secs[k], secs[j]
    elif name == "extra":
        secs = secs + [[("a=mid:7" if l.startswith("a=mid:") else l) for l in secs[-1]]]
    elif name == "drop":
        j = n - 1 if i is None else i
        secs = secs[:j] + secs[j + 1:]
    return _rebuild(sess, secs)


# ----------------------------------------------------------------------------------------------------
# running a case on the real code


def _exc_name(exc):
    n = type(exc).__name__
    if n in ("InvalidStateError", "ValueError"):
        return n
    return "crash=" + n


CFG_MEDIA = {"dc": "d", "audio": "a", "both": "ad", "av": "av", "avd": "avd", "va": "va"}


def _cfg_parts(cfg):
    """'x|y' = different media for the two peers; suffix '/u' = every description is delivered to the remote side without
    its `a=group:BUNDLE` line (non-bundled negotiation: one transport per m-section at the receiver)"""
    unb = cfg.endswith("/u")
    if unb:
        cfg = cfg[:-2]
    parts = cfg.split("|") if "|" in cfg else [cfg, cfg]
    return parts, unb


class _Runner:
    def __init__(self, case):
        self.case = case
        self.cfgs, self.unbundled = _cfg_parts(case["cfg"])
        self.n = 4 if case.get("twin") else 2      # twin: a SECOND pair (peers 2, 3) in the same process
        self.mut = bool(case.get("mut"))           # the application overwrites description objects after use
        self.next_id = 1
        self.ev = [0] * self.n
        self.last_offer = [None] * self.n  # sdp created by / for the peer
        self.last_answer = [None] * self.n
        self.passed = [{"L": None, "R": None, "n": None} for _ in range(self.n)]   # texts handed to set*Description
        self.objs = {}                     # (sdp, type) -> the RTCSessionDescription OBJECT the application holds
        self.auto = [False] * self.n       # the connection asked to close itself
        self.real_close = []

    def fresh(self):
        n = self.next_id
        self.next_id += 1
        return n

    def obs(self, p):
        """the public state of peer p, re-read through the public API and copied into immutable values NOW (nothing in the
        result refers to an object of the implementation): signalingState, type / text of localDescription and
        remoteDescription, the transceivers' (kind, mid, direction, currentDirection) and the SCTP transport's mid"""
        pc = self.pcs[p]
        l, r = pc.localDescription, pc.remoteDescription
        la = scan(str(l.sdp), str(l.type)) if l is not None else None
        ra = scan(str(r.sdp), str(r.type)) if r is not None else None
        return {"state": str(pc.signalingState), "local": la, "remote": ra, "ev": self.ev[p], "xt": self.transceivers(pc)}

    @staticmethod
    def transceivers(pc):
        try:
            out = [f"{t.kind}.{t.mid}.{t.direction}.{t.currentDirection}" for t in pc.getTransceivers()]
            if pc.sctp is not None:
                out.append(f"sctp.{pc.sctp.mid}")
            return "+".join(out) or "-"
        except AttributeError:        # not observable on this tree: not judged
            return "?"

    def all_obs(self):
        return [self.obs(i) for i in range(self.n)]

    @staticmethod
    def obs_str(o):
        return f"{o['state']},{slot_str(o['local'])},{slot_str(o['remote'])},{o['ev']}"

    def fabricate_answer(self, offer_sdp):
        return set_setup(offer_sdp, "active")

    def wire(self, sdp):
        return unbundle(sdp) if self.unbundled else sdp

    # ---- which description a call gets (see notes/C14.md) -------------------------------------------
    def local_offer(self, p):
        return self.last_offer[p], "offer"

    def local_answer(self, p):
        if self.last_answer[p] is not None:
            return self.last_answer[p], "answer"
        return retag(self.fabricate_answer(self.last_offer[p]), self.fresh()), "answer"

    def remote_offer(self, p):
        q = p ^ 1
        l = self.pcs[q].localDescription
        if self.pcs[q].signalingState == "have-local-offer" and l is not None:
            return self.wire(l.sdp), "offer"
        return self.wire(self.last_offer[q]), "offer"

    def remote_answer(self, p):
        q = p ^ 1
        l = self.pcs[q].localDescription
        if l is not None and l.type == "answer":
            return self.wire(l.sdp), "answer"
        if self.last_answer[q] is not None:
            return self.wire(self.last_answer[q]), "answer"
        return self.wire(self.fabricate_answer(self.last_offer[q])), "answer"

    def defective(self, p, variant):
        if variant == "badtype":
            sdp, _ = self.remote_offer(p)
            return sdp, "bogus"
        parts = variant.split("-")
        typ, what = parts[0], parts[1]
        sel = parts[2] if len(parts) > 2 else "all"
        place = parts[3] if len(parts) > 3 else "m"
        sdp, _ = self.remote_offer(p) if typ == "offer" else self.remote_answer(p)
        return apply_defect(sdp, what, sel, place), typ

    def source(self, p, src):
        """the text a re-use variant refers to (None: there is no such text yet)"""
        who = {"o": p, "p": p ^ 1, "x": p ^ 2, "y": p ^ 3}[src[0]]
        if who >= self.n:
            who &= 1                # no second pair in this case: the twin of a peer is the peer itself
        what = src[1]
        if what in "lr":
            d = self.pcs[who].localDescription if what == "l" else self.pcs[who].remoteDescription
            return None if d is None else str(d.sdp)
        if what == "c":
            return self.last_offer[who]
        if what == "a":
            return self.last_answer[who]
        return self.passed[who][what]

    def arg_for(self, p, op, var):
        """(sdp, type) handed to the call, None for calls without a description argument, 'void' if a re-use variant
        refers to a text that does not exist yet"""
        if op in REUSE_OPS:
            src, _, typ = var.partition("-")
            text = self.source(p, src)
            return "void" if text is None else (text, typ)
        if op == "setLocalOffer":
            return self.local_offer(p)
        if op == "setLocalAnswer":
            return self.local_answer(p)
        if op == "setRemoteOffer":
            s, t = self.remote_offer(p)
        elif op == "setRemoteAnswer":
            s, t = self.remote_answer(p)
        elif op == "setRemoteMismatched":
            s, t = self.remote_answer(p)
            s = mismatch(s, var)
        elif op == "setRemoteDefective":
            s, t = self.defective(p, var)
        elif op == "setLocalTyped":
            s, _ = self.local_offer(p) if var == "rollback" else self.local_answer(p)
            t = var
        elif op == "setRemoteTyped":
            s, _ = self.remote_offer(p) if var == "rollback" else self.remote_answer(p)
            t = var
        else:
            return None
        return retag(s, self.fresh()), t

    async def invoke(self, p, op, arg, info):
        """one API call on peer p; -> result string; `info['created']` = abstract description a create* call returned"""
        from aiortc import RTCSessionDescription

        pc = self.pcs[p]
        if op in ("createOffer", "createAnswer"):
            d = await (pc.createOffer() if op == "createOffer" else pc.createAnswer())
            info["created"] = scan(d.sdp, d.type)
            # the application tags the description it got (writes into the OBJECT the call returned) and keeps that object
            # for the set*Description calls that follow
            text = retag(d.sdp, self.fresh())
            if op == "createOffer":
                self.last_offer[p] = text
            else:
                self.last_answer[p] = text
            try:
                d.sdp = text
                self.objs[(text, str(d.type))] = d
            except Exception:  # noqa: BLE001 - an immutable description object: the application builds a new one
                pass
            info["objs"] = [d]
            return f"created={d.type}/{full_str(info['created']['media'])}"
        if op == "setLocalImplicit":
            await pc.setLocalDescription()
            l = pc.localDescription
            if l is not None:
                if l.type == "offer":
                    self.last_offer[p] = retag(l.sdp, self.fresh())
                else:
                    self.last_answer[p] = retag(l.sdp, self.fresh())
            return "ok"
        if op.startswith("setLocal") or op.startswith("setRemote"):
            # one description OBJECT per (text, type): a text that is handed over again - to the same call, to the other
            # call, to the other peer, to the other pair - travels in the very same object
            desc = self.objs.get((arg[0], arg[1]))
            if desc is None:
                desc = self.objs[(arg[0], arg[1])] = RTCSessionDescription(sdp=arg[0], type=arg[1])
            info["objs"] = [desc]
            side = "L" if op.startswith("setLocal") else "R"
            if op not in ("setRemoteMismatched", "setRemoteDefective"):
                # (the texts of those two are EDITED copies: a section of another kind, another order, without mid ... - applied
                # under another label or locally they run into the codec negotiation (OperationError) or into what
                # setLocalDescription does with a description createOffer would never produce; both are outside the property
                # and the model, so such a text is not offered for re-use)
                self.passed[p]["n"] = arg[0]
            if side == "L":
                await pc.setLocalDescription(desc)
            else:
                await pc.setRemoteDescription(desc)
            self.passed[p][side] = arg[0]
            return "ok"
        if op == "close":
            await self.real_close[p]()
            return "ok"
        raise RuntimeError("unknown op " + op)

    def scribble(self, objs):
        """the application re-uses the description objects it holds for something else: every object it passed to / got from
        the call, and the objects the localDescription / remoteDescription getters hand out, get another type and text.
        RTCSessionDescription is a plain value for the application; the connection must have kept its own copy."""
        objs = list(objs)
        for pc in self.pcs:
            objs += [pc.localDescription, pc.remoteDescription]
        for o in objs:
            if o is None:
                continue
            for k in [k for k, v in self.objs.items() if v is o]:
                del self.objs[k]
            try:
                o.type = "offer" if o.type != "offer" else "answer"
                o.sdp = "v=0\r\n"
            except Exception:  # noqa: BLE001 - immutable: nothing to overwrite
                pass

    async def race(self, p, first, second, k):
        """Two calls in flight on peer p: `first` is started as a task, the event loop is stepped k times (k = 0: the task has
        not run yet), then `second` is awaited, then `first`.  Everything observable is recorded: the public state of
        both peers at the moment each call returned, who returned first, whether `first` had finished before `second` was
        issued, and the state after everything (plus a few more turns of the loop) has settled."""
        import asyncio

        ops = [first, second]
        args = [self.arg_for(p, c[0], c[1] if len(c) > 1 else None) for c in ops]
        args = [None if a == "void" else a for a in args]
        infos = [{}, {}]
        order = []
        at_return = [None, None]
        results = [None, None]

        async def wrapped(i):
            try:
                results[i] = await self.invoke(p, ops[i][0], args[i], infos[i])
            except Exception as exc:  # noqa: BLE001
                results[i] = _exc_name(exc)
            order.append(i)
            at_return[i] = self.all_obs()

        task = asyncio.ensure_future(wrapped(0))
        for _ in range(k):
            await asyncio.sleep(0)
        first_done = task.done()
        await wrapped(1)
        await task
        settled = self.all_obs()
        for _ in range(6):
            await asyncio.sleep(0)
        later = self.all_obs()
        if k == 0:
            sched = "ba" + ("ab" if order == [0, 1] else "ba")
        elif first_done:
            sched = "aab"     # both segments of the first call, then the second call
        else:
            sched = "ab" + ("ab" if order == [0, 1] else "ba")
        return {"calls": [{"op": ops[i][0], "var": ops[i][1] if len(ops[i]) > 1 else None,
                           "arg": scan(args[i][0], args[i][1]) if args[i] is not None else None,
                           "created": infos[i].get("created"), "res": results[i], "at_return": at_return[i]}
                          for i in (0, 1)],
                "order": order, "sched": sched, "k": k, "settled": settled, "later": later}

    async def run(self):
        import asyncio

        from aiortc import RTCPeerConnection

        # no STUN server: gathering stays on the host (the default configuration resolves a public STUN server in a worker
        # thread for every gathering, which is most of the cost of a case and has nothing to do with signalling)
        try:
            from aiortc import RTCConfiguration
            self.pcs = [RTCPeerConnection(RTCConfiguration(iceServers=[])) for _ in range(self.n)]
        except Exception:  # noqa: BLE001 - configuration API not as expected: default connections
            self.pcs = [RTCPeerConnection() for _ in range(self.n)]
        steps = []
        try:
            for p, pc in enumerate(self.pcs):
                for ch in CFG_MEDIA[self.cfgs[p & 1]]:
                    if ch == "d":
                        pc.createDataChannel("c14")
                    else:
                        pc.addTransceiver({"a": "audio", "v": "video"}[ch])

                def on_change(p=p):
                    self.ev[p] += 1
                pc.on("signalingstatechange", on_change)
                # aiortc closes a connection by itself (`ensure_future(self.close())` in __updateConnectionState) once
                # all its DTLS transports were closed by the remote side.  That internal call is an event of the
                # environment; it is deferred to the next step boundary and recorded as an `autoClose` step, so that
                # the harness decides which calls are in flight together.
                self.real_close.append(pc.close)

                async def deferred(p=p):
                    self.auto[p] = True
                pc.close = deferred
            # prelude: every peer has created one offer (material for the description arguments)
            for p, pc in enumerate(self.pcs):
                o = await pc.createOffer()
                self.last_offer[p] = retag(o.sdp, self.fresh())

            for call in self.case["calls"]:
                for q in range(self.n):
                    if self.auto[q] and self.pcs[q].signalingState != "closed":
                        before = self.all_obs()
                        try:
                            await self.real_close[q]()
                            res = "ok"
                        except Exception as exc:  # noqa: BLE001
                            res = _exc_name(exc)
                        steps.append({"p": q, "op": "autoClose", "var": None, "arg": None, "created": None, "res": res,
                                      "before": before, "after": self.all_obs()})
                p, op = call[0], call[1]
                var = call[2] if len(call) > 2 else None
                if (self.cfgs[0] != self.cfgs[1] and op == "setRemoteOffer"
                        and self.pcs[p ^ 1].signalingState != "have-local-offer"):
                    # asymmetric pair: only an offer that the other peer has applied locally is consistent with the
                    # negotiation history (m-sections keep their mid); nothing to deliver otherwise -> the step is void
                    continue
                before = self.all_obs()
                if op == "race":
                    r = await self.race(p, call[2], call[3], call[4])
                    steps.append({"p": p, "op": "race", "var": None, "arg": None, "created": None, "res": "race",
                                  "race": r, "before": before, "after": r["later"]})
                    continue
                arg = self.arg_for(p, op, var)       # (sdp, type) handed to the call
                if arg == "void":
                    continue                         # a re-use variant without a text to re-use: nothing is called
                arg_abs = scan(arg[0], arg[1]) if arg is not None else None
                info = {"var": var}
                try:
                    if op == "settle":      # environment: let ICE / DTLS / SCTP run (no call is made)
                        await asyncio.sleep(0.4)
                        res = "ok"
                    else:
                        res = await self.invoke(p, op, arg, info)
                except Exception as exc:  # noqa: BLE001 - every exception class is an observation
                    res = _exc_name(exc)
                after = self.all_obs()
                steps.append({"p": p, "op": op, "var": var, "arg": arg_abs, "created": info.get("created"), "res": res,
                              "before": before, "after": after})
                if self.mut and op != "settle":
                    self.scribble(info.get("objs", ()))
                    steps[-1]["scribbled"] = self.all_obs()
        finally:
            for i, pc in enumerate(self.pcs):
                try:
                    await (self.real_close[i] if i < len(self.real_close) else pc.close)()
                except Exception:  # noqa: BLE001
                    pass
        return steps


def _quiet_loop_handler(loop, context):
    pass


def _call_line(op, arg, created, res, local_after):
    """model-driver form of one call (without the peer)"""
    code = SHORT[op]
    if code == "co":
        return "co:" + (keys_str(created["media"]) if created else "-")
    if code == "si":
        km = keys_str(local_after["media"]) if res == "ok" and local_after is not None and local_after["type"] == "offer" else "-"
        return "si:" + km
    if code in ("sl", "sr"):
        return f"{code}:{desc_str(arg)}"
    return code


def run_case(case):
    """-> (impl string, model line, steps)"""
    import asyncio
    import logging

    logging.disable(logging.CRITICAL)

    async def main():
        asyncio.get_running_loop().set_exception_handler(_quiet_loop_handler)
        return await asyncio.wait_for(_Runner(case).run(), timeout=60)

    try:
        steps = asyncio.run(main())
    except Exception as exc:  # noqa: BLE001
        return "HARNESS-EXC " + type(exc).__name__ + ": " + str(exc)[:200], "signaling run -", []
    out = []
    line = []
    for st in steps:
        if st["op"] == "settle":
            continue
        p = st["p"]
        tail = "".join("|" + _Runner.obs_str(o) for o in st["after"])
        if st["op"] == "race":
            r = st["race"]
            out.append("&".join(c["res"] for c in r["calls"]) + tail)
            parts = [_call_line(c["op"], c["arg"], c["created"], c["res"], st["after"][p]["local"]) for c in r["calls"]]
            line.append(f"{p}:par:{r['sched']}~{parts[0]}~{parts[1]}")
        else:
            out.append(st["res"] + tail)
            line.append(f"{p}:" + _call_line(st["op"], st["arg"], st["created"], st["res"], st["after"][p]["local"]))
    req = "signaling runn 4 " if case.get("twin") else "signaling run "
    return ";".join(out) or "-", req + (";".join(line) or "-"), steps


def _pool_run(case):
    try:
        return run_case(case)
    except Exception as exc:  # noqa: BLE001
        return "HARNESS-EXC " + type(exc).__name__ + ": " + str(exc)[:200], "signaling run -", []


# ----------------------------------------------------------------------------------------------------
# the property on an observed trace (independent of the Lean model)

JSEP = {  # (state, side, type) -> next state
    ("stable", "local", "offer"): "have-local-offer",
    ("have-local-offer", "local", "offer"): "have-local-offer",
    ("have-remote-offer", "local", "answer"): "stable",
    ("stable", "remote", "offer"): "have-remote-offer",
    ("have-remote-offer", "remote", "offer"): "have-remote-offer",
    ("have-local-offer", "remote", "answer"): "stable",
}


def _text(a):
    return "-" if a is None else a["h"]


def _same(o1, o2, with_events=True, with_xt=True):
    """the whole public state: signalingState, type AND text of both descriptions, transceivers / SCTP mid, event count"""
    a = (o1["state"], slot_str(o1["local"]), slot_str(o1["remote"]), _text(o1["local"]), _text(o1["remote"]))
    b = (o2["state"], slot_str(o2["local"]), slot_str(o2["remote"]), _text(o2["local"]), _text(o2["remote"]))
    if with_xt and "?" not in (o1.get("xt", "?"), o2.get("xt", "?")) and o1["xt"] != o2["xt"]:
        return False
    return a == b and (not with_events or o1["ev"] == o2["ev"])


def _show(o):
    return (f"{_Runner.obs_str(o)} [sdp {_text(o['local'])}/{_text(o['remote'])}; transceivers {o.get('xt', '?')}]")


def _is_ext(st):
    """pranswer / rollback descriptions: outside the property's alphabet"""
    return st["op"] in EXT_OPS or (st["op"] in REUSE_OPS and st["arg"]["type"] in ("pranswer", "rollback"))


def _others_changed(st, what):
    """a call on one connection must not change any OTHER connection (its partner, or a connection of another pair
    living in the same process)"""
    for q in range(len(st["before"])):
        if q != st["p"] and not _same(st["before"][q], st["after"][q]):
            return (f"{what} on peer {st['p']} changed the public state of peer {q}: {_show(st['before'][q])} -> "
                    f"{_show(st['after'][q])}")
    return None


def judge_step(st, ext_seen=False):
    """None, or why the step violates C14.  After a pranswer/rollback call (outside the property's alphabet)
    only the clauses that do not depend on the description slots are judged."""
    p, op, res = st["p"], st["op"], st["res"]
    b, a = st["before"][p], st["after"][p]
    why = _others_changed(st, op + (f"({st['arg']['type']})" if st.get("arg") else ""))
    if why:
        return why
    if b["state"] == "closed" and a["state"] != "closed":
        return f"closed is not absorbing: {op} moved a closed connection to {a['state']}"
    if op == "settle":
        return None if _same(b, a) else f"the connection changed without a call: {_show(b)} -> {_show(a)}"
    failed = not (res == "ok" or res.startswith("created="))
    if failed and not _same(b, a, with_xt=not _is_ext(st)):
        # whatever the call was (also outside the alphabet, also after such a call): it raised, so nothing may have moved
        # (transceivers are not compared for pranswer / rollback: setRemoteDescription applies the media sections of such a
        # description before it notices that the connection is closed)
        return (f"{op}{'(' + st['arg']['type'] + ')' if st.get('arg') else ''} raised {res} but changed the connection: "
                f"{_show(b)} -> {_show(a)}")
    if _is_ext(st) or (ext_seen and b["state"] != "closed"):
        return None       # (a closed connection is judged whatever happened before: every clause below holds for it)
    if res.startswith("crash="):
        return f"{op} in state {b['state']} raised {res[6:]} (neither InvalidStateError nor ValueError)"
    if op in ("close", "autoClose"):
        if failed or a["state"] != "closed" or slot_str(a["local"]) != slot_str(b["local"]) or slot_str(a["remote"]) != slot_str(b["remote"]):
            return f"close: result {res}, state {a['state']}"
        return None
    arg = st["arg"]
    if arg is not None and arg["type"] not in ("offer", "answer", "pranswer", "rollback"):
        return None if res == "ValueError" else f"{op} with an invalid type string: {res}, expected ValueError"
    if b["state"] == "closed":
        return None if res == "InvalidStateError" else f"{op} after close: {res}, expected InvalidStateError"
    if op == "createOffer":
        if not res.startswith("created=offer/") or not _same(b, a):
            return f"createOffer in state {b['state']}: {res}"
        if not well_formed(st["created"]):
            return "createOffer returned a description that __validate_description would reject"
        return None
    if op == "createAnswer":
        if b["state"] != "have-remote-offer":
            return None if res == "InvalidStateError" else f"createAnswer in state {b['state']}: {res}, expected InvalidStateError"
        if not res.startswith("created=answer/") or not _same(b, a):
            return f"createAnswer with a pending remote offer: {res}"
        if not well_formed(st["created"]) or keys_str(st["created"]["media"]) != keys_str(b["remote"]["media"]):
            return "createAnswer returned an answer that does not match the pending offer"
        return None
    if op == "setLocalImplicit":
        if failed:
            return f"setLocalDescription() in state {b['state']} raised {res}"
        if b["state"] == "have-remote-offer":
            ok = (a["state"] == "stable" and a["local"] is not None and a["local"]["type"] == "answer"
                  and keys_str(a["local"]["media"]) == keys_str(b["remote"]["media"]))
        else:
            ok = a["state"] == "have-local-offer" and a["local"] is not None and a["local"]["type"] == "offer"
        if not ok or slot_str(a["remote"]) != slot_str(b["remote"]):
            return f"setLocalDescription() in state {b['state']}: now {_Runner.obs_str(a)}"
        return None
    side = "local" if op.startswith("setLocal") else "remote"
    nxt = JSEP.get((b["state"], side, arg["type"]))
    if nxt is None:
        return None if res == "InvalidStateError" else (
            f"{op}({arg['type']}) is illegal in state {b['state']} but gave {res}, expected InvalidStateError")
    counterpart = b["remote"] if side == "local" else b["local"]
    bad = not well_formed(arg)
    why_bad = ["section %d lacks %s" % (i, "/".join(d)) for i, d in enumerate(media_defects(arg)) if d]
    if arg["type"] == "answer" and (counterpart is None or keys_str(arg["media"]) != keys_str(counterpart["media"])):
        bad = True
        why_bad.append("media sections %s do not match the offer's %s"
                       % (keys_str(arg["media"]), keys_str(counterpart["media"]) if counterpart else "-"))
    if bad:
        return None if res == "ValueError" else (
            f"{op}({arg['type']}) with a defective/mismatched description ({'; '.join(why_bad)}) in state {b['state']} gave "
            f"{res}, expected ValueError")
    if failed:
        return f"legal {op}({arg['type']}) in state {b['state']} raised {res}"
    other = "remote" if side == "local" else "local"
    if a["state"] != nxt or slot_str(a[side]) != slot_str(arg) or slot_str(a[other]) != slot_str(b[other]):
        return (f"legal {op}({arg['type']}) in state {b['state']}: expected state {nxt} and {side}Description {slot_str(arg)}, "
                f"got {_Runner.obs_str(a)}")
    if a["ev"] - b["ev"] not in ((1,) if a["state"] != b["state"] else (0, 1)):
        return f"legal {op}({arg['type']}) emitted {a['ev'] - b['ev']} signalingstatechange events"
    return None


def _pub(o):
    return (o["state"], slot_str(o["local"]), slot_str(o["remote"]), o["ev"], _text(o["local"]), _text(o["remote"]))


def _res_class_ok(res):
    return res in ("ok", "InvalidStateError", "ValueError") or res.startswith("created=")


def judge_race(st):
    """Two calls in flight on one connection.  The property speaks about call SEQUENCES; what it says about any
    interleaving is that `closed` is absorbing (checked for every observation by `judge_trace`) - so here only: the other
    peer is untouched, a closed connection stays as it is and rejects both calls, and when one of the two is close() it
    returns normally, the connection ends up closed and the call it overtook ends in one of the legal result classes."""
    p, r = st["p"], st["race"]
    b, a = st["before"][p], st["after"][p]
    ops = "%s || %s (k=%d)" % (r["calls"][0]["op"], r["calls"][1]["op"], r["k"])
    why = _others_changed(st, ops)
    if why:
        return why
    if b["state"] == "closed":
        if _pub(a) != _pub(b):
            return f"closed is not absorbing: {ops} changed a closed connection: {_Runner.obs_str(b)} -> {_Runner.obs_str(a)}"
        for c in r["calls"]:
            bogus = c["arg"] is not None and c["arg"]["type"] not in ("offer", "answer", "pranswer", "rollback")
            want = "ok" if c["op"] == "close" else ("ValueError" if bogus else "InvalidStateError")
            if c["op"] not in EXT_OPS and c["res"] != want:
                return f"{c['op']} after close (in flight with another call): {c['res']}, expected {want}"
        return None
    if any(c["op"] == "close" for c in r["calls"]):
        for c in r["calls"]:
            if c["op"] == "close" and c["res"] != "ok":
                return f"close() in flight with {ops}: result {c['res']}"
            if c["op"] not in EXT_OPS and c["op"] != "close" and not _res_class_ok(c["res"]):
                return f"{c['op']} overtaken by close() raised {c['res'][6:]} (neither InvalidStateError nor ValueError)"
        if a["state"] != "closed":
            return f"{ops}: close() returned but signalingState is {a['state']}"
    return None


def judge_trace(steps):
    """The property on the whole observed trace: None or 'step i: why'."""
    snap = [None] * (len(steps[0]["before"]) if steps else 2)   # public state of a peer at the moment a close() on it returned
    ext_seen = False
    for i, st in enumerate(steps):
        # every observation of this step in temporal order: (what, [obs peer 0, obs peer 1], close() returned on peer?)
        if st["op"] == "race":
            r = st["race"]
            points = []
            for j in r["order"]:
                c = r["calls"][j]
                points.append((f"when {c['op']} returned", c["at_return"], st["p"] if c["op"] == "close" and c["res"] == "ok" else None))
            points.append(("when both calls had returned", r["settled"], None))
            points.append(("a few turns of the event loop later", r["later"], None))
        else:
            closes = st["op"] in ("close", "autoClose") and st["res"] == "ok"
            points = [(f"after {st['op']}", st["after"], st["p"] if closes else None)]
        for what, obs, closed_peer in points:
            for q in range(len(obs)):
                if snap[q] is not None and _pub(obs[q]) != snap[q][1]:
                    return (f"step {i}: closed is not absorbing: close() on peer {q} had returned in step {snap[q][0]} with "
                            f"{','.join(map(str, snap[q][1]))}, but {what} (peer {st['p']}) peer {q} shows "
                            f"{_Runner.obs_str(obs[q])}")
            if closed_peer is not None and snap[closed_peer] is None:
                o = obs[closed_peer]
                if o["state"] != "closed":
                    return f"step {i}: close() on peer {closed_peer} returned but signalingState is {o['state']}"
                snap[closed_peer] = (i, _pub(o))
        why = judge_race(st) if st["op"] == "race" else judge_step(st, ext_seen)
        if why:
            return f"step {i}: {why}"
        for q, (o1, o2) in enumerate(zip(st["after"], st.get("scribbled", ()))):
            if not _same(o1, o2):
                return (f"step {i}: after {st['op']} on peer {st['p']} the application overwrote .type / .sdp of the description "
                        f"objects it had passed to / received from the connections (they are plain values for it), and the state of "
                        f"peer {q} followed: {_show(o1)} -> {_show(o2)}")
        ext_seen = ext_seen or _is_ext(st) or st["op"] == "race"
    return None


# ----------------------------------------------------------------------------------------------------


def _nsec(cfg):
    parts, _ = _cfg_parts(cfg)
    return max(len(CFG_MEDIA[x]) for x in parts)


def _subsets(n):
    """all non-empty subsets of the first n sections as selector strings"""
    return ["".join(str(i) for i in range(n) if m >> i & 1) for m in range(1, 1 << n)]


def _defect_variant(rng, nsec):
    if rng.random() < 0.08:
        return "badtype"
    typ = rng.choice(["offer", "answer"])
    what = rng.choice(DEFECT_KINDS[typ])
    sel = rng.choice(["all"] + _subsets(nsec) * 2)
    place = "s" if rng.random() < 0.3 else "m"
    return f"{typ}-{what}-{sel}-{place}"


def _mismatch_variants(nsec):
    return MISMATCH + [f"{v}@{i}" for i in range(nsec) for v in ("mid", "nomid", "drop", "kind")] + ["swap@1"]


def _reuse_variant(rng, twin=False):
    typ = rng.choice(["offer", "answer", "offer", "answer", "pranswer", "rollback", "bogus"])
    return rng.choice("opxy" if twin else "op") + rng.choice(REUSE_WHAT) + "-" + typ


def _with_variants(rng, calls, nsec=1, twin=False):
    out = []
    for c in calls:
        p, op = c[0], c[1]
        if op == "setRemoteMismatched":
            out.append([p, op, rng.choice(_mismatch_variants(nsec))])
        elif op == "setRemoteDefective":
            out.append([p, op, _defect_variant(rng, nsec)])
        elif op in EXT_OPS:
            out.append([p, op, rng.choice(["pranswer", "rollback"])])
        elif op in REUSE_OPS:
            out.append([p, op, _reuse_variant(rng, twin)])
        else:
            out.append([p, op])
    return out


def _prefixes(p, explicit=False):
    """call sequences that bring peer p into each signalling state (fresh and after a completed negotiation);
    explicit: the application creates every description itself and hands it on (so it knows every text the pair stores)"""
    q = p ^ 1

    def lo(x):
        return [[x, "createOffer"], [x, "setLocalOffer"]] if explicit else [[x, "setLocalImplicit"]]

    def la(x):
        return [[x, "createAnswer"], [x, "setLocalAnswer"]] if explicit else [[x, "setLocalImplicit"]]

    answered = lo(q) + [[p, "setRemoteOffer"]] + la(p) + [[q, "setRemoteAnswer"]]
    offered = lo(p) + [[q, "setRemoteOffer"]] + la(q) + [[p, "setRemoteAnswer"]]
    return {
        "stable": [],
        "have-local-offer": lo(p),
        "have-remote-offer": lo(q) + [[p, "setRemoteOffer"]],
        "stable/answered": answered,
        "stable/offered": offered,
        "have-local-offer/again": answered + lo(p),
        "have-remote-offer/again": offered + lo(q) + [[p, "setRemoteOffer"]],
        "closed": [[p, "close"]],
    }


def defect_matrix():
    """every defect kind x placement (media level / also at session level) x description type x signalling state x media
    configuration; in each case the defect is applied to EVERY non-empty subset of the m-sections, one call per subset, and a
    legal call of the same type follows (nothing may have been damaged)"""
    out = []
    for cfg in MULTI_CFGS:
        n = _nsec(cfg)
        for p in (0, 1):
            for state, prefix in _prefixes(p).items():
                for typ in ("offer", "answer"):
                    for what in DEFECT_KINDS[typ]:
                        for place in ("m", "s"):
                            calls = [list(c) for c in prefix]
                            calls += [[p, "setRemoteDefective", f"{typ}-{what}-{sel}-{place}"] for sel in _subsets(n)]
                            calls.append([p, "setRemoteOffer" if typ == "offer" else "setRemoteAnswer"])
                            out.append({"cfg": cfg, "calls": calls, "stream": "defects"})
    return out


def mismatch_matrix():
    out = []
    for cfg in MULTI_CFGS:
        for p in (0, 1):
            pre = _prefixes(p)
            for state in ("have-local-offer", "have-local-offer/again", "stable"):
                calls = [list(c) for c in pre[state]]
                calls += [[p, "setRemoteMismatched", v] for v in _mismatch_variants(_nsec(cfg))]
                calls.append([p, "setRemoteAnswer"])
                out.append({"cfg": cfg, "calls": calls, "stream": "mismatch"})
    return out


def reuse_matrix():
    """Descriptions that RE-USE a text: in every signalling state (fresh / after a negotiation / closed; descriptions applied
    explicitly, so that every stored text has also been in the application's hands), every text the pair knows - what each
    getter of either peer returns now, what was last handed to either call of either peer, what either peer created - is
    handed to setLocalDescription / setRemoteDescription of the peer under every type, verbatim.  Then the same call once
    more (the same OBJECT a second time) and a legal call (nothing may have been damaged).  Every second case in `mut` mode:
    the application overwrites the description objects after each call."""
    out = []
    k = 0
    for cfg in ("dc", "av", "avd/u"):
        for p in (0, 1):
            for state, prefix in _prefixes(p, explicit=True).items():
                if state == "stable":
                    prefix = [[p, "createOffer"], [p ^ 1, "createOffer"]]
                if state == "closed":       # closed after a negotiation: there are texts to re-use
                    prefix = _prefixes(p, explicit=True)["stable/answered"] + prefix
                for op in REUSE_OPS:
                    for who in "op":
                        for what in REUSE_WHAT:
                            for typ in REUSE_TYPES:
                                call = [p, op, f"{who}{what}-{typ}"]
                                calls = [list(c) for c in prefix] + [call, list(call), [p, "setLocalImplicit"]]
                                case = {"cfg": cfg, "calls": calls, "stream": "reuse"}
                                k += 1
                                if k % 2:
                                    case["mut"] = True
                                out.append(case)
    return out


def twin_matrix():
    """Two pairs in one process.  Pair A (peers 0, 1) is brought into a state; then a peer of pair B (peers 2, 3) - itself fresh,
    holding an offer of its own, or holding the very offer its twin holds - is handed a text of pair A under every type.  Whatever
    happens to pair B, pair A must not notice (module-level state shared between connections shows up here)."""
    out = []
    k = 0
    for cfg in ("dc", "av"):
        for p in (0, 1):
            pre = _prefixes(p, explicit=True)
            for state in ("have-local-offer", "have-remote-offer", "stable/answered", "stable/offered"):
                for own in ([], [[p + 2, "createOffer"], [p + 2, "setLocalOffer"]], [[p + 2, "setRemoteReuse", "xR-offer"]],
                            [[p + 2, "setLocalReuse", "xL-offer"]]):
                    for op in REUSE_OPS:
                        for src in ("xl", "xr", "xL", "xR", "xn", "xc", "yl", "yL", "yR", "ya"):
                            for typ in ("offer", "answer", "pranswer", "rollback"):
                                calls = [list(c) for c in pre[state]] + [list(c) for c in own] + [[p + 2, op, f"{src}-{typ}"]]
                                calls += [[p, "setLocalImplicit"]]
                                case = {"cfg": cfg, "twin": True, "calls": calls, "stream": "twin"}
                                k += 1
                                if k % 3 == 0:
                                    case["mut"] = True
                                out.append(case)
    return out


RACE_NEG = ["createOffer", "createAnswer", "setLocalOffer", "setLocalAnswer", "setLocalImplicit", "setRemoteOffer",
            "setRemoteAnswer"]
RACE_K = [0, 1, 2, 3, 4, 6, 9, 14]


def race_matrix(with_close):
    """two calls in flight on one connection: `first` started as a task, `second` issued after the event loop has been
    stepped k times; then calls that must find the connection closed (or that close it)"""
    out = []
    if with_close:
        pairs = [(a, "close") for a in RACE_NEG] + [("close", a) for a in RACE_NEG] + [("close", "close")]
    else:
        pairs = [(a, b) for a in RACE_NEG for b in RACE_NEG]
    for cfg in ("dc", "av", "avd"):
        for p in (0, 1):
            for state, prefix in _prefixes(p).items():
                for a, b in pairs:
                    for k in RACE_K:
                        calls = [list(c) for c in prefix] + [[p, "race", [a], [b], k]]
                        if with_close:
                            calls += [[p, "createOffer"], [p, "setRemoteOffer"], [p, "setLocalImplicit"], [p, "close"]]
                        else:
                            calls += [[p, "close"], [p, "setRemoteOffer"]]
                        out.append({"cfg": cfg, "calls": calls, "stream": "race"})
    return out


class Signaling(Component):
    name = "signaling"
    theorems = ["step_refines_jsep", "run_refines_jsep", "failed_call_no_effect", "illegal_no_effect", "defective_no_effect",
                "closed_absorbing", "closed_rejects", "no_crash", "implicit_never_fails", "inv_reachable",
                "defective_section_no_effect", "session_level_covers", "resolve_section_local", "seqStep_eq_step",
                "closed_absorbing_interleaved", "close_then_anything", "overtaken_by_close_refines_jsep",
                "rejected_call_keeps_descriptions", "rejected_relabel_keeps_type", "have_local_offer_rejects_relabelled",
                "have_remote_offer_rejects_relabelled", "stable_rejects_any_answer", "same_offer_twice", "stepAt_frame",
                "stepAt_failed", "runSys_proj", "runSys_untouched", "runSys_closed_absorbing"]

    def __init__(self):
        self._cache = {}
        self._batch = []

    def corpus(self):
        return [
            # defect #14 (fixes/C14-dtls-params-missing.patch): answer / offer without a=setup
            {"cfg": "dc", "calls": [[0, "setLocalOffer"], [0, "setRemoteDefective", "answer-nosetup"]]},
            {"cfg": "dc", "calls": [[0, "setRemoteDefective", "offer-nosetup"]]},
            {"cfg": "audio", "calls": [[1, "setLocalImplicit"], [1, "setRemoteDefective", "answer-nosetup"], [1, "setRemoteAnswer"]]},
            # defect #15 (fixes/C14-answer-unmatched-transceiver.patch): answerer owns a transceiver the offer does not match
            {"cfg": "dc|both", "calls": [[0, "setLocalImplicit"], [1, "setRemoteOffer"], [1, "createAnswer"], [1, "setLocalAnswer"]]},
            {"cfg": "dc|both", "calls": [[0, "setLocalImplicit"], [1, "setRemoteOffer"], [1, "setLocalImplicit"], [0, "setRemoteAnswer"]]},
            # round 2 (ice-credentials-leak-sections): a LATER m-section without credentials, offer and answer; without DTLS setup;
            # credentials given at session level instead (legal: the offer must be applied)
            {"cfg": "av", "calls": [[1, "setRemoteDefective", "offer-noufrag-1-m"], [1, "setRemoteOffer"]]},
            {"cfg": "av", "calls": [[0, "setLocalImplicit"], [0, "setRemoteDefective", "answer-nopwd-1-m"], [0, "setRemoteAnswer"]]},
            {"cfg": "avd", "calls": [[0, "setRemoteDefective", "offer-nosetup-2-m"], [0, "setRemoteDefective", "offer-nocred-12-s"]]},
            {"cfg": "avd/u", "calls": [[1, "setLocalImplicit"], [1, "setRemoteDefective", "answer-emptyufrag-1-s"],
                                       [1, "setRemoteDefective", "answer-actpass-2-m"], [1, "setRemoteDefective", "answer-nosetup-02-s"]]},
            # round 2 (setremote-assert-hoisted): close() overtakes a call in flight / a call is issued while close() runs
            {"cfg": "dc", "calls": [[0, "race", ["setRemoteOffer"], ["close"], 2], [0, "setRemoteOffer"], [0, "createOffer"]]},
            {"cfg": "av", "calls": [[1, "setLocalImplicit"], [1, "race", ["setRemoteAnswer"], ["close"], 1], [1, "createOffer"]]},
            {"cfg": "av", "calls": [[1, "race", ["close"], ["setRemoteOffer"], 0], [1, "setLocalImplicit"]]},
            {"cfg": "avd", "calls": [[0, "race", ["setLocalImplicit"], ["close"], 2], [0, "setLocalImplicit"]]},
            # round 3 (parse-description-lru-cache): the pending offer handed back under another type (rejected: nothing may
            # move, not even the type of the stored description); the peer's own offer fed back to it as remote offer; the same
            # object twice; a second pair given the texts of the first; description objects overwritten by the application
            {"cfg": "dc", "calls": [[0, "createOffer"], [0, "setLocalOffer"], [0, "setLocalReuse", "oL-answer"],
                                    [0, "setRemoteReuse", "oL-offer"], [0, "setLocalReuse", "ol-answer"], [0, "setLocalOffer"]]},
            {"cfg": "av", "mut": True,
             "calls": [[0, "setLocalImplicit"], [1, "setRemoteOffer"], [1, "setRemoteReuse", "oR-answer"],
                       [1, "setRemoteReuse", "oR-pranswer"], [1, "setLocalReuse", "or-answer"], [1, "setRemoteReuse", "oR-offer"],
                       [1, "setLocalImplicit"], [1, "setRemoteReuse", "oR-answer"], [1, "setLocalReuse", "ol-offer"]]},
            {"cfg": "dc", "twin": True, "mut": True,
             "calls": [[0, "createOffer"], [0, "setLocalOffer"], [1, "setRemoteReuse", "pL-offer"], [3, "setRemoteReuse", "xR-offer"],
                       [3, "setRemoteReuse", "xR-answer"], [2, "setLocalReuse", "xL-answer"], [2, "setLocalReuse", "xL-offer"],
                       [1, "setLocalImplicit"], [0, "setRemoteAnswer"], [2, "setRemoteReuse", "xR-answer"], [3, "close"],
                       [3, "setRemoteReuse", "xR-offer"]]},
            # complete negotiation, re-negotiation in the other direction, close
            {"cfg": "both", "calls": [[0, "createOffer"], [0, "setLocalOffer"], [1, "setRemoteOffer"], [1, "createAnswer"],
                                      [1, "setLocalAnswer"], [0, "setRemoteAnswer"], [1, "setLocalImplicit"], [0, "setRemoteOffer"],
                                      [0, "setLocalImplicit"], [1, "setRemoteAnswer"], [0, "close"], [0, "setRemoteOffer"],
                                      [0, "createOffer"], [1, "close"], [1, "setLocalImplicit"]]},
            # connection established, peer 0 closes, aiortc closes peer 1 by itself (autoClose step), then calls on peer 1
            {"cfg": "dc", "calls": [[0, "setLocalImplicit"], [1, "setRemoteOffer"], [1, "setLocalImplicit"], [0, "setRemoteAnswer"],
                                    [0, "settle"], [0, "close"], [0, "settle"], [1, "createOffer"], [1, "setRemoteOffer"]]},
            {"cfg": "both", "calls": [[1, "setLocalImplicit"], [0, "setRemoteOffer"], [0, "setLocalImplicit"], [1, "setRemoteAnswer"],
                                      [0, "settle"], [1, "close"], [0, "settle"], [0, "setLocalImplicit"], [0, "close"]]},
        ]

    def cases(self, rng, tier):
        out = []
        alphabet = [(p, op) for p in (0, 1) for op in OPS]
        maxlen = 3 if tier == "quick" else 4
        for n in range(1, maxlen + 1):
            for seq in itertools.product(alphabet, repeat=n):
                if n >= 3 and seq[0][0] != 0:
                    continue          # mirror image (identical peers) of a sequence starting on peer 0
                out.append({"cfg": "dc", "calls": _with_variants(rng, seq)})
        # the same short sequences on the other symmetric configurations (sample)
        n_short = 600 if tier == "quick" else 4000
        for _ in range(n_short):
            n = rng.choice([2, 3, 3])
            seq = [rng.choice(alphabet) for _ in range(n)]
            cfg = rng.choice(["audio", "both", "av", "avd", "avd/u"])
            out.append({"cfg": cfg, "calls": _with_variants(rng, seq, _nsec(cfg))})
        # short sequences that end in calls RE-USING a text the pair has seen (any type), all on one pair / over two pairs
        alphabet_r = alphabet + [(p, op) for p in (0, 1) for op in REUSE_OPS] * 3
        for i in range(300 if tier == "quick" else 4000):
            twin = i % 4 == 0
            peers = 4 if twin else 2
            seq = [rng.choice(alphabet_r) for _ in range(rng.choice([2, 3, 4]))] + [(0, rng.choice(REUSE_OPS))]
            seq = [(rng.randrange(peers) if twin else p, op) for p, op in seq]
            cfg = rng.choice(["dc", "audio", "av", "avd", "avd/u"])
            case = {"cfg": cfg, "calls": _with_variants(rng, seq, _nsec(cfg), twin), "stream": "reuse-seq"}
            if twin:
                case["twin"] = True
            if i % 3 == 0:
                case["mut"] = True
            out.append(case)
        # random longer sequences, biased towards progress (a walk that mostly follows a legal next call)
        n_rand = 1000 if tier == "quick" else 12000
        for i in range(n_rand):
            n = rng.randrange(4, 13)
            cfg = rng.choice(CFGS) if i % 3 else rng.choice(["dc", "audio", "both"])
            sym = "|" not in cfg
            seq = []
            for _ in range(n):
                r = rng.random()
                if r < 0.55:
                    op = rng.choice(["setLocalImplicit", "setRemoteOffer", "setRemoteAnswer", "createAnswer", "setLocalAnswer",
                                     "createOffer", "setLocalOffer"])
                elif r < 0.88:
                    op = rng.choice(OPS[:-1])
                elif r < 0.97:
                    op = rng.choice(REUSE_OPS) if sym else "setLocalImplicit"
                else:
                    op = "close"
                if not sym and op in ("setLocalOffer", "setLocalAnswer"):
                    # asymmetric pairs: stale offers/answers are not consistent with the history -> create afresh
                    seq.append((rng.randrange(2), "setLocalImplicit"))
                    continue
                seq.append((rng.randrange(2), op))
            if i % 10 == 0:
                seq.insert(rng.randrange(len(seq) // 2, len(seq) + 1), (0, "settle"))
            case = {"cfg": cfg, "calls": _with_variants(rng, seq, _nsec(cfg))}
            if i % 4 == 1:
                case["mut"] = True       # the application overwrites every description object after the call
            out.append(case)
        # re-used texts / a second pair in the same process, systematically (see reuse_matrix, twin_matrix)
        rm, tm = reuse_matrix(), twin_matrix()
        out += rm if tier != "quick" else rng.sample(rm, 420)
        out += tm if tier != "quick" else rng.sample(tm, 140)
        # defective / mismatched descriptions over multi-section descriptions, systematically (see defect_matrix)
        dm = defect_matrix()
        out += dm if tier != "quick" else rng.sample(dm, 280)
        out += mismatch_matrix()
        # two calls in flight on one connection
        rc, rn = race_matrix(True), race_matrix(False)
        out += rc if tier != "quick" else rng.sample(rc, 420)
        out += rng.sample(rn, 120 if tier == "quick" else 2500)
        # pranswer / rollback (outside the property's alphabet): ties the model's treatment of them
        n_ext = 150 if tier == "quick" else 2000
        for _ in range(n_ext):
            n = rng.randrange(1, 6)
            seq = [(rng.randrange(2), rng.choice(OPS + EXT_OPS * 3)) for _ in range(n)]
            out.append({"cfg": "dc", "calls": _with_variants(rng, seq), "ext": True})
        self._batch = list(self.corpus()) + out
        return out

    # ---- evaluation with a process pool -------------------------------------------------------------
    def _fill(self):
        todo = [c for c in self._batch if case_key(c) not in self._cache]
        self._batch = []
        if not todo:
            return
        from harness import core
        core.use_repo()
        try:
            import aiortc  # noqa: F401 - loaded ONCE here, the forked workers inherit it (16 concurrent imports cost 10+ s)
        except Exception:  # noqa: BLE001 - the workers will report what is wrong with the tree
            pass
        import multiprocessing as mp
        nproc = min(16, os.cpu_count() or 1, max(1, len(todo) // 20))
        if nproc <= 1:
            results = [_pool_run(c) for c in todo]
        else:
            with mp.get_context("fork").Pool(nproc) as pool:
                results = pool.map(_pool_run, todo, chunksize=max(1, min(20, len(todo) // (nproc * 4))))
        for c, r in zip(todo, results):
            self._cache[case_key(c)] = r

    def _get(self, case):
        k = case_key(case)
        if k not in self._cache:
            if self._batch:
                self._fill()
            if k not in self._cache:
                from harness import core
                core.use_repo()
                self._cache[k] = _pool_run(case)
        return self._cache[k]

    def impl(self, case):
        return self._get(case)[0]

    def model_line(self, case):
        return self._get(case)[1]

    def oracle(self, case, impl_out):
        out, _line, steps = self._get(case)
        if out.startswith("HARNESS-EXC"):
            return "the harness could not run the case: " + out
        return judge_trace(steps)

    def label(self, case, impl_out):
        _out, _line, steps = self._get(case)
        if not steps:
            return "empty"
        stream = case.get("stream")
        if stream in ("defects", "mismatch"):
            op = "setRemoteDefective" if stream == "defects" else "setRemoteMismatched"
            sel = [x for x in steps if x["op"] == op]
            if sel:
                var = sel[0]["var"].split("-")
                kind = "-".join(var[:2] + var[3:]) if stream == "defects" else "*"
                return (f"{stream}:{kind}@{sel[0]['before'][sel[0]['p']]['state']}:"
                        + "/".join(sorted({x["res"] for x in sel})))
        if stream in ("reuse", "twin", "reuse-seq"):
            sel = [x for x in steps if x["op"] in REUSE_OPS]
            if sel:
                x = sel[-1] if stream == "twin" else sel[0]
                src = x["var"].partition("-")[0]
                return (f"{stream}:{x['op'][3:-5]}:{src if stream == 'reuse' else src[0]}-{x['arg']['type']}"
                        f"@{x['before'][x['p']]['state']}:{x['res']}")
        if stream == "race":
            sel = [x for x in steps if x["op"] == "race"]
            if sel:
                r = sel[0]["race"]
                return (f"race:{r['calls'][0]['op']}||{r['calls'][1]['op']}@{sel[0]['before'][sel[0]['p']]['state']}:"
                        + "&".join(c["res"].split("/")[0] for c in r["calls"]) + ":" + r["sched"])
        st = steps[-1]
        res = st["res"].split("/")[0]
        lab = f"{st['op']}@{st['before'][st['p']]['state']}:{res}"
        if case.get("ext"):
            lab = "ext:" + lab
        return lab

    def nontrivial(self, case, impl_out):
        return bool(case["calls"])

    def shrink(self, case):
        calls = case["calls"]
        for i in range(len(calls) - 1, -1, -1):
            yield dict(case, calls=calls[:i] + calls[i + 1:])
        for i, c in enumerate(calls):
            if c[1] == "race":
                if c[4] > 1:
                    yield dict(case, calls=calls[:i] + [c[:4] + [c[4] - 1]] + calls[i + 1:])
                for j in (2, 3):      # the two calls one after the other / one of them alone
                    yield dict(case, calls=calls[:i] + [[c[0]] + c[j]] + calls[i + 1:])
            elif c[1] == "setRemoteDefective" and c[2].count("-") == 3:
                typ, what, sel, place = c[2].split("-")
                if place != "m":
                    yield dict(case, calls=calls[:i] + [[c[0], c[1], f"{typ}-{what}-{sel}-m"]] + calls[i + 1:])
                if sel != "all" and len(sel) > 1:
                    for ch in sel:
                        yield dict(case, calls=calls[:i] + [[c[0], c[1], f"{typ}-{what}-{ch}-{place}"]] + calls[i + 1:])
        if case.get("mut"):
            yield {k: v for k, v in case.items() if k != "mut"}
        if case.get("twin") and all(c[0] < 2 for c in calls):
            yield {k: v for k, v in case.items() if k != "twin"}
        if case["cfg"].endswith("/u"):
            yield dict(case, cfg=case["cfg"][:-2])
        elif case["cfg"] not in ("dc", "av"):
            yield dict(case, cfg="av" if _nsec(case["cfg"]) > 2 else "dc")


def components(tier):
    return [Signaling()]


def classify_finding(finding, comp_name, case, what):
    return False
