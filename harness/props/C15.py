"""C15 — receive-side bandwidth estimation (rate.py) never fails and stays within its safety bounds.

Correspondence: the compiled Lean model (lean/Aiortc/Model/Rate*.lean) against the real classes of
src/aiortc/rate.py on generated arrival histories: integers (estimates, SSRC lists, controller / detector
states, window totals) are compared exactly, every float of the state (Kalman matrix, offset, slope, noise,
threshold, max-throughput statistics) bit for bit through a rolling hash of the IEEE-754 patterns.
Oracle: the property evaluated on the implementation alone (no exception, REMB-encodable non-negative
integer estimates with exactly the SSRCs seen, 1.5·m+10k cap, 85 % cut on over-use, window exactness
recomputed from the raw history).
"""
from __future__ import annotations

import json
import struct
from collections import deque
from fractions import Fraction

from harness.check import Component

LEAN_TARGETS = ["Aiortc.Props.C15"]
DRIVERS = ["Rate"]
MANIFEST = {
    "technique": "Lean 4 theorems (ring-buffer invariant by induction, integer control flow of the AIMD controller by case analysis) "
                 "over an executable model of rate.py + differential run of the compiled model (Lean Float, bit-exact) against the real classes "
                 "+ implementation-side oracle recomputing window sums and bounds",
    "text": "RateCounter is modelled exactly in integers: the ring buffer total is proved to be the count / byte sum of exactly the samples of the last "
            "window_size ms for every non-decreasing history, and no bucket access or modulo can raise. The integer control flow of "
            "AimdRateControl.update (with fixes/C15-near-max-zero-division.patch) is proved never to divide by zero or use an unset time, never to "
            "report more than max(int(1.5·m)+10000, previous estimate), to cut to round(0.85·m) on over-use, and to keep estimates non-negative; "
            "RemoteBitrateEstimator.add reports exactly the SSRCs seen in first-seen order, and the REMB exponent loop terminates with exponent ≤ 63 "
            "for estimates below 2^81. The float recurrences (inter-arrival rounding, Kalman filter, adaptive threshold, max-throughput statistics) are "
            "executed with Lean Float and compared bit for bit with CPython after every packet; float-derived integers enter the theorems as opaque "
            "terms constrained by stated hypotheses which the harness checks on every evaluated case.",
    "note": "\"never raises\" for the float recurrences (denominator of the Kalman gain non-zero, no NaN reaching int()/round()) is not a theorem; "
            "it is covered by the correspondence and the oracle search only.",
    "design_ref": "DESIGN.md §2 C15",
}
ASSUMPTIONS = [
    "arrival times are non-decreasing (as in the property); payload sizes are ≥ 0",
    "float hypotheses of the AIMD theorems, checked by the harness on every evaluated measurement m ≥ 0: int(1.5·m) ≤ ⌊3m/2⌋ and m ≤ int(1.5·m) "
    "(exact for m < 2^51), 0 ≤ round(0.85·m) ≤ 0.85·m + 1, and the additive / multiplicative increase is ≥ 0",
    "float→int conversions inside AimdRateControl.update succeed (finite operands): the theorems prove that no *other* exception kind "
    "(ZeroDivisionError, TypeError, IndexError) is possible; finiteness itself is a float fact covered by correspondence",
    "RateCounter.rate: round(scale·bytes / active_window) is modelled as exact half-to-even rounding of the rational; equal to the float computation "
    "for rates below 2^40 bit/s (argument in notes/C15.md), compared exactly on every case",
    "REMB encodability additionally needs at most 255 distinct SSRCs per receiver (struct format 'B' for the count) and an estimate below 2^81",
]
TRUSTED_EXTRA = [
    "Lean Float = IEEE-754 binary64 with the platform libm (pow, sqrt), same as CPython's float on this machine; decimal literals are parsed to the "
    "same bit patterns (checked by the `misc` component on every run)",
    "InterArrival, OveruseEstimator, OveruseDetector and the float statistics of AimdRateControl are modelled and compared, not verified",
    "the receiver glue (rtcrtpreceiver.py:461-478) is read, not modelled: it passes len(payload)+padding_size ≥ 0, the 24-bit abs_send_time and "
    "clock.current_ms() to RemoteBitrateEstimator.add and feeds the result to pack_remb_fci; the oracle calls pack_remb_fci/unpack_remb_fci on every estimate",
]
RULE = ("rbe: arrival histories built from scenario segments (frame bursts, constant spacing, delay ramps up/down, jitter, idle gaps beyond the window, "
        "sizes 0..1500 incl. all-zero and tiny-rate streams, send-time origin near the 24-bit wrap, 1-4 SSRCs) plus a raw stream of arbitrary "
        "gaps/stamps/sizes; counter: add/rate/reset op sequences for several window sizes with gaps around the window; aimd: update() sequences with "
        "boundary throughputs (0, tiny, typical, huge, None); distinct = distinct canonical case (sha1 of JSON); non-trivial = at least one estimate, "
        "rate or state change observed")

M61 = 2305843009213693951


# ----------------------------------------------------------------------------------------------
# helpers shared by impl / oracle
# ----------------------------------------------------------------------------------------------

def _fbits(x) -> int:
    x = float(x)
    if x != x:
        return 0x7FF8000000000000
    return struct.unpack(">Q", struct.pack(">d", x))[0]


def _obits(x) -> int:
    return 1 if x is None else _fbits(x)


def _mix(bits) -> int:
    h = 7
    for b in bits:
        h = (h * 1000003 + b + 1) % M61
    return h


def _oi(x) -> str:
    return "-" if x is None else str(x)


def _b(x) -> str:
    return "1" if x else "0"


def _exc(exc: BaseException) -> str:
    if isinstance(exc, ValueError):
        return "ValueError"
    return "crash " + type(exc).__name__


def _aimd_ints(rc) -> str:
    return ",".join([str(rc.state.value), str(rc.current_bitrate), _b(rc.near_max), _b(rc.current_bitrate_initialized),
                     str(rc.latest_estimated_throughput), _oi(rc.first_estimated_throughput_time), _oi(rc.last_change_ms)])


def _aimd_floats(rc):
    return [_obits(rc.avg_max_bitrate_kbps), _fbits(rc.var_max_bitrate_kbps)]


def _round_half_even(a: int, b: int) -> int:
    return round(Fraction(a, b))  # Fraction.__round__ is half-to-even, exact


def _cap_ok(ret: int, m: int, prev: int) -> bool:
    # 1.5·m is exact in binary64 below 2^51; above, allow the float rounding of the product (relative 2^-52)
    return ret <= max((3 * m) // 2 + 10000 + (m >> 50), prev)


def _cut_ok(ret: int, m: int) -> bool:
    return 100 * ret <= 85 * m + 100


def _guard(fn, *args):
    """Run an implementation runner; an exception escaping it (e.g. an attribute of the real classes that no longer exists)
    is reported as a failure of the case, never as an infrastructure error."""
    try:
        return fn(*args)
    except Exception as exc:
        return _exc(exc), f"the implementation could not be driven / observed: {type(exc).__name__}: {exc}", {"raise"}


# ----------------------------------------------------------------------------------------------
# component 1: the whole RemoteBitrateEstimator
# ----------------------------------------------------------------------------------------------

def _rbe_record(est, ret, verbose=False) -> str:
    rc, det, oe, cnt = est.rate_control, est.detector, est.estimator, est.incoming_bitrate
    rs = "-" if ret is None else str(ret[0]) + "/" + ".".join(str(s) for s in ret[1])
    ints = ",".join([str(det.hypothesis.value), _aimd_ints(rc), str(oe._num_of_deltas), str(det.overuse_counter),
                     str(cnt._total.count), str(cnt._total.value), _oi(cnt._origin_ms),
                     _b(est.incoming_bitrate_initialized), _oi(est.last_update_ms), _oi(det.last_update_ms)])
    fl = _aimd_floats(rc) + [_obits(det.overuse_time), _fbits(det.previous_offset), _fbits(det.threshold)] + \
        [_fbits(oe.E[0][0]), _fbits(oe.E[0][1]), _fbits(oe.E[1][0]), _fbits(oe.E[1][1]), _fbits(oe._offset),
         _fbits(oe.previous_offset), _fbits(oe.slope), _fbits(oe.avg_noise), _fbits(oe.var_noise)] + \
        [_fbits(x) for x in oe.ts_delta_hist]
    f = ".".join(format(b, "x") for b in fl) if verbose else format(_mix(fl), "x")
    return rs + "|" + ints + "|" + f


def run_rbe(packets, verbose=False):
    """Run the real estimator; returns (canonical string, first property failure or None, feature flags)."""
    from aiortc.rate import BandwidthUsage, RateControlState, RemoteBitrateEstimator
    from aiortc.rtp import pack_remb_fci, unpack_remb_fci

    est = RemoteBitrateEstimator()
    recs = []
    failure = None
    flags = set()
    seen = []
    window = deque()
    wbytes = 0
    last_now = None

    def fail(msg):
        nonlocal failure
        if failure is None:
            failure = msg

    for i, (now, abs_, size, ssrc) in enumerate(packets):
        monotone = last_now is None or now >= last_now
        if not monotone:
            flags.add("backwards")
        last_now = now if last_now is None else max(last_now, now)
        rc = est.rate_control
        cur_before = rc.current_bitrate
        latest_before = rc.latest_estimated_throughput
        hyp_before = est.detector.hypothesis
        resets_before = est.incoming_bitrate_initialized
        try:
            ret = est.add(arrival_time_ms=now, abs_send_time=abs_, payload_size=size, ssrc=ssrc)
        except Exception as exc:  # the property: never raises
            fail(f"packet {i}: RemoteBitrateEstimator.add raised {type(exc).__name__}: {exc}")
            return _exc(exc), failure, flags | {"raise"}
        recs.append(_rbe_record(est, ret, verbose))
        if ssrc not in seen:
            seen.append(ssrc)
        if resets_before and not est.incoming_bitrate_initialized and i > 0:
            flags.add("reset")
        # ---- window exactness, recomputed from the raw history
        window.append((now, size))
        wbytes += size
        while window and window[0][0] <= now - 1000:
            wbytes -= window.popleft()[1]
        cnt = est.incoming_bitrate
        if "backwards" not in flags:
            if cnt._total.count != len(window) or cnt._total.value != wbytes:
                fail(f"packet {i}: RateCounter total ({cnt._total.count} pkts, {cnt._total.value} B) differs from the packets that arrived in "
                     f"({now - 1000}, {now}] ({len(window)} pkts, {wbytes} B)")
            origin = cnt._origin_ms
            if origin is None or not (now - 999 <= origin <= now):
                fail(f"packet {i}: RateCounter origin {origin} outside [{now - 999}, {now}]")
            try:
                m = cnt.rate(now)
            except Exception as exc:
                fail(f"packet {i}: RateCounter.rate raised {type(exc).__name__}")
                return _exc(exc), failure, flags | {"raise"}
            if origin is not None:
                active = now - origin + 1
                want = _round_half_even(8000 * wbytes, active) if (len(window) > 0 and active > 1) else None
                if m != want:
                    fail(f"packet {i}: rate() = {m}, but 8000·{wbytes}/{active} rounds to {want}")
        else:
            m = cnt.rate(now)
        # ---- estimate checks
        hyp = est.detector.hypothesis
        if hyp == BandwidthUsage.OVERUSING:
            flags.add("overuse")
        elif hyp == BandwidthUsage.UNDERUSING:
            flags.add("underuse")
        if hyp != hyp_before:
            flags.add("hyp-change")
        m_eff = m if m is not None else latest_before
        if m is None:
            flags.add("rate-none")
        if hyp == BandwidthUsage.OVERUSING and ret is None:
            fail(f"packet {i}: over-use detected but no estimate reported")
        if ret is not None:
            flags.add("estimate")
            v, ssrcs = ret
            if type(v) is not int or v < 0:
                fail(f"packet {i}: estimate {v!r} is not a non-negative integer")
            else:
                try:
                    fci = pack_remb_fci(v, ssrcs)
                    v2, ssrcs2 = unpack_remb_fci(fci)
                    if ssrcs2 != ssrcs or v2 > v or (v - v2) * (1 << 17) > v:
                        fail(f"packet {i}: REMB round trip of ({v}, {ssrcs}) gives ({v2}, {ssrcs2})")
                except Exception as exc:
                    fail(f"packet {i}: pack_remb_fci({v}, {len(ssrcs)} ssrcs) raised {type(exc).__name__}")
            if list(ssrcs) != seen:
                fail(f"packet {i}: reported SSRCs {ssrcs} are not the SSRCs seen {seen}")
            if type(v) is int and m_eff >= 0:
                if not _cap_ok(v, m_eff, cur_before):
                    fail(f"packet {i}: estimate {v} rose above 1.5·{m_eff}+10000 (previous estimate {cur_before})")
                if hyp == BandwidthUsage.OVERUSING and not _cut_ok(v, m_eff):
                    fail(f"packet {i}: over-use detected but estimate {v} > 85 % of the measured {m_eff}")
            if v == 0:
                flags.add("zero-estimate")
            if rc.state == RateControlState.INCREASE:
                flags.add("inc-add" if rc.near_max else "inc-mul")
            if rc.current_bitrate_initialized:
                flags.add("init")
    return "ok " + ";".join(recs), failure, flags


# ---- generators -----------------------------------------------------------------------------

def _gen_history(rng, tier):
    """Scenario-built arrival history: list of [arrival_ms, abs_send_time, size, ssrc]."""
    n_target = rng.choice([30, 80, 150, 300]) if tier == "quick" else rng.choice([50, 150, 400, 900, 1500])
    n_ssrc = rng.choice([1, 1, 2, 3, 4])
    ssrcs = [rng.choice([0, 1, 0xFFFFFFFF, rng.randrange(1 << 32)]) for _ in range(n_ssrc)]
    # send clock (ms, float) — origin near the 64 s wrap of the 24-bit 6.18 fixed point stamp in half the cases
    send0 = rng.choice([0.0, 63000.0, 63900.0, 63990.0, rng.uniform(0, 64000)])
    send = send0
    arrival_base = rng.randrange(0, 1 << rng.choice([1, 20, 41]))
    delay = rng.uniform(0, 50)
    pk = []
    last_arrival = arrival_base
    style = rng.choice(["mixed", "mixed", "tiny", "zero", "big"])
    while len(pk) < n_target:
        seg = rng.choice(["frames", "const", "ramp-up", "ramp-up", "ramp-down", "jitter", "idle", "burst", "steady-ramp"])
        seg_len = rng.randrange(5, 80)
        if seg == "idle":
            gap = rng.choice([999, 1000, 1001, 1500, 3001, rng.randrange(1000, 12000)])
            send += gap
            delay = max(0.0, delay - gap)
            seg_len = 1
        slope = {"ramp-up": rng.uniform(0.2, 6), "steady-ramp": rng.uniform(0.05, 1.0), "ramp-down": -rng.uniform(0.2, 6)}.get(seg, 0.0)
        spacing = rng.choice([1, 5, 10, 20, 33.3, 40, 100, 250])
        per_frame = rng.choice([1, 1, 2, 5, 12]) if seg in ("frames", "burst", "ramp-up") else 1
        for _ in range(seg_len):
            send += spacing
            for k in range(per_frame):
                if style == "zero":
                    size = 0
                elif style == "tiny":
                    size = rng.choice([0, 0, 0, 0, 0, 1, 2, 125])
                elif style == "big":
                    size = rng.choice([1200, 1500, 1499])
                else:
                    size = rng.choice([0, 1, 100, 500, 1200, 1500, rng.randrange(0, 1501)])
                delay = max(0.0, delay + slope + (rng.uniform(-3, 3) if seg == "jitter" else 0.0))
                s = send + (0.0 if seg == "burst" else k * 0.3)
                arr = arrival_base + int(s - send0 + delay)
                if arr < last_arrival:
                    arr = last_arrival
                last_arrival = arr
                abs_ = int(s * (1 << 18) / 1000) % (1 << 24)
                pk.append([arr, abs_, size, rng.choice(ssrcs)])
    return pk[:n_target]


def _gen_raw(rng, tier):
    n = rng.choice([5, 20, 60, 150]) if tier == "quick" else rng.choice([20, 100, 400])
    t = rng.choice([0, 1, 10 ** 6, 2 ** 40])
    pk = []
    abs_ = rng.randrange(1 << 24)
    mode = rng.choice(["wild", "step", "step"])
    for _ in range(n):
        t += rng.choice([0, 0, 1, 1, 2, 5, 6, 20, 100, 499, 500, 501, 999, 1000, 1001, 3001, 5000])
        if mode == "wild":
            abs_ = rng.choice([0, 1, (1 << 24) - 1, 1 << 23, rng.randrange(1 << 24)])
        else:
            abs_ = (abs_ + rng.choice([0, 1, 262, 1310, 1311, 1312, 5243, 26214, 1 << 22, (1 << 24) - 5])) % (1 << 24)
        pk.append([t, abs_, rng.choice([0, 0, 1, 1200, 1500, rng.randrange(1501)]), rng.choice([1, 2, 3, 0xFFFFFFFF])])
    return pk


def _gen_overuse_tiny(rng, tier):
    """Streams whose measured rate is ~0-4 kbit/s while the delay keeps growing (repeated over-use at tiny rates)."""
    n = rng.choice([150, 300, 500])
    pk = []
    send = 0.0
    delay = 0.0
    t0 = rng.randrange(0, 5000)
    spacing = rng.choice([10, 20, 33.3])
    big_every = rng.choice([25, 50, 100])
    big = rng.choice([1, 60, 125, 400])
    stop_big = rng.randrange(40, n)
    slope = rng.uniform(0.5, 4)
    last = t0
    for i in range(n):
        send += spacing
        phase = (i // rng.choice([30, 60, 90])) % 3
        if phase != 2:
            delay += slope
        else:
            delay = max(0.0, delay - 3 * slope)
        arr = max(last, t0 + int(send + delay))
        last = arr
        size = big if (i % big_every == 0 and i < stop_big) else 0
        pk.append([arr, int(send * (1 << 18) / 1000) % (1 << 24), size, 7])
    return pk


class Rbe(Component):
    name = "rbe"
    theorems = ["add_step", "run_history", "run_from_new", "countStep_ok", "global_window_exact", "dictSet_keys"]

    def __init__(self):
        self._cache = {}

    def corpus(self):
        return [
            # shrunk estimator-level witness of the ZeroDivisionError on the pinned tree (33 ms frames, one 1-byte packet, growing delay,
            # then a 1.5 s gap): over-use at ~1 kbit/s, over-use at 0, normal usage  =>  _near_max_rate_increase divides by 0
            {"p": [[7542,855480,0,7],[7579,864210,0,7],[7652,881668,1,7],[7689,890398,0,7],[7726,899127,0,7],[7762,907857,0,7],[7799,916586,0,7],[7836,925315,0,7],[7872,934045,0,7],[7909,942774,0,7],[7946,951504,0,7],[7982,960233,0,7],[8019,968962,0,7],[8056,977692,0,7],[8092,986421,0,7],[8129,995151,0,7],[8166,1003880,0,7],[8202,1012609,0,7],[8239,1021339,0,7],[8276,1030068,0,7],[8312,1038798,0,7],[8349,1047527,0,7],[8386,1056256,0,7],[8422,1064986,0,7],[8459,1073715,0,7],[8496,1082445,0,7],[8532,1091174,0,7],[8569,1099903,0,7],[8606,1108633,0,7],[10060,1518914,0,7],[10566,1658585,0,7],[10602,1667314,0,7]]},
            {"p": [[0, 0, 0, 1]]},
            {"p": [[0, 0, 1200, 1], [0, 0, 1200, 1], [1, 262, 1200, 2]]},
            {"p": [[5, 16777215, 100, 1], [10, 2, 100, 1], [1010, 300000, 0, 1], [7000, 300001, 1500, 9]]},
        ]

    def cases(self, rng, tier):
        n = 260 if tier == "quick" else 3000
        out = []
        for i in range(n):
            r = i % 10
            if r < 6:
                out.append({"p": _gen_history(rng, tier)})
            elif r < 8:
                out.append({"p": _gen_raw(rng, tier)})
            else:
                out.append({"p": _gen_overuse_tiny(rng, tier)})
        return out

    def model_line(self, case):
        return "rate est " + ";".join(",".join(str(x) for x in p) for p in case["p"])

    def _run(self, case):
        key = json.dumps(case, sort_keys=True)
        if key not in self._cache:
            if len(self._cache) > 4:
                self._cache.clear()
            self._cache[key] = _guard(run_rbe, [tuple(p) for p in case["p"]])
        return self._cache[key]

    def impl(self, case):
        return self._run(case)[0]

    def oracle(self, case, impl_out):
        return self._run(case)[1]

    def label(self, case, impl_out):
        fl = self._run(case)[2]
        keep = [f for f in ("raise", "overuse", "underuse", "inc-add", "inc-mul", "init", "reset", "zero-estimate", "backwards") if f in fl]
        return "+".join(keep) if keep else ("estimate-only" if "estimate" in fl else "no-estimate")

    def nontrivial(self, case, impl_out):
        return "estimate" in self._run(case)[2]

    def shrink(self, case):
        p = case["p"]
        n = len(p)
        if n <= 1:
            return
        yield {"p": p[: n // 2]}
        yield {"p": p[: n - 1]}
        size = n // 2
        while size >= 1:
            for start in range(0, n, size):
                cand = p[:start] + p[start + size:]
                if cand:
                    yield {"p": cand}
            size //= 2
            if n > 60 and size < n // 16:
                break
        # simplify values
        if len({q[3] for q in p}) > 1:
            yield {"p": [[q[0], q[1], q[2], 1] for q in p]}
        t0 = p[0][0]
        if t0 > 0:
            yield {"p": [[q[0] - t0, q[1], q[2], q[3]] for q in p]}
        for i, q in enumerate(p):
            if n <= 60 and q[2] not in (0,):
                yield {"p": p[:i] + [[q[0], q[1], 0, q[3]]] + p[i + 1:]}


# ----------------------------------------------------------------------------------------------
# component 2: RateCounter alone
# ----------------------------------------------------------------------------------------------

def run_counter(w, scale, ops):
    from aiortc.rate import RateCounter
    try:
        c = RateCounter(w, scale)
    except Exception as exc:
        return _exc(exc), None, set()
    recs = []
    hist = []
    failure = None
    flags = set()
    last = None
    for i, op in enumerate(ops):
        try:
            if op[0] == "a":
                _, v, now = op
                c.add(v, now)
                r = "a"
            elif op[0] == "r":
                now = op[1]
                res = c.rate(now)
                r = _oi(res)
                flags.add("rate-none" if res is None else "rate")
            else:
                c.reset()
                hist = []
                last = None
                recs.append(f"x/{c._total.count}/{c._total.value}/{_oi(c._origin_ms)}/{c._origin_index}")
                flags.add("reset")
                continue
        except Exception as exc:
            if failure is None:
                failure = f"op {i} {op}: raised {type(exc).__name__}: {exc}"
            return _exc(exc), failure, flags | {"raise"}
        if last is not None and now < last:
            flags.add("backwards")
        if last is not None and now - last >= w:
            flags.add("idle>window")
        last = now if last is None else max(last, now)
        if op[0] == "a":
            hist.append((now, v))
        recs.append(f"{r}/{c._total.count}/{c._total.value}/{_oi(c._origin_ms)}/{c._origin_index}")
        if "backwards" not in flags and failure is None and hist:
            inwin = [(t, v) for (t, v) in hist if now - w < t <= now]
            cnt, tot = len(inwin), sum(v for _, v in inwin)
            if (c._total.count, c._total.value) != (cnt, tot):
                failure = (f"op {i} {op}: total ({c._total.count}, {c._total.value}) differs from the samples in ({now - w}, {now}]: ({cnt}, {tot})")
            elif op[0] == "r":
                active = now - c._origin_ms + 1
                want = _round_half_even(scale * tot, active) if (cnt > 0 and active > 1) else None
                if res != want:
                    failure = f"op {i} {op}: rate() = {res}, expected {want}"
    return "ok " + ";".join(recs), failure, flags


class Counter(Component):
    name = "counter"
    theorems = ["counter_window_exact", "counter_add_ok", "counter_rate_ok", "counter_history_exact", "roundDivHalfEven_spec"]

    def __init__(self):
        self._cache = {}

    def corpus(self):
        return [
            {"w": 10, "s": 1, "ops": [["a", 1, 0], ["r", 0], ["a", 2, 9], ["r", 9], ["r", 10], ["r", 19], ["r", 20]]},
            {"w": 1000, "s": 8000, "ops": [["a", 1500, 5], ["a", 3, 6], ["r", 6], ["r", 1004], ["r", 1005], ["r", 1006]]},
            {"w": 3, "s": 8000, "ops": [["a", 1, 0], ["a", 1, 1], ["r", 1], ["a", 1, 2], ["r", 2], ["a", 1, 3], ["r", 3], ["x"], ["r", 3], ["a", 5, 3]]},
        ]

    def cases(self, rng, tier):
        n = 400 if tier == "quick" else 10000
        out = []
        for _ in range(n):
            w = rng.choice([1, 2, 3, 10, 10, 100, 1000, 1000])
            s = rng.choice([8000, 8000, 1000, 1, 3])
            t = rng.choice([0, 0, 5, 10 ** 9, -50])
            ops = []
            backwards = rng.random() < 0.05
            for _ in range(rng.randrange(1, 40)):
                t += rng.choice([0, 0, 1, 1, 2, 3, w - 2, w - 1, w, w + 1, 2 * w + 3, rng.randrange(0, 2 * w + 2)]) if not (backwards and rng.random() < 0.2) \
                    else -rng.randrange(1, w + 2)
                k = rng.random()
                if k < 0.55:
                    ops.append(["a", rng.choice([0, 1, 1, 2, 3, 1200, 1500, rng.randrange(1501)]), t])
                elif k < 0.97:
                    ops.append(["r", t])
                else:
                    ops.append(["x"])
            out.append({"w": w, "s": s, "ops": ops})
        return out

    def model_line(self, case):
        return f"rate counter {case['w']} {case['s']} " + ";".join(":".join(str(x) for x in op) for op in case["ops"])

    def _run(self, case):
        key = json.dumps(case, sort_keys=True)
        if key not in self._cache:
            if len(self._cache) > 4:
                self._cache.clear()
            self._cache[key] = _guard(run_counter, case["w"], case["s"], [tuple(o) for o in case["ops"]])
        return self._cache[key]

    def impl(self, case):
        return self._run(case)[0]

    def oracle(self, case, impl_out):
        return self._run(case)[1]

    def label(self, case, impl_out):
        fl = self._run(case)[2]
        return f"w{case['w']}:" + ("+".join(sorted(fl)) or "adds-only")

    def nontrivial(self, case, impl_out):
        return "rate" in self._run(case)[2]

    def shrink(self, case):
        ops = case["ops"]
        for i in range(len(ops)):
            cand = ops[:i] + ops[i + 1:]
            if cand:
                yield dict(case, ops=cand)


# ----------------------------------------------------------------------------------------------
# component 3: AimdRateControl.update alone
# ----------------------------------------------------------------------------------------------

def run_aimd(ops):
    from aiortc.rate import AimdRateControl, BandwidthUsage, RateControlState
    rc = AimdRateControl()
    recs = []
    failure = None
    flags = set()
    for i, (u, est, now) in enumerate(ops):
        usage = BandwidthUsage(u)
        cur_before = rc.current_bitrate
        latest_before = rc.latest_estimated_throughput
        try:
            ret = rc.update(usage, est, now)
        except Exception as exc:
            failure = f"update #{i} ({usage.name}, {est}, {now}) raised {type(exc).__name__}: {exc}"
            return _exc(exc), failure, flags | {"raise"}
        recs.append(f"{_oi(ret)}|{_aimd_ints(rc)}|" + ".".join(format(b, "x") for b in _aimd_floats(rc)))
        m = est if est is not None else latest_before
        if ret is None:
            flags.add("wait")
            continue
        flags.add("estimate")
        if failure is None:
            if type(ret) is not int or ret < 0:
                failure = f"update #{i}: estimate {ret!r} is not a non-negative integer"
            elif not _cap_ok(ret, m, cur_before):
                failure = f"update #{i}: estimate {ret} rose above 1.5·{m}+10000 (previous {cur_before})"
            elif usage == BandwidthUsage.OVERUSING and not _cut_ok(ret, m):
                failure = f"update #{i}: over-use but estimate {ret} > 85 % of {m}"
            elif ret != rc.current_bitrate:
                failure = f"update #{i}: returned {ret} but current_bitrate is {rc.current_bitrate}"
        if usage == BandwidthUsage.OVERUSING:
            flags.add("decrease")
        elif rc.state == RateControlState.INCREASE:
            flags.add("inc-add" if rc.near_max else "inc-mul")
        else:
            flags.add("hold")
        if ret == 0:
            flags.add("zero")
    return "ok " + ";".join(recs), failure, flags


class AimdC(Component):
    name = "aimd"
    theorems = ["update_cap", "update_never_rises_above", "update_overuse_cut", "update_overuse_85", "update_nonneg", "update_total",
                "nearMaxInc_no_zero_division", "nearMaxInc_unfixed_zero_division"]

    def __init__(self):
        self._cache = {}

    def corpus(self):
        return [
            # DESIGN.md §4 row 16: over-use at 1 kbit/s, over-use at 0, then normal usage  =>  ZeroDivisionError on the unfixed tree
            {"ops": [[2, 1000, 0], [2, 0, 100], [0, 0, 200], [0, 0, 300]]},
            {"ops": [[0, 300000, 0], [0, 300000, 3001], [0, 300000, 3500], [2, 200000, 4000], [0, 200000, 4500], [0, 250000, 5000],
                     [1, 250000, 5500], [0, 900000, 6000], [0, 900000, 6500]]},
            {"ops": [[2, None, 0], [0, None, 10], [0, None, 20]]},
        ]

    def cases(self, rng, tier):
        n = 1500 if tier == "quick" else 30000
        out = []
        for _ in range(n):
            t = rng.choice([0, 0, 1000, 2 ** 41])
            scale = rng.choice(["tiny", "tiny", "typ", "typ", "huge", "mix"])
            ops = []
            for _ in range(rng.randrange(1, 25)):
                t += rng.choice([0, 1, 10, 100, 500, 501, 999, 1000, 1001, 3000, 3001, 10000])
                if rng.random() < 0.08:
                    est = None
                elif scale == "tiny":
                    est = rng.choice([0, 0, 1, 30, 500, 1000, 3599, 3600, 3700, 9600 * 30, 9600 * 30 + 1])
                elif scale == "typ":
                    est = rng.choice([50000, 300000, 1000000, 2500000, 30000000, rng.randrange(10000, 5000000)])
                elif scale == "huge":
                    est = rng.choice([2 ** 31, 2 ** 40, 2 ** 52 - 1, 2 ** 53 + 1, 10 ** 18])
                else:
                    est = rng.choice([0, 1, 1000, 300000, rng.randrange(0, 1 << rng.randrange(1, 40))])
                ops.append([rng.choice([0, 0, 0, 1, 2, 2]), est, t])
            out.append({"ops": ops})
        return out

    def model_line(self, case):
        return "rate aimd " + ";".join(f"{u},{_oi(e)},{n}" for u, e, n in case["ops"])

    def _run(self, case):
        key = json.dumps(case, sort_keys=True)
        if key not in self._cache:
            if len(self._cache) > 4:
                self._cache.clear()
            self._cache[key] = _guard(run_aimd, [tuple(o) for o in case["ops"]])
        return self._cache[key]

    def impl(self, case):
        return self._run(case)[0]

    def oracle(self, case, impl_out):
        return self._run(case)[1]

    def label(self, case, impl_out):
        fl = self._run(case)[2]
        keep = [f for f in ("raise", "decrease", "inc-add", "inc-mul", "zero") if f in fl]
        return "+".join(keep) or ("hold" if "hold" in fl else "wait-only")

    def nontrivial(self, case, impl_out):
        return "estimate" in self._run(case)[2]

    def shrink(self, case):
        ops = case["ops"]
        for i in range(len(ops)):
            cand = ops[:i] + ops[i + 1:]
            if cand:
                yield {"ops": cand}
        t0 = ops[0][2]
        if t0 > 0:
            yield {"ops": [[u, e, n - t0] for u, e, n in ops]}


# ----------------------------------------------------------------------------------------------
# component 4: float literals, half-even rounding, float hypotheses of the theorems, REMB split
# ----------------------------------------------------------------------------------------------

LITERALS = [0.4, 1.08, 1.5, 0.85, 0.05, 2.5, 0.0087, 0.039, 12.5, 100.0, 0.1, 1e-13, 1e-3, 50.0, 0.01, 0.002,
            30.0, 1000.0, 3.0, 0.5, None, 1.0 / 64.0]


class Misc(Component):
    name = "misc"
    theorems = ["remb_encodable", "update_never_rises_above", "update_overuse_85", "update_nonneg", "nearMaxInc_unfixed_zero_division", "rate_const"]

    def cases(self, rng, tier):
        out = [{"k": "consts"}]
        n = 300 if tier == "quick" else 8000
        for _ in range(n):
            e = rng.randrange(0, 82)
            out.append({"k": "remb", "b": rng.choice([0, 1, 0x3FFFF, 0x40000, 0x40001, (1 << e) - 1, 1 << e, rng.randrange(1 << e) if e else 0])})
            b = rng.choice([1, 2, 3, 10, 999, 1000, rng.randrange(1, 1001)])
            a = rng.choice([0, 1, b // 2, b, 3 * b // 2, 5 * b // 2, rng.randrange(0, 8000 * 1500 * 1000), -rng.randrange(0, 10000)])
            out.append({"k": "round", "a": a, "b": b})
            out.append({"k": "fp", "cur": rng.choice([0, 0, 1, 287999, 288000, 288001, rng.randrange(1 << rng.randrange(1, 40))])})
            out.append({"k": "hyp", "m": rng.choice([0, 1, 2, 3, 7, 20, 1000, (1 << 51) - 1, rng.randrange(1 << rng.randrange(1, 52))])})
        return out

    def model_line(self, case):
        if case["k"] == "consts":
            return "rate consts"
        if case["k"] == "remb":
            return f"rate remb {case['b']}"
        if case["k"] == "round":
            return f"rate round {case['a']} {case['b']}"
        if case["k"] == "fp":
            return f"rate fp {case['cur']}"
        return f"rate hyp {case['m']}"

    def impl(self, case):
        if case["k"] == "consts":
            from aiortc.rate import TIMESTAMP_TO_MS
            return ".".join(format(_fbits(TIMESTAMP_TO_MS if x is None else x), "x") for x in LITERALS)
        if case["k"] == "remb":
            from aiortc.rtp import pack_remb_fci
            try:
                d = pack_remb_fci(case["b"], [])
            except Exception as exc:
                return _exc(exc)
            return f"{((d[5] & 3) << 16) | (d[6] << 8) | d[7]},{d[5] >> 2}"
        if case["k"] == "round":
            return str(round(case["a"] / case["b"]))
        if case["k"] == "fp":
            import math
            return f"ok {math.ceil(case['cur'] / 30 / (8 * 1200))}"
        from aiortc.rate import AimdRateControl
        m = case["m"]
        rc = AimdRateControl()
        return (f"ok {int(1.5 * m)},ok {round(0.85 * m)},ok {rc._multiplicative_rate_increase(m, 0, 500)},"
                f"ok {int(m / 1000)}")

    def oracle(self, case, impl_out):
        if case["k"] == "remb":
            from aiortc.rtp import pack_remb_fci, unpack_remb_fci
            b = case["b"]
            if b < (1 << 81):
                try:
                    v, _ = unpack_remb_fci(pack_remb_fci(b, [1, 2]))
                except Exception as exc:
                    return f"REMB of bitrate {b} raised {type(exc).__name__}"
                if v > b or (b - v) * (1 << 17) > b:
                    return f"REMB of bitrate {b} decodes to {v}"
            return None
        if case["k"] == "round":
            a, b = case["a"], case["b"]
            if round(a / b) != _round_half_even(a, b):
                return f"round({a}/{b}) = {round(a / b)} is not the half-even rounding of the rational ({_round_half_even(a, b)})"
            return None
        if case["k"] == "hyp":
            m = case["m"]
            f15, r85 = int(1.5 * m), round(0.85 * m)
            if not (m <= f15 <= 3 * m // 2):
                return f"float hypothesis: int(1.5·{m}) = {f15} not in [{m}, {3 * m // 2}]"
            if not (0 <= r85 and 100 * r85 <= 85 * m + 100):
                return f"float hypothesis: round(0.85·{m}) = {r85} not in [0, 0.85·{m}+1]"
            from aiortc.rate import AimdRateControl
            if AimdRateControl()._multiplicative_rate_increase(m, 0, 500) < 0 or int(m / 1000) < 0:
                return f"float hypothesis (SignFacts): negative increase for {m}"
        if case["k"] == "fp":
            # the packet count of _near_max_rate_increase is 0 exactly for a zero bitrate (the defect's trigger)
            import math
            p = math.ceil(case["cur"] / 30 / (8 * 1200))
            if (p == 0) != (case["cur"] == 0) or p < 0:
                return f"ceil(bits_per_frame / 9600) = {p} for current_bitrate {case['cur']}"
        return None

    def label(self, case, impl_out):
        return case["k"]


def components(tier):
    return [Rbe(), Counter(), AimdC(), Misc()]


def classify_finding(finding, comp_name, case, what):
    return False
