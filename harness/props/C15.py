"""C15 — receive-side bandwidth estimation (rate.py) never fails and stays within its safety bounds.

Two separate things are computed for every generated case, and they look at the implementation differently:

* ORACLE (the property, evaluated on the implementation alone): uses ONLY the public behaviour — the sequence of
  `RemoteBitrateEstimator.add(arrival_time_ms, abs_send_time, payload_size, ssrc)` calls and the `(bitrate, ssrcs)` REMB
  results they return (for the component tests: `RateCounter.add/rate/reset`, `AimdRateControl.update`).  What "the packets of
  the last 1000 ms", "the measured incoming bitrate", "the latest measurement", "85 %", "1.5·m + 10000" mean is recomputed from
  the INPUTS by a reference meter (`RefMeter`).  Over-use is inferred from the outputs: the estimator reports at most every
  500 ms unless it detected over-use, so a report that follows the previous one within ≤ 500 ms is an over-use report.
  In addition — optional, skipped when the names are not there — the two public observation points named by the property
  (`estimator.incoming_bitrate.rate(now)`, `estimator.detector.state()`) are compared with the reference.
* CORRESPONDENCE (what ties the Lean model lean/Aiortc/Model/Rate*.lean to the code): the returned values first, then —
  optional — internal state (integers exactly, every float bit for bit through a rolling hash).  Every internal name is read
  through `_f(...)`: a missing / renamed attribute becomes the field `?`, i.e. a model/implementation DISAGREEMENT ("the
  correspondence of that component is broken", reported as `no-failing-input-found`), never an exception that would be
  presented as a failing input of the property.
"""
from __future__ import annotations

import json
import os
import struct
from collections import deque
from fractions import Fraction

from harness.check import Component

LEAN_TARGETS = ["Aiortc.Props.C15"]
DRIVERS = ["Rate"]
MANIFEST = {
    "technique": "Lean 4 theorems (ring-buffer invariant by induction, integer control flow of the AIMD controller by case analysis) "
                 "over an executable model of rate.py + differential run of the compiled model (Lean Float, bit-exact) against the real classes "
                 "+ implementation-side oracle that recomputes window sums, measurements and bounds from the inputs and looks only at returned values",
    "text": "RateCounter is modelled exactly in integers: the ring buffer total is proved to be the count / byte sum of exactly the samples of the last "
            "window_size ms for every non-decreasing history, and no bucket access or modulo can raise. The integer control flow of "
            "AimdRateControl.update (with fixes/C15-near-max-zero-division.patch) is proved never to divide by zero or use an unset time, never to "
            "report more than max(int(1.5·m)+10000, previous estimate), to cut to exactly round(0.85·m) on over-use (m = the measurement passed in, 0 included, "
            "else the latest one, which every reporting update records), and to keep estimates non-negative; "
            "RemoteBitrateEstimator.add reports exactly the SSRCs seen in first-seen order, and the REMB exponent loop terminates with exponent ≤ 63 "
            "for estimates below 2^81. The float recurrences (inter-arrival rounding, Kalman filter, adaptive threshold, max-throughput statistics) are "
            "executed with Lean Float and compared bit for bit with CPython after every packet; float-derived integers enter the theorems as opaque "
            "terms constrained by stated hypotheses which the harness checks on every evaluated case.",
    "note": "\"never raises\" for the float recurrences (denominator of the Kalman gain non-zero, no NaN reaching int()/round()) is not a theorem; "
            "it is covered by the correspondence and the oracle search only.",
    "design_ref": "DESIGN.md §2 C15",
}
ASSUMPTIONS = [
    "arrival times are non-decreasing (as in the property); payload sizes are ≥ 0",
    "float hypotheses of the AIMD theorems, checked by the harness on every evaluated measurement m ≥ 0: int(1.5·m) ≤ ⌊3m/2⌋ and m ≤ int(1.5·m) "
    "(exact for m < 2^51), 0 ≤ round(0.85·m) ≤ 0.85·m + 1, round(0.85·m) ≤ int(1.5·m) + 10000, and the additive / multiplicative increase is ≥ 0",
    "float→int conversions inside AimdRateControl.update succeed (finite operands): the theorems prove that no *other* exception kind "
    "(ZeroDivisionError, TypeError, IndexError) is possible; finiteness itself is a float fact covered by correspondence",
    "RateCounter.rate: round(scale·bytes / active_window) is modelled as exact half-to-even rounding of the rational; equal to the float computation "
    "for rates below 2^40 bit/s (argument in notes/C15.md), compared exactly on every case",
    "REMB encodability additionally needs at most 255 distinct SSRCs per receiver (struct format 'B' for the count) and an estimate below 2^81",
    "oracle: an estimate reported ≤ 500 ms (AimdRateControl.feedback_interval()) after the previous one is taken to be an over-use report — the only "
    "reason rate.py reports early; the active window of the measurement is anchored as rate.py does it (first packet; re-anchored by the first packet "
    "that finds no measurement available after one had been available), recomputed from the arrival times alone",
]
TRUSTED_EXTRA = [
    "Lean Float = IEEE-754 binary64 with the platform libm (pow, sqrt), same as CPython's float on this machine; decimal literals are parsed to the "
    "same bit patterns (checked by the `misc` component on every run)",
    "InterArrival, OveruseEstimator, OveruseDetector and the float statistics of AimdRateControl are modelled and compared, not verified",
    "the receiver glue (rtcrtpreceiver.py:461-478) is read, not modelled: it passes len(payload)+padding_size ≥ 0, the 24-bit abs_send_time and "
    "clock.current_ms() to RemoteBitrateEstimator.add and feeds the result to pack_remb_fci; the oracle calls pack_remb_fci/unpack_remb_fci on every estimate",
]
RULE = ("rbe: arrival histories built from scenario segments (frame bursts whose packets share ONE arrival millisecond — at stream start and right after idle "
        "gaps of 999/1000/1001/5000 ms —, constant spacing, delay ramps up/down incl. a queue building up right after a gap, jitter, phases ≥ 1000 ms of "
        "zero-size payloads followed by over-use, sizes 0..1500 incl. all-zero and tiny-rate streams, send-time origin near the 24-bit wrap, 1-4 SSRCs) plus a raw "
        "stream of arbitrary gaps/stamps/sizes; counter: add/rate/reset op sequences for several window sizes with gaps around the window and repeated "
        "adds in one millisecond; aimd: update() sequences with boundary throughputs (0, tiny, typical, huge, None); distinct = distinct canonical case "
        "(sha1 of JSON); non-trivial = at least one estimate, rate or state change observed")

M61 = 2305843009213693951
#: VERIF_C15_IO_ONLY=1 switches the optional public observation points (incoming_bitrate.rate / detector.state) off: the oracle then
#: sees add() calls and return values only (used in the self-test to show that it still finds the seeded regressions by itself)
IO_ONLY = os.environ.get("VERIF_C15_IO_ONLY") == "1"


# ----------------------------------------------------------------------------------------------
# helpers
# ----------------------------------------------------------------------------------------------

def _fbits(x) -> int:
    x = float(x)
    if x != x:
        return 0x7FF8000000000000
    return struct.unpack(">Q", struct.pack(">d", x))[0]


def _obits(x) -> int:
    return 1 if x is None else _fbits(x)


def _mix(bits) -> int:
    h = 7
    for b in bits:
        h = (h * 1000003 + b + 1) % M61
    return h


def _oi(x) -> str:
    if x is None:
        return "-"
    if isinstance(x, bool) or not isinstance(x, int):
        raise TypeError("not an int")
    return str(x)


def _b(x) -> str:
    if not isinstance(x, bool):
        raise TypeError("not a bool")
    return "1" if x else "0"


def _exc(exc: BaseException) -> str:
    if isinstance(exc, ValueError):
        return "ValueError"
    return "crash " + type(exc).__name__


def _f(fn) -> str:
    """OPTIONAL observation of internal state for the correspondence: `?` when the name is gone or has another shape."""
    try:
        return fn()
    except Exception:
        return "?"


def _aimd_ints(rc) -> str:
    return ",".join(_f(fn) for fn in (
        lambda: str(int(rc.state.value)), lambda: _oi(rc.current_bitrate), lambda: _b(rc.near_max), lambda: _b(rc.current_bitrate_initialized),
        lambda: _oi(rc.latest_estimated_throughput), lambda: _oi(rc.first_estimated_throughput_time), lambda: _oi(rc.last_change_ms)))


def _aimd_floats(rc):
    return [_obits(rc.avg_max_bitrate_kbps), _fbits(rc.var_max_bitrate_kbps)]


def _round_half_even(a: int, b: int) -> int:
    return round(Fraction(a, b))  # Fraction.__round__ is half-to-even, exact


def _cap_ok(ret: int, m: int, prev: int) -> bool:
    # 1.5·m is exact in binary64 below 2^51; above, allow the float rounding of the product (relative 2^-52)
    return ret <= max((3 * m) // 2 + 10000 + (m >> 50), prev)


def _cut_ok(ret: int, m: int) -> bool:
    return 100 * ret <= 85 * m + 100


def _cut_exact(ret: int, m: int) -> bool:
    # round(0.85·m) up to the rounding (and, for m ≥ 2^40, the float error of the product)
    return 100 * ret >= 85 * m - 100 - (m >> 40)


def _guard(fn, *args):
    """A harness-side exception (not one raised by the public calls under test, those are handled inside the runners) means the
    implementation could not be OBSERVED the way the correspondence wants: that breaks the correspondence (impl string differs from
    the model's), it is not a failing input of the property."""
    try:
        return fn(*args)
    except Exception as exc:
        return f"unobservable {type(exc).__name__}: {str(exc)[:120]}", None, {"unobservable"}


class RefMeter:
    """What "the measured incoming bitrate" means, computed from the arrival history alone.

    bytes   = payload bytes of exactly the packets with  now − window < arrival ≤ now  (nothing is ever forgotten earlier);
    active  = now − origin + 1, origin = max(anchor, now − window + 1); the anchor is the first packet of the stream and is renewed by
              the first packet that finds no measurement available after one had been available (`armed`);
    rate    = None if no packet is in the window or active ≤ 1, else scale·bytes/active rounded half to even.
    """

    def __init__(self, window: int = 1000, scale: int = 8000):
        self.window, self.scale = window, scale
        self.win = deque()
        self.bytes = 0
        self.origin = None
        self.armed = True
        self.reanchored = False

    def _expire(self, now):
        while self.win and self.win[0][0] <= now - self.window:
            self.bytes -= self.win.popleft()[1]
        if self.origin is not None:
            self.origin = max(self.origin, now - self.window + 1)

    def active(self, now):
        return None if self.origin is None else now - self.origin + 1

    def rate(self, now):
        self._expire(now)
        if self.origin is None or not self.win or now - self.origin + 1 <= 1:
            return None
        return _round_half_even(self.scale * self.bytes, now - self.origin + 1)

    def packet(self, now, size):
        self.reanchored = False
        if self.rate(now) is not None:
            self.armed = True
        elif self.armed:
            self.reanchored = self.origin is not None
            self.origin = None
            self.armed = False
        if self.origin is None:
            self.origin = now
        self.win.append((now, size))
        self.bytes += size


# ----------------------------------------------------------------------------------------------
# component 1: the whole RemoteBitrateEstimator
# ----------------------------------------------------------------------------------------------

def _ret_str(ret) -> str:
    if ret is None:
        return "-"
    return _f(lambda: _oi(ret[0]) + "/" + ".".join(_oi(s) for s in ret[1]))


def _rbe_record(est, ret, verbose=False) -> str:
    """returned value | internal integers (optional) | internal floats (optional)"""
    ints = ",".join(_f(fn) for fn in (
        lambda: str(int(est.detector.hypothesis.value)), lambda: _aimd_ints(est.rate_control),
        lambda: _oi(est.estimator._num_of_deltas), lambda: _oi(est.detector.overuse_counter),
        lambda: _oi(est.incoming_bitrate._total.count), lambda: _oi(est.incoming_bitrate._total.value),
        lambda: _oi(est.incoming_bitrate._origin_ms), lambda: _b(est.incoming_bitrate_initialized),
        lambda: _oi(est.last_update_ms), lambda: _oi(est.detector.last_update_ms)))

    def floats():
        rc, det, oe = est.rate_control, est.detector, est.estimator
        fl = _aimd_floats(rc) + [_obits(det.overuse_time), _fbits(det.previous_offset), _fbits(det.threshold)] + \
            [_fbits(oe.E[0][0]), _fbits(oe.E[0][1]), _fbits(oe.E[1][0]), _fbits(oe.E[1][1]), _fbits(oe._offset),
             _fbits(oe.previous_offset), _fbits(oe.slope), _fbits(oe.avg_noise), _fbits(oe.var_noise)] + \
            [_fbits(x) for x in oe.ts_delta_hist]
        return ".".join(format(b, "x") for b in fl) if verbose else format(_mix(fl), "x")

    return _ret_str(ret) + "|" + ints + "|" + _f(floats)


_SKIP = object()


def observe_rbe(packets, verbose=False):
    """Drive the real estimator through its public `add`.  Returns
    (canonical string for the correspondence, rets, (index, exception) or None, optional public observations)."""
    from aiortc.rate import RemoteBitrateEstimator

    rets, recs = [], []
    pub = {"rate": [], "over": [], "internal": set()}
    try:
        est = RemoteBitrateEstimator()
    except Exception as exc:
        return _exc(exc), rets, (-1, exc), pub
    for i, (now, abs_, size, ssrc) in enumerate(packets):
        try:
            ret = est.add(arrival_time_ms=now, abs_send_time=abs_, payload_size=size, ssrc=ssrc)
        except Exception as exc:  # the property: never raises
            return _exc(exc), rets, (i, exc), pub
        rets.append(ret)
        recs.append(_rbe_record(est, ret, verbose))
        # optional public observation points named by the property (observe_at): RateCounter.rate(), detector state
        m = over = _SKIP
        if not IO_ONLY:
            try:
                m = est.incoming_bitrate.rate(now)
            except (AttributeError, TypeError):
                m = _SKIP
            except Exception as exc:
                m = exc
            try:
                over = est.detector.state().name == "OVERUSING"
                if est.detector.state().name == "UNDERUSING":
                    pub["internal"].add("underuse")
            except Exception:
                over = _SKIP
        pub["rate"].append(m)
        pub["over"].append(over)
        # labels only (which branches of the controller were reached); optional
        if ret is not None:
            try:
                rc = est.rate_control
                if rc.state.name == "INCREASE":
                    pub["internal"].add("inc-add" if rc.near_max else "inc-mul")
                if rc.current_bitrate_initialized:
                    pub["internal"].add("init")
            except Exception:
                pass
    return "ok " + ";".join(recs), rets, None, pub


def oracle_rbe(packets, rets, exc_at, pub):
    """The property on the implementation: inputs, returned values (and the optional public observation points).
    Returns (first failure or None, flags)."""
    from aiortc.rtp import pack_remb_fci, unpack_remb_fci

    flags = set(pub["internal"])
    failure = None

    def fail(msg):
        nonlocal failure
        if failure is None:
            failure = msg

    if exc_at is not None and exc_at[0] < 0:
        return f"RemoteBitrateEstimator() raised {type(exc_at[1]).__name__}: {exc_at[1]}", {"raise"}
    ref = RefMeter(1000, 8000)
    seen = []
    last_now = None
    last_report = None      # arrival time of the previous report
    prev = 0                # previous estimate (none yet: an estimate has nothing to stay at)
    latest = None           # measurement at the latest report that had one
    for i, (now, abs_, size, ssrc) in enumerate(packets):
        if exc_at is not None and i == exc_at[0]:
            fail(f"packet {i}: RemoteBitrateEstimator.add raised {type(exc_at[1]).__name__}: {exc_at[1]}")
            flags.add("raise")
            break
        if last_now is not None and now < last_now:
            flags.add("backwards")
        last_now = now if last_now is None else max(last_now, now)
        ret = rets[i]
        if ssrc not in seen:
            seen.append(ssrc)
        same_ms_as_anchor = ref.origin is not None and ref.origin == now and len(ref.win) > 0
        ref.packet(now, size)
        if ref.reanchored:
            flags.add("reset")
        if same_ms_as_anchor and ref.origin == now:
            flags.add("burst@anchor")
        m = ref.rate(now)
        mono = "backwards" not in flags
        if m is None:
            flags.add("rate-none")
        # ---- optional public observation points
        got = pub["rate"][i]
        if got is not _SKIP and mono:
            if isinstance(got, Exception):
                fail(f"packet {i}: incoming_bitrate.rate({now}) raised {type(got).__name__}: {got}")
            elif got != m:
                fail(f"packet {i}: the incoming bitrate measured at t={now} is {got} bit/s, but the packets that arrived in ({now - 1000}, {now}] "
                     f"are {len(ref.win)} packets / {ref.bytes} B over an active window of {ref.active(now)} ms = {m} bit/s")
        over = pub["over"][i]
        if over is True:
            flags.add("overuse")
            if ret is None:
                fail(f"packet {i}: over-use detected (detector.state()) but no estimate reported")
        if ret is None:
            continue
        # ---- a report
        flags.add("estimate")
        try:
            v, ssrcs = ret
            ssrcs = list(ssrcs)
        except Exception:
            fail(f"packet {i}: add returned {ret!r}, not (bitrate, ssrcs)")
            break
        early = last_report is not None and 0 <= now - last_report <= 500
        if early:
            flags.add("overuse")
        overuse = early or over is True
        if type(v) is not int or v < 0:
            fail(f"packet {i}: estimate {v!r} is not a non-negative integer")
        else:
            try:
                fci = pack_remb_fci(v, ssrcs)
                v2, ssrcs2 = unpack_remb_fci(fci)
                if ssrcs2 != ssrcs or v2 > v or (v - v2) * (1 << 17) > v:
                    fail(f"packet {i}: REMB round trip of ({v}, {ssrcs}) gives ({v2}, {ssrcs2})")
            except Exception as exc:
                fail(f"packet {i}: pack_remb_fci({v}, {len(ssrcs)} ssrcs) raised {type(exc).__name__}")
            if sorted(ssrcs) != sorted(seen):
                fail(f"packet {i}: reported SSRCs {ssrcs} are not exactly the SSRCs seen {seen}")
            m_eff = m if m is not None else latest
            if mono and m_eff is not None:
                what = (f"the {m_eff} bit/s measured over the packets of the last 1000 ms" if m is not None
                        else f"the latest measurement {m_eff} bit/s (none available now)")
                if m_eff == 0:
                    flags.add("zero-rate")
                if not _cap_ok(v, m_eff, prev):
                    fail(f"packet {i}: estimate {v} rose above 1.5·m+10000 with m = {what} (previous estimate {prev})")
                if overuse:
                    if m_eff == 0:
                        flags.add("overuse@zero-rate")
                    why = "reported only %d ms after the previous estimate, i.e. on over-use" % (now - last_report) if early else "detector.state() is OVERUSING"
                    if not _cut_ok(v, m_eff):
                        fail(f"packet {i}: over-use ({why}) but the estimate {v} is more than 85 % of {what}")
                    elif not _cut_exact(v, m_eff):
                        fail(f"packet {i}: over-use ({why}): the estimate {v} is not 85 % of {what} = {round(0.85 * m_eff)}; "
                             f"the measurement behind it does not cover exactly the packets that arrived in ({now - 1000}, {now}]")
            if v == 0:
                flags.add("zero-estimate")
            prev = v
        if m is not None:
            latest = m
        last_report = now
    return failure, flags


def run_rbe(packets, verbose=False):
    out, rets, exc_at, pub = observe_rbe(packets, verbose)
    failure, flags = oracle_rbe(packets, rets, exc_at, pub)
    return out, failure, flags


# ---- generators -----------------------------------------------------------------------------

IDLE_GAPS = [999, 1000, 1001, 1500, 3001, 5000]


def _gen_history(rng, tier):
    """Scenario-built arrival history: list of [arrival_ms, abs_send_time, size, ssrc]."""
    n_target = rng.choice([30, 80, 150, 300]) if tier == "quick" else rng.choice([50, 150, 400, 900, 1500])
    n_ssrc = rng.choice([1, 1, 2, 3, 4])
    ssrcs = [rng.choice([0, 1, 0xFFFFFFFF, rng.randrange(1 << 32)]) for _ in range(n_ssrc)]
    # send clock (ms, float) — origin near the 64 s wrap of the 24-bit 6.18 fixed point stamp in half the cases
    send0 = rng.choice([0.0, 63000.0, 63900.0, 63990.0, rng.uniform(0, 64000)])
    send = send0
    arrival_base = rng.randrange(0, 1 << rng.choice([1, 20, 41]))
    delay = rng.uniform(0, 50)
    pk = []
    last_arrival = arrival_base
    style = rng.choice(["mixed", "mixed", "tiny", "zero", "big"])
    while len(pk) < n_target:
        seg = rng.choice(["frames", "const", "ramp-up", "ramp-up", "ramp-down", "jitter", "idle", "burst", "steady-ramp"])
        seg_len = rng.randrange(5, 80)
        if seg == "idle":
            gap = rng.choice(IDLE_GAPS + [rng.randrange(1000, 12000)])
            send += gap
            delay = max(0.0, delay - gap)
            seg_len = 1
        slope = {"ramp-up": rng.uniform(0.2, 6), "steady-ramp": rng.uniform(0.05, 1.0), "ramp-down": -rng.uniform(0.2, 6)}.get(seg, 0.0)
        spacing = rng.choice([1, 5, 10, 20, 33.3, 40, 100, 250])
        # the packets of a "burst" frame — and of the frame that ends an idle period — share ONE arrival millisecond
        per_frame = rng.choice([1, 1, 2, 5, 12]) if seg in ("frames", "burst", "ramp-up", "idle") else 1
        for _ in range(seg_len):
            send += spacing
            for k in range(per_frame):
                if style == "zero":
                    size = 0
                elif style == "tiny":
                    size = rng.choice([0, 0, 0, 0, 0, 1, 2, 125])
                elif style == "big":
                    size = rng.choice([1200, 1500, 1499])
                else:
                    size = rng.choice([0, 1, 100, 500, 1200, 1500, rng.randrange(0, 1501)])
                delay = max(0.0, delay + slope + (rng.uniform(-3, 3) if seg == "jitter" else 0.0))
                s = send + (0.0 if seg in ("burst", "idle") else k * 0.3)
                arr = arrival_base + int(s - send0 + delay)
                if arr < last_arrival:
                    arr = last_arrival
                last_arrival = arr
                abs_ = int(s * (1 << 18) / 1000) % (1 << 24)
                pk.append([arr, abs_, size, rng.choice(ssrcs)])
    return pk[:n_target]


def _gen_raw(rng, tier):
    n = rng.choice([5, 20, 60, 150]) if tier == "quick" else rng.choice([20, 100, 400])
    t = rng.choice([0, 1, 10 ** 6, 2 ** 40])
    pk = []
    abs_ = rng.randrange(1 << 24)
    mode = rng.choice(["wild", "step", "step"])
    for _ in range(n):
        t += rng.choice([0, 0, 1, 1, 2, 5, 6, 20, 100, 499, 500, 501, 999, 1000, 1001, 3001, 5000])
        if mode == "wild":
            abs_ = rng.choice([0, 1, (1 << 24) - 1, 1 << 23, rng.randrange(1 << 24)])
        else:
            abs_ = (abs_ + rng.choice([0, 1, 262, 1310, 1311, 1312, 5243, 26214, 1 << 22, (1 << 24) - 5])) % (1 << 24)
        pk.append([t, abs_, rng.choice([0, 0, 1, 1200, 1500, rng.randrange(1501)]), rng.choice([1, 2, 3, 0xFFFFFFFF])])
    return pk


def _gen_overuse_tiny(rng, tier):
    """Streams whose measured rate is ~0-4 kbit/s while the delay keeps growing (repeated over-use at tiny rates)."""
    n = rng.choice([150, 300, 500])
    pk = []
    send = 0.0
    delay = 0.0
    t0 = rng.randrange(0, 5000)
    spacing = rng.choice([10, 20, 33.3])
    big_every = rng.choice([25, 50, 100])
    big = rng.choice([1, 60, 125, 400])
    stop_big = rng.randrange(40, n)
    slope = rng.uniform(0.5, 4)
    last = t0
    for i in range(n):
        send += spacing
        phase = (i // rng.choice([30, 60, 90])) % 3
        if phase != 2:
            delay += slope
        else:
            delay = max(0.0, delay - 3 * slope)
        arr = max(last, t0 + int(send + delay))
        last = arr
        size = big if (i % big_every == 0 and i < stop_big) else 0
        pk.append([arr, int(send * (1 << 18) / 1000) % (1 << 24), size, 7])
    return pk


def _gen_video(rng, tier):
    """A video-like stream: every frame is a burst of k packets that all arrive in the SAME millisecond (fast link).
    Phases: smooth delivery; an idle gap (999 / 1000 / 1001 / 5000 ms … around and beyond the measurement window) after which
    delivery resumes with a multi-packet frame; a phase of ≥ 1000 ms in which only empty packets (payload size 0) arrive, so
    that the measured rate is exactly 0; and queues building up (one-way delay grows per frame) right after a gap / during the
    empty phase, so that over-use is reported while the packets around the gap are still inside the window."""
    budget = rng.choice([250, 400, 600]) if tier == "quick" else rng.choice([400, 800, 1500])
    n_ssrc = rng.choice([1, 1, 2, 3])
    ssrcs = [rng.choice([1, 4321, 0xFFFFFFFF, rng.randrange(1 << 32)]) for _ in range(n_ssrc)]
    period = rng.choice([20.0, 1000 / 30, 40.0])
    send = rng.choice([0.0, 0.0, 62000.0, rng.uniform(0, 64000)])
    t0 = rng.choice([0, 20, rng.randrange(0, 1 << 33)])
    base = send
    delay = rng.choice([0.0, 10.0, 20.0])
    k = rng.choice([1, 2, 3, 4, 6])
    sizes = rng.choice([[1200], [1200], [1500, 1500, 300], [100], [0, 1200], [rng.randrange(0, 1501)]])
    pk = []
    last = t0
    empty = False

    def frame(n_packets, slope):
        nonlocal send, delay, last
        send += period
        delay = max(0.0, delay + slope)
        arr = max(last, t0 + int(send - base + delay))
        last = arr
        abs_ = int(send * (1 << 18) / 1000) % (1 << 24)
        ssrc = rng.choice(ssrcs)
        for j in range(n_packets):
            pk.append([arr, abs_, 0 if empty else sizes[j % len(sizes)], ssrc])

    # start-up: the very first frame is a burst as well
    for _ in range(rng.choice([10, 70, 150])):
        frame(k, 0.0)
    while len(pk) < budget:
        ev = rng.choice(["gap", "gap", "empty", "ramp", "smooth"])
        if ev == "gap":
            send += rng.choice([999, 1000, 1001, 5000, 2500, rng.randrange(900, 8000)]) - period
            delay = rng.choice([delay, 0.0, 20.0])
            frame(rng.choice([k, k, 2, 5]), 0.0)
            ev = rng.choice(["ramp", "ramp", "smooth"])
        elif ev == "empty":
            empty = True
            for _ in range(int(rng.choice([1000, 1100, 2000]) / period) + 1):
                frame(rng.choice([1, k]), 0.0)
            ev = rng.choice(["ramp", "ramp", "smooth"])
        if ev == "ramp":
            slope = rng.choice([4.0, 8.0, 12.0, rng.uniform(2, 15)])
            for _ in range(rng.randrange(15, 45)):
                frame(k, slope)
            for _ in range(rng.randrange(0, 20)):      # the queue drains
                frame(k, -2 * slope)
        else:
            for _ in range(rng.randrange(5, 60)):
                frame(k, 0.0)
        if empty and rng.random() < 0.5:
            empty = False
    return pk[:budget]


class Rbe(Component):
    name = "rbe"
    theorems = ["add_step", "run_history", "run_from_new", "countStep_ok", "global_window_exact", "dictSet_keys",
                "update_overuse_exact", "update_records_measurement"]

    def __init__(self):
        self._cache = {}

    def corpus(self):
        return [
            # shrunk estimator-level witness of the ZeroDivisionError on the pinned tree (33 ms frames, one 1-byte packet, growing delay,
            # then a 1.5 s gap): over-use at ~1 kbit/s, over-use at 0, normal usage  =>  _near_max_rate_increase divides by 0
            {"p": [[7542,855480,0,7],[7579,864210,0,7],[7652,881668,1,7],[7689,890398,0,7],[7726,899127,0,7],[7762,907857,0,7],[7799,916586,0,7],[7836,925315,0,7],[7872,934045,0,7],[7909,942774,0,7],[7946,951504,0,7],[7982,960233,0,7],[8019,968962,0,7],[8056,977692,0,7],[8092,986421,0,7],[8129,995151,0,7],[8166,1003880,0,7],[8202,1012609,0,7],[8239,1021339,0,7],[8276,1030068,0,7],[8312,1038798,0,7],[8349,1047527,0,7],[8386,1056256,0,7],[8422,1064986,0,7],[8459,1073715,0,7],[8496,1082445,0,7],[8532,1091174,0,7],[8569,1099903,0,7],[8606,1108633,0,7],[10060,1518914,0,7],[10566,1658585,0,7],[10602,1667314,0,7]]},
            {"p": [[0, 0, 0, 1]]},
            {"p": [[0, 0, 1200, 1], [0, 0, 1200, 1], [1, 262, 1200, 2]]},
            {"p": [[5, 16777215, 100, 1], [10, 2, 100, 1], [1010, 300000, 0, 1], [7000, 300001, 1500, 9]]},
            # a lone packet, an idle period, then a burst in one millisecond (the window is NOT re-anchored: no measurement had been available)
            {"p": [[0, 0, 1200, 1], [5000, 1310720, 1200, 1], [5000, 1310720, 1200, 1], [5001, 1310982, 1200, 1]]},
        ]

    def cases(self, rng, tier):
        n = 300 if tier == "quick" else 3000
        out = []
        for i in range(n):
            r = i % 12
            if r < 6:
                out.append({"p": _gen_history(rng, tier)})
            elif r < 8:
                out.append({"p": _gen_raw(rng, tier)})
            elif r < 10:
                out.append({"p": _gen_overuse_tiny(rng, tier)})
            else:
                out.append({"p": _gen_video(rng, tier)})
        return out

    def model_line(self, case):
        return "rate est " + ";".join(",".join(str(x) for x in p) for p in case["p"])

    def _run(self, case):
        key = json.dumps(case, sort_keys=True)
        if key not in self._cache:
            if len(self._cache) > 4:
                self._cache.clear()
            self._cache[key] = _guard(run_rbe, [tuple(p) for p in case["p"]])
        return self._cache[key]

    def impl(self, case):
        return self._run(case)[0]

    def oracle(self, case, impl_out):
        return self._run(case)[1]

    def label(self, case, impl_out):
        fl = self._run(case)[2]
        keep = [f for f in ("unobservable", "raise", "overuse", "overuse@zero-rate", "underuse", "inc-add", "inc-mul", "init", "reset", "burst@anchor",
                            "zero-estimate", "backwards") if f in fl]
        return "+".join(keep) if keep else ("estimate-only" if "estimate" in fl else "no-estimate")

    def nontrivial(self, case, impl_out):
        return "estimate" in self._run(case)[2]

    def shrink(self, case):
        p = case["p"]
        n = len(p)
        if n <= 1:
            return
        yield {"p": p[: n // 2]}
        yield {"p": p[: n - 1]}
        size = n // 2
        while size >= 1:
            for start in range(0, n, size):
                cand = p[:start] + p[start + size:]
                if cand:
                    yield {"p": cand}
            size //= 2
            if n > 60 and size < n // 16:
                break
        # simplify values
        if len({q[3] for q in p}) > 1:
            yield {"p": [[q[0], q[1], q[2], 1] for q in p]}
        t0 = p[0][0]
        if t0 > 0:
            yield {"p": [[q[0] - t0, q[1], q[2], q[3]] for q in p]}
        for i, q in enumerate(p):
            if n <= 60 and q[2] not in (0,):
                yield {"p": p[:i] + [[q[0], q[1], 0, q[3]]] + p[i + 1:]}


# ----------------------------------------------------------------------------------------------
# component 2: RateCounter alone
# ----------------------------------------------------------------------------------------------

def run_counter(w, scale, ops):
    """Public calls: RateCounter(w, scale), add(value, now), rate(now), reset().  The oracle compares every rate() RESULT with the rate of the
    samples of the last w ms recomputed from the op sequence; the internal total / origin only go into the correspondence string."""
    from aiortc.rate import RateCounter
    try:
        c = RateCounter(w, scale)
    except Exception as exc:
        return _exc(exc), f"RateCounter({w}, {scale}) raised {type(exc).__name__}: {exc}", {"raise"}
    recs = []
    failure = None
    flags = set()
    last = None
    hist = []        # samples since construction / the last reset()
    origin = None    # reference origin: first add, then slid by every add / rate call
    for i, op in enumerate(ops):
        res = None
        try:
            if op[0] == "a":
                _, v, now = op
                c.add(v, now)
                r = "a"
            elif op[0] == "r":
                now = op[1]
                res = c.rate(now)
                r = _f(lambda: _oi(res))
                flags.add("rate-none" if res is None else "rate")
            else:
                c.reset()
                r = "x"
                flags.add("reset")
        except Exception as exc:
            if failure is None:
                failure = f"op {i} {op}: raised {type(exc).__name__}: {exc}"
            return _exc(exc), failure, flags | {"raise"}
        recs.append(r + "/" + "/".join(_f(fn) for fn in (lambda: _oi(c._total.count), lambda: _oi(c._total.value),
                                                        lambda: _oi(c._origin_ms), lambda: _oi(c._origin_index))))
        if op[0] == "x":
            hist, origin, last = [], None, None
            continue
        if last is not None and now < last:
            flags.add("backwards")
        if last is not None and now - last >= w:
            flags.add("idle>window")
        if last is not None and now == last and op[0] == "a":
            flags.add("same-ms")
        last = now if last is None else max(last, now)
        if op[0] == "a":
            origin = now if origin is None else max(origin, now - w + 1)
            hist.append((now, v))
        elif origin is not None:
            origin = max(origin, now - w + 1)
        if op[0] == "r" and "backwards" not in flags and failure is None:
            inwin = [(t, x) for (t, x) in hist if now - w < t <= now]
            cnt, tot = len(inwin), sum(x for _, x in inwin)
            active = None if origin is None else now - origin + 1
            want = _round_half_even(scale * tot, active) if (cnt > 0 and active is not None and active > 1) else None
            if res != want or (res is not None and type(res) is not int):
                failure = (f"op {i} {op}: rate({now}) = {res!r}, but the samples in ({now - w}, {now}] are {cnt} samples / sum {tot} "
                           f"over an active window of {active} ms = {want}")
    return "ok " + ";".join(recs), failure, flags


class Counter(Component):
    name = "counter"
    theorems = ["counter_window_exact", "counter_add_ok", "counter_rate_ok", "counter_history_exact", "roundDivHalfEven_spec"]

    def __init__(self):
        self._cache = {}

    def corpus(self):
        return [
            {"w": 10, "s": 1, "ops": [["a", 1, 0], ["r", 0], ["a", 2, 9], ["r", 9], ["r", 10], ["r", 19], ["r", 20]]},
            {"w": 1000, "s": 8000, "ops": [["a", 1500, 5], ["a", 3, 6], ["r", 6], ["r", 1004], ["r", 1005], ["r", 1006]]},
            {"w": 3, "s": 8000, "ops": [["a", 1, 0], ["a", 1, 1], ["r", 1], ["a", 1, 2], ["r", 2], ["a", 1, 3], ["r", 3], ["x"], ["r", 3], ["a", 5, 3]]},
            {"w": 1000, "s": 8000, "ops": [["a", 1200, 7], ["a", 1200, 7], ["a", 1200, 7], ["r", 7], ["r", 8], ["r", 1006], ["r", 1007]]},
        ]

    def cases(self, rng, tier):
        n = 400 if tier == "quick" else 10000
        out = []
        for _ in range(n):
            w = rng.choice([1, 2, 3, 10, 10, 100, 1000, 1000])
            s = rng.choice([8000, 8000, 1000, 1, 3])
            t = rng.choice([0, 0, 5, 10 ** 9, -50])
            ops = []
            backwards = rng.random() < 0.05
            for _ in range(rng.randrange(1, 40)):
                t += rng.choice([0, 0, 1, 1, 2, 3, w - 2, w - 1, w, w + 1, 2 * w + 3, rng.randrange(0, 2 * w + 2)]) if not (backwards and rng.random() < 0.2) \
                    else -rng.randrange(1, w + 2)
                k = rng.random()
                if k < 0.55:
                    ops.append(["a", rng.choice([0, 1, 1, 2, 3, 1200, 1500, rng.randrange(1501)]), t])
                elif k < 0.97:
                    ops.append(["r", t])
                else:
                    ops.append(["x"])
            out.append({"w": w, "s": s, "ops": ops})
        return out

    def model_line(self, case):
        return f"rate counter {case['w']} {case['s']} " + ";".join(":".join(str(x) for x in op) for op in case["ops"])

    def _run(self, case):
        key = json.dumps(case, sort_keys=True)
        if key not in self._cache:
            if len(self._cache) > 4:
                self._cache.clear()
            self._cache[key] = _guard(run_counter, case["w"], case["s"], [tuple(o) for o in case["ops"]])
        return self._cache[key]

    def impl(self, case):
        return self._run(case)[0]

    def oracle(self, case, impl_out):
        return self._run(case)[1]

    def label(self, case, impl_out):
        fl = self._run(case)[2]
        return f"w{case['w']}:" + ("+".join(sorted(fl)) or "adds-only")

    def nontrivial(self, case, impl_out):
        return "rate" in self._run(case)[2]

    def shrink(self, case):
        ops = case["ops"]
        for i in range(len(ops)):
            cand = ops[:i] + ops[i + 1:]
            if cand:
                yield dict(case, ops=cand)


# ----------------------------------------------------------------------------------------------
# component 3: AimdRateControl.update alone
# ----------------------------------------------------------------------------------------------

def run_aimd(ops):
    """Public calls: AimdRateControl().update(usage, estimated_throughput, now_ms).  The oracle uses the arguments and the returned values
    only: m = the throughput passed in (0 is a measurement like any other), else the latest one passed to an update that reported;
    previous estimate = the previous returned value."""
    from aiortc.rate import AimdRateControl, BandwidthUsage
    try:
        rc = AimdRateControl()
    except Exception as exc:
        return _exc(exc), f"AimdRateControl() raised {type(exc).__name__}: {exc}", {"raise"}
    recs = []
    failure = None
    flags = set()
    latest = None
    prev = 0
    for i, (u, est, now) in enumerate(ops):
        usage = BandwidthUsage(u)
        try:
            ret = rc.update(usage, est, now)
        except Exception as exc:
            failure = failure or f"update #{i} ({usage.name}, {est}, {now}) raised {type(exc).__name__}: {exc}"
            return _exc(exc), failure, flags | {"raise"}
        recs.append(_f(lambda: _oi(ret)) + "|" + _aimd_ints(rc) + "|" + _f(lambda: ".".join(format(b, "x") for b in _aimd_floats(rc))))
        if ret is None:
            flags.add("wait")
            if usage == BandwidthUsage.OVERUSING and failure is None:
                failure = f"update #{i}: over-use but no estimate returned"
            continue
        flags.add("estimate")
        m = est if est is not None else latest
        if failure is None:
            if type(ret) is not int or ret < 0:
                failure = f"update #{i}: estimate {ret!r} is not a non-negative integer"
            elif m is not None and m >= 0:
                if not _cap_ok(ret, m, prev):
                    failure = f"update #{i}: estimate {ret} rose above 1.5·{m}+10000 (previous estimate {prev})"
                elif usage == BandwidthUsage.OVERUSING and not _cut_ok(ret, m):
                    failure = f"update #{i}: over-use but estimate {ret} > 85 % of the measured {m}"
                elif usage == BandwidthUsage.OVERUSING and not _cut_exact(ret, m):
                    failure = f"update #{i}: over-use but estimate {ret} is not 85 % of the measured {m} (= {round(0.85 * m)})"
        if type(ret) is int:
            prev = ret
        if est is not None:
            latest = est
        if usage == BandwidthUsage.OVERUSING:
            flags.add("decrease")
            if m == 0:
                flags.add("cut@0")
        else:
            try:  # label only
                flags.add(("inc-add" if rc.near_max else "inc-mul") if rc.state.name == "INCREASE" else "hold")
            except Exception:
                flags.add("hold")
        if ret == 0:
            flags.add("zero")
    return "ok " + ";".join(recs), failure, flags


class AimdC(Component):
    name = "aimd"
    theorems = ["update_cap", "update_never_rises_above", "update_overuse_cut", "update_overuse_85", "update_overuse_exact",
                "update_records_measurement", "update_nonneg", "update_total",
                "nearMaxInc_no_zero_division", "nearMaxInc_unfixed_zero_division"]

    def __init__(self):
        self._cache = {}

    def corpus(self):
        return [
            # DESIGN.md §4 row 16: over-use at 1 kbit/s, over-use at 0, then normal usage  =>  ZeroDivisionError on the unfixed tree
            {"ops": [[2, 1000, 0], [2, 0, 100], [0, 0, 200], [0, 0, 300]]},
            {"ops": [[0, 300000, 0], [0, 300000, 3001], [0, 300000, 3500], [2, 200000, 4000], [0, 200000, 4500], [0, 250000, 5000],
                     [1, 250000, 5500], [0, 900000, 6000], [0, 900000, 6500]]},
            {"ops": [[2, None, 0], [0, None, 10], [0, None, 20]]},
            # a measurement of exactly 0 is a measurement: cut to 0, recorded as the latest one (used by the update without a measurement)
            {"ops": [[2, 163200, 0], [2, 0, 600], [2, None, 700], [0, None, 1300]]},
        ]

    def cases(self, rng, tier):
        n = 1500 if tier == "quick" else 30000
        out = []
        for _ in range(n):
            t = rng.choice([0, 0, 1000, 2 ** 41])
            scale = rng.choice(["tiny", "tiny", "typ", "typ", "huge", "mix"])
            ops = []
            for _ in range(rng.randrange(1, 25)):
                t += rng.choice([0, 1, 10, 100, 500, 501, 999, 1000, 1001, 3000, 3001, 10000])
                if rng.random() < 0.08:
                    est = None
                elif scale == "tiny":
                    est = rng.choice([0, 0, 1, 30, 500, 1000, 3599, 3600, 3700, 9600 * 30, 9600 * 30 + 1])
                elif scale == "typ":
                    est = rng.choice([50000, 300000, 1000000, 2500000, 30000000, rng.randrange(10000, 5000000)])
                elif scale == "huge":
                    est = rng.choice([2 ** 31, 2 ** 40, 2 ** 52 - 1, 2 ** 53 + 1, 10 ** 18])
                else:
                    est = rng.choice([0, 1, 1000, 300000, rng.randrange(0, 1 << rng.randrange(1, 40))])
                ops.append([rng.choice([0, 0, 0, 1, 2, 2]), est, t])
            out.append({"ops": ops})
        return out

    def model_line(self, case):
        return "rate aimd " + ";".join(f"{u},{_oi(e)},{n}" for u, e, n in case["ops"])

    def _run(self, case):
        key = json.dumps(case, sort_keys=True)
        if key not in self._cache:
            if len(self._cache) > 4:
                self._cache.clear()
            self._cache[key] = _guard(run_aimd, [tuple(o) for o in case["ops"]])
        return self._cache[key]

    def impl(self, case):
        return self._run(case)[0]

    def oracle(self, case, impl_out):
        return self._run(case)[1]

    def label(self, case, impl_out):
        fl = self._run(case)[2]
        keep = [f for f in ("unobservable", "raise", "decrease", "cut@0", "inc-add", "inc-mul", "zero") if f in fl]
        return "+".join(keep) or ("hold" if "hold" in fl else "wait-only")

    def nontrivial(self, case, impl_out):
        return "estimate" in self._run(case)[2]

    def shrink(self, case):
        ops = case["ops"]
        for i in range(len(ops)):
            cand = ops[:i] + ops[i + 1:]
            if cand:
                yield {"ops": cand}
        t0 = ops[0][2]
        if t0 > 0:
            yield {"ops": [[u, e, n - t0] for u, e, n in ops]}


# ----------------------------------------------------------------------------------------------
# component 4: float literals, half-even rounding, float hypotheses of the theorems, REMB split
# ----------------------------------------------------------------------------------------------

LITERALS = [0.4, 1.08, 1.5, 0.85, 0.05, 2.5, 0.0087, 0.039, 12.5, 100.0, 0.1, 1e-13, 1e-3, 50.0, 0.01, 0.002,
            30.0, 1000.0, 3.0, 0.5, None, 1.0 / 64.0]


def _mult_increase(m):
    """`AimdRateControl._multiplicative_rate_increase(m, 0, 500)` — a private helper, read for the correspondence of the float hypotheses
    only; None when it is not there (the hypothesis is then not checked here, the `aimd` component still compares every update)."""
    try:
        from aiortc.rate import AimdRateControl
        v = AimdRateControl()._multiplicative_rate_increase(m, 0, 500)
        return v if type(v) is int else None
    except Exception:
        return None


class Misc(Component):
    name = "misc"
    theorems = ["remb_encodable", "update_never_rises_above", "update_overuse_85", "update_overuse_exact", "update_nonneg",
                "nearMaxInc_unfixed_zero_division", "rate_const"]

    def cases(self, rng, tier):
        out = [{"k": "consts"}]
        n = 300 if tier == "quick" else 8000
        for _ in range(n):
            e = rng.randrange(0, 82)
            out.append({"k": "remb", "b": rng.choice([0, 1, 0x3FFFF, 0x40000, 0x40001, (1 << e) - 1, 1 << e, rng.randrange(1 << e) if e else 0])})
            b = rng.choice([1, 2, 3, 10, 999, 1000, rng.randrange(1, 1001)])
            a = rng.choice([0, 1, b // 2, b, 3 * b // 2, 5 * b // 2, rng.randrange(0, 8000 * 1500 * 1000), -rng.randrange(0, 10000)])
            out.append({"k": "round", "a": a, "b": b})
            out.append({"k": "fp", "cur": rng.choice([0, 0, 1, 287999, 288000, 288001, rng.randrange(1 << rng.randrange(1, 40))])})
            out.append({"k": "hyp", "m": rng.choice([0, 1, 2, 3, 7, 20, 1000, (1 << 51) - 1, rng.randrange(1 << rng.randrange(1, 52))])})
        return out

    def model_line(self, case):
        if case["k"] == "consts":
            return "rate consts"
        if case["k"] == "remb":
            return f"rate remb {case['b']}"
        if case["k"] == "round":
            return f"rate round {case['a']} {case['b']}"
        if case["k"] == "fp":
            return f"rate fp {case['cur']}"
        return f"rate hyp {case['m']}"

    def impl(self, case):
        if case["k"] == "consts":
            from aiortc.rate import TIMESTAMP_TO_MS
            return ".".join(format(_fbits(TIMESTAMP_TO_MS if x is None else x), "x") for x in LITERALS)
        if case["k"] == "remb":
            from aiortc.rtp import pack_remb_fci
            try:
                d = pack_remb_fci(case["b"], [])
            except Exception as exc:
                return _exc(exc)
            return f"{((d[5] & 3) << 16) | (d[6] << 8) | d[7]},{d[5] >> 2}"
        if case["k"] == "round":
            return str(round(case["a"] / case["b"]))
        if case["k"] == "fp":
            import math
            return f"ok {math.ceil(case['cur'] / 30 / (8 * 1200))}"
        m = case["m"]
        mi = _mult_increase(m)
        return (f"ok {int(1.5 * m)},ok {round(0.85 * m)},{'?' if mi is None else 'ok ' + str(mi)},"
                f"ok {int(m / 1000)}")

    def oracle(self, case, impl_out):
        if case["k"] == "remb":
            from aiortc.rtp import pack_remb_fci, unpack_remb_fci
            b = case["b"]
            if b < (1 << 81):
                try:
                    v, _ = unpack_remb_fci(pack_remb_fci(b, [1, 2]))
                except Exception as exc:
                    return f"REMB of bitrate {b} raised {type(exc).__name__}"
                if v > b or (b - v) * (1 << 17) > b:
                    return f"REMB of bitrate {b} decodes to {v}"
            return None
        if case["k"] == "round":
            a, b = case["a"], case["b"]
            if round(a / b) != _round_half_even(a, b):
                return f"round({a}/{b}) = {round(a / b)} is not the half-even rounding of the rational ({_round_half_even(a, b)})"
            return None
        if case["k"] == "hyp":
            m = case["m"]
            f15, r85 = int(1.5 * m), round(0.85 * m)
            if not (m <= f15 <= 3 * m // 2):
                return f"float hypothesis: int(1.5·{m}) = {f15} not in [{m}, {3 * m // 2}]"
            if not (0 <= r85 and 100 * r85 <= 85 * m + 100):
                return f"float hypothesis: round(0.85·{m}) = {r85} not in [0, 0.85·{m}+1]"
            if not r85 <= f15 + 10000:
                return f"float hypothesis: round(0.85·{m}) = {r85} above int(1.5·{m}) + 10000"
            mi = _mult_increase(m)
            if (mi is not None and mi < 0) or int(m / 1000) < 0:
                return f"float hypothesis (SignFacts): negative increase for {m}"
        if case["k"] == "fp":
            # the packet count of _near_max_rate_increase is 0 exactly for a zero bitrate (the defect's trigger)
            import math
            p = math.ceil(case["cur"] / 30 / (8 * 1200))
            if (p == 0) != (case["cur"] == 0) or p < 0:
                return f"ceil(bits_per_frame / 9600) = {p} for current_bitrate {case['cur']}"
        return None

    def label(self, case, impl_out):
        return case["k"]


def components(tier):
    return [Rbe(), Counter(), AimdC(), Misc()]


def classify_finding(finding, comp_name, case, what):
    return False
