"""C16 — H.264 / VP8 RTP packetisation is lossless and respects the payload size limit.

Correspondence: the byte-level static/class methods of src/aiortc/codecs/h264.py and vpx.py against the
compiled Lean models (Model/H264.lean, Model/Vp8.lean) on the same inputs.
Oracle: the property itself evaluated on what the implementation returned (sizes, reassembly through the
implementation's own depayload, FU-A / STAP-A structure, VP8 descriptor fields)."""
from __future__ import annotations

import random
import signal

from harness.check import Component

LEAN_TARGETS = ["Aiortc.Props.C16"]
DRIVERS = ["Codec"]
MANIFEST = {
    "technique": "Lean 4 theorems (induction over the packetiser loops) about executable models of h264.py / vpx.py "
                 "+ function-level differential run of the compiled models against the real static methods + round-trip oracle",
    "text": "For ALL lists of NAL units (>= 2 bytes, types 1-23) the model of H264Encoder._packetize returns payloads of at most 1300 bytes "
            "whose depayloads concatenate to the NAL units with 4-byte start codes; FU-A fragments of one NAL carry exactly one S and one E bit "
            "and restore the original header; STAP-A packets return every aggregated NAL whole; _split_bitstream inverts start-code framing; "
            "Vp8Encoder._packetize is bounded by 1300, lossless, marks only the first payload as partition start and carries the picture id, "
            "and the VP8 descriptor round-trips for all in-range field combinations (all 15-bit picture ids). The models are executed against "
            "the real code on boundary-biased and malformed inputs.",
    "note": "PyAV encoders/decoders are out of scope (only the pure byte-level functions are modelled).",
    "design_ref": "DESIGN.md §2 C16",
}
ASSUMPTIONS = [
    "H.264 theorems assume each NAL unit has >= 2 bytes < 256 and a type in 1..23 (as the property does)",
    "split_bitstream theorem assumes NAL units contain no 00 00 01 and do not end in 00 (guaranteed by H.264 emulation prevention / rbsp trailing bits)",
    "VP8 descriptor round trip assumes fields in their wire ranges: S<2, PID<16, picture_id<2^15, tl0picidx<256, tid<(4,2), keyidx<32",
]
TRUSTED_EXTRA = [
    "math.ceil(p / a) in _packetize_fu_a is modelled as exact integer ceiling division (float division is exact enough for p < 2^40)",
    "Python iterator protocol of _packetize/_packetize_stap_a modelled as (current element, list of remaining elements)",
    "negative descriptor fields of VpxPayloadDescriptor (rejected by struct.pack) are not modelled",
    "PyAV encode/decode, timestamps (convert_timebase) and Vp8Encoder.picture_id bookkeeping ((id+1) % 2^15) are outside the model",
]
RULE = ("H.264: lists of 0..20 NAL units described as (header byte, length, seed); lengths biased to 0,1,2, 1295..1302, k*1298+{0,1,2}, "
        "STAP-A budget edges (sum of 2+len around 1297/1299, 8..11 units) and up to 60000; all NRI/type bits; direct calls of "
        "_packetize_fu_a/_packetize_stap_a/_split_bitstream/parse incl. malformed payloads (truncations, length fields +-1/0/max, all 32 type codes); "
        "VP8: buffers 0..60000 biased to multiples of 1296/1297/1298 +-1, picture ids at 0,127,128,32767 and random, every descriptor flag combination, "
        "truncated descriptors. distinct = distinct case description")

H264_MAX = 1300


def _h264():
    from aiortc.codecs import h264
    return h264


def _vpx():
    from aiortc.codecs import vpx
    return vpx


def hx(b: bytes) -> str:
    return b.hex() if b else "-"


def unhx(s: str) -> bytes:
    return b"" if s == "-" else bytes.fromhex(s)


def hxlist(l) -> str:
    return ",".join(hx(x) for x in l) if l else "~"


def unhxlist(s: str):
    return [] if s == "~" else [unhx(x) for x in s.split(",")]


class _Timeout(Exception):
    pass


def _alarm(signum, frame):
    raise _Timeout()


def guarded(fn):
    """Run fn() and canonicalise: 'ok <value>' / 'ValueError' / 'crash <Exc>' / 'hang'."""
    old = signal.signal(signal.SIGALRM, _alarm)
    signal.setitimer(signal.ITIMER_REAL, 5.0)
    try:
        return "ok " + fn()
    except _Timeout:
        return "hang"
    except ValueError:
        return "ValueError"
    except Exception as exc:  # noqa: BLE001
        name = type(exc).__name__
        if type(exc).__module__ in ("struct", "_struct") or name == "error":
            name = "struct.error"
        return "crash " + name
    finally:
        signal.setitimer(signal.ITIMER_REAL, 0)
        signal.signal(signal.SIGALRM, old)


def fill(n: int, seed: int, alphabet=None) -> bytes:
    if n <= 0:
        return b""
    r = random.Random(seed)
    if alphabet:
        return bytes(r.choice(alphabet) for _ in range(n))
    return r.randbytes(n)


def nal_bytes(spec) -> bytes:
    hdr, length, seed = spec
    if length <= 0:
        return b""
    return bytes([hdr & 0xFF]) + fill(length - 1, seed)


def clean_nal(b: bytes) -> bytes:
    """Make a NAL body legal for start-code framing: no 00 00 01 inside, last byte non-zero."""
    a = bytearray(b)
    for i in range(2, len(a)):
        if a[i] == 1 and a[i - 1] == 0 and a[i - 2] == 0:
            a[i] = 3
    if a and a[-1] == 0:
        a[-1] = 0x80
    return bytes(a)


def valid_nal(n: bytes) -> bool:
    return len(n) >= 2 and 1 <= (n[0] & 0x1F) <= 23


# ------------------------------------------------------------------------------------------
# oracle helpers (implementation side only)
# ------------------------------------------------------------------------------------------

def check_h264_payloads(nals, payloads) -> str | None:
    """The property for one packetised NAL list (all NALs valid)."""
    h264 = _h264()
    for i, p in enumerate(payloads):
        if len(p) > 1300:
            return f"payload {i} has {len(p)} bytes > 1300"
    # lossless through the implementation's own depayload
    out = b""
    for i, p in enumerate(payloads):
        try:
            out += h264.h264_depayload(p)
        except Exception as exc:  # noqa: BLE001
            return f"depayload of payload {i} raised {type(exc).__name__}: {exc}"
    want = b"".join(b"\x00\x00\x00\x01" + n for n in nals)
    if out != want:
        k = next((j for j in range(min(len(out), len(want))) if out[j] != want[j]), min(len(out), len(want)))
        return f"depayloaded stream differs from the NAL units with start codes at byte {k} (got {len(out)} bytes, want {len(want)})"
    # structure: walk payloads and NALs in step
    ni = 0
    i = 0
    while i < len(payloads):
        p = payloads[i]
        t = p[0] & 0x1F
        if t == 28:
            if ni >= len(nals):
                return "FU-A fragments without a NAL unit left"
            n = nals[ni]
            body = b""
            first = True
            while True:
                if i >= len(payloads):
                    return f"fragmented NAL unit {ni}: no end marker"
                q = payloads[i]
                if (q[0] & 0x1F) != 28:
                    return f"fragmented NAL unit {ni}: non FU-A payload before the end marker"
                s, e = bool(q[1] & 0x80), bool(q[1] & 0x40)
                if s != first:
                    return f"fragmented NAL unit {ni}: start marker wrong on fragment (S={s}, first={first})"
                if (q[0] & 0xE0) != (n[0] & 0xE0) or (q[1] & 0x1F) != (n[0] & 0x1F) or (q[1] & 0x20):
                    return f"fragmented NAL unit {ni}: FU indicator/header do not carry the original F/NRI/type bits"
                body += q[2:]
                first = False
                i += 1
                if e:
                    break
            if body != n[1:]:
                return f"fragmented NAL unit {ni}: fragments between S and E do not reassemble to the unit"
            ni += 1
        elif t == 24:
            pos = 1
            cnt = 0
            while pos < len(p):
                if pos + 2 > len(p):
                    return f"STAP-A payload {i}: truncated length field"
                ln = (p[pos] << 8) | p[pos + 1]
                pos += 2
                if pos + ln > len(p):
                    return f"STAP-A payload {i}: truncated unit"
                if ni >= len(nals) or p[pos:pos + ln] != nals[ni]:
                    return f"STAP-A payload {i}: aggregated unit {cnt} is not NAL unit {ni} whole"
                ni += 1
                cnt += 1
                pos += ln
            if cnt < 1:
                return f"STAP-A payload {i} aggregates no unit"
            i += 1
        else:
            if ni >= len(nals) or p != nals[ni]:
                return f"single NAL payload {i} is not NAL unit {ni}"
            ni += 1
            i += 1
    if ni != len(nals):
        return f"only {ni} of {len(nals)} NAL units were sent"
    return None


# ------------------------------------------------------------------------------------------
# H.264 components
# ------------------------------------------------------------------------------------------

NAL_LEN_EDGES = [2, 3, 4, 10, 100, 640, 645, 646, 647, 648, 649, 650, 1000, 1290, 1294, 1295, 1296, 1297, 1298, 1299, 1300, 1301, 1302,
                 1303, 2595, 2596, 2597, 2598, 2599, 2600, 3893, 3894, 3895, 3896, 5000, 1298 * 10, 1298 * 10 + 1, 1298 * 10 + 2]


def rand_hdr(rng, valid=True):
    if valid:
        return (rng.randrange(8) << 5) | rng.randrange(1, 24)
    return rng.randrange(256)


def rand_len(rng, big=60000):
    m = rng.randrange(10)
    if m < 3:
        return rng.choice(NAL_LEN_EDGES)
    if m < 5:
        return rng.randrange(2, 60)
    if m < 6:
        return rng.randrange(1290, 1310)
    if m < 7:
        k = rng.randrange(1, max(2, big // 1298))
        return 1298 * k + rng.randrange(-2, 4)
    if m < 9:
        return rng.randrange(2, 1400)
    return rng.randrange(2, big + 1)


def shrink_specs(specs):
    """Candidates for a list of (hdr, len, seed)."""
    out = []
    n = len(specs)
    if n > 1:
        out.append(specs[: n // 2])
        out.append(specs[n // 2:])
        for i in range(n):
            out.append(specs[:i] + specs[i + 1:])
    for i, (h, l, s) in enumerate(specs):
        for l2 in sorted({2, l // 2, l - 1298, l - 1, 1301, 1300, 1298, 1297}):
            if 0 <= l2 < l:
                out.append(specs[:i] + [[h, l2, s]] + specs[i + 1:])
        if s != 0:
            out.append(specs[:i] + [[h, l, 0]] + specs[i + 1:])
        if h != 0x65 and h != 0x41:
            out.append(specs[:i] + [[0x41, l, s]] + specs[i + 1:])
    return out


class H264Packetize(Component):
    name = "h264_packetize"
    theorems = ["h264_packetize_ok", "h264_size", "h264_lossless", "single_nal_depayload", "stap_a_packet", "fu_a_markers"]

    def corpus(self):
        return [
            {"nals": []},
            {"nals": [[0x65, 1300, 1]]},
            {"nals": [[0x65, 1301, 1]]},
            {"nals": [[0x65, 1297, 1], [0x41, 2, 2]]},
            {"nals": [[0x61, 1290, 1], [0x41, 5, 2]]},
            {"nals": [[0x61, 1290, 1], [0x41, 6, 2]]},
            {"nals": [[0x21, 10, i] for i in range(12)]},
            {"nals": [[0x65, 1298 * 3 + 1, 7]]},
            {"nals": [[0x65, 1298 * 3 + 2, 7]]},
            {"nals": [[0x65, 60000, 7]]},
        ]

    def cases(self, rng, tier):
        n = 260 if tier == "quick" else 4000
        out = []
        # single NAL at every edge length, various headers
        for l in NAL_LEN_EDGES + [1, 0]:
            out.append({"nals": [[rand_hdr(rng), l, rng.randrange(1 << 16)]]})
        # pairs around the STAP-A budget: 2+a + 2+b vs 1299
        for a in (1289, 1290, 1291, 1292, 1293, 1294, 1295):
            for b in (2, 3, 4, 5, 6):
                out.append({"nals": [[rand_hdr(rng), a, rng.randrange(99)], [rand_hdr(rng), b, rng.randrange(99)]]})
        # counter limit
        for k in (8, 9, 10, 11, 18, 19, 20):
            out.append({"nals": [[rand_hdr(rng), rng.randrange(2, 40), rng.randrange(99)] for _ in range(k)]})
        for _ in range(n):
            mode = rng.randrange(10)
            k = rng.choice([1, 1, 2, 2, 3, 4, 5, 8, 9, 10, 11, 15, 20]) if (mode or rng.randrange(8)) else 0
            big = 60000 if (mode >= 8 and k <= 3) else 6000
            if mode in (1, 2):  # small units that aggregate, budget edges
                specs = []
                total = 0
                for _i in range(k):
                    l = rng.choice([2, 3, 5, 20, 100, 200, 400, 640, 646, 647, 648, 649])
                    specs.append([rand_hdr(rng), l, rng.randrange(1 << 16)])
                    total += 2 + l
                # top up to hit the budget exactly +-1
                if rng.randrange(2) and total < 1290:
                    specs.append([rand_hdr(rng), max(2, 1299 - total - 2 + rng.randrange(-1, 2)), rng.randrange(99)])
            elif mode == 3:  # malformed units: empty, 1 byte, any type bits
                specs = [[rand_hdr(rng, valid=False), rng.choice([0, 1, 1, 2, 3, 1300, 1301, rand_len(rng, 3000)]), rng.randrange(99)]
                         for _ in range(k)]
            else:
                specs = [[rand_hdr(rng), rand_len(rng, big), rng.randrange(1 << 16)] for _ in range(k)]
            out.append({"nals": specs})
        return out

    def _nals(self, case):
        return [nal_bytes(s) for s in case["nals"]]

    def model_line(self, case):
        return "codec h264_packetize " + hxlist(self._nals(case))

    def impl(self, case):
        h264 = _h264()
        nals = self._nals(case)
        return guarded(lambda: hxlist(h264.H264Encoder._packetize(iter(nals))))

    def oracle(self, case, impl_out):
        nals = self._nals(case)
        if not all(valid_nal(n) for n in nals):
            return None
        if not impl_out.startswith("ok "):
            return f"_packetize raised on valid NAL units: {impl_out}"
        return check_h264_payloads(nals, unhxlist(impl_out[3:]))

    def label(self, case, impl_out):
        if not impl_out.startswith("ok "):
            return impl_out[:30]
        kinds = set()
        for p in unhxlist(impl_out[3:]):
            t = p[0] & 0x1F if p else -1
            kinds.add("fua" if t == 28 else "stap" if t == 24 else "single")
        valid = all(valid_nal(nal_bytes(s)) for s in case["nals"])
        return ("valid:" if valid else "malformed:") + ("+".join(sorted(kinds)) or "empty")

    def nontrivial(self, case, impl_out):
        return len(case["nals"]) > 0

    def shrink(self, case):
        return [{"nals": s} for s in shrink_specs(case["nals"])]


class H264FuA(Component):
    name = "h264_fu_a"
    theorems = ["fu_a_markers", "fu_a_header_bits", "fu_a_reassemble", "fu_a_count"]

    def corpus(self):
        return [{"nal": [0x65, l, 3]} for l in (0, 1, 2, 1299, 1300, 1301, 1302, 2597, 2598, 60000)]

    def cases(self, rng, tier):
        n = 150 if tier == "quick" else 3000
        out = []
        for k in range(1, 12):
            for d in (-1, 0, 1, 2):
                out.append({"nal": [rand_hdr(rng, False), 1298 * k + 1 + d, rng.randrange(99)]})
        for _ in range(n):
            m = rng.randrange(8)
            if m < 2:
                l = rng.randrange(0, 1400)
            elif m < 4:
                k = rng.choice([1, 2, 2, 3, 3, 4, 5, rng.randrange(1, 47)])
                l = 1298 * k + 1 + rng.randrange(-2, 3)
            elif m < 7:
                l = rng.randrange(1301, 8000)
            else:
                l = rng.randrange(1301, 60001)
            out.append({"nal": [rand_hdr(rng, False), l, rng.randrange(1 << 16)]})
        return out

    def model_line(self, case):
        return "codec h264_fua " + hx(nal_bytes(case["nal"]))

    def impl(self, case):
        h264 = _h264()
        data = nal_bytes(case["nal"])
        return guarded(lambda: hxlist(h264.H264Encoder._packetize_fu_a(data)))

    def oracle(self, case, impl_out):
        data = nal_bytes(case["nal"])
        if len(data) <= 1300:
            return None  # _packetize never fragments such a unit
        if not impl_out.startswith("ok "):
            return f"_packetize_fu_a raised on a {len(data)}-byte unit: {impl_out}"
        frags = unhxlist(impl_out[3:])
        if len(frags) < 2:
            return f"{len(frags)} fragments for a {len(data)}-byte unit"
        for i, f in enumerate(frags):
            if len(f) > 1300:
                return f"fragment {i} has {len(f)} bytes > 1300"
            if len(f) < 3:
                return f"fragment {i} is empty"
            if f[0] != ((data[0] & 0xE0) | 28):
                return f"fragment {i}: FU indicator {f[0]:#x} does not carry F/NRI of {data[0]:#x} with type 28"
            want = (data[0] & 0x1F) | (0x80 if i == 0 else 0) | (0x40 if i == len(frags) - 1 else 0)
            if f[1] != want:
                return f"fragment {i} of {len(frags)}: FU header {f[1]:#x}, expected {want:#x} (S only first, E only last, original type)"
        if b"".join(f[2:] for f in frags) != data[1:]:
            return "fragments do not concatenate to the unit's payload"
        return None

    def label(self, case, impl_out):
        if not impl_out.startswith("ok "):
            return impl_out[:30]
        l = case["nal"][1]
        n = len(unhxlist(impl_out[3:]))
        rem = "even" if n and (l - 1) % n == 0 else "uneven"
        return f"frags-{'1' if n == 1 else '2' if n == 2 else '3+'}-{rem}"

    def shrink(self, case):
        h, l, s = case["nal"]
        out = []
        for l2 in sorted({1301, 1302, 2597, 2598, 2599, l // 2, l - 1298, l - 1}):
            if 0 <= l2 < l:
                out.append({"nal": [h, l2, s]})
        if s:
            out.append({"nal": [h, l, 0]})
        return out


class H264StapA(Component):
    name = "h264_stap_a"
    theorems = ["stap_a_packet", "stap_a_whole"]

    def cases(self, rng, tier):
        n = 200 if tier == "quick" else 5000
        out = []
        for _ in range(n):
            k = rng.choice([0, 0, 1, 2, 3, 8, 9, 10, 12])
            valid = rng.randrange(5) != 0

            def ln():
                m = rng.randrange(6)
                if m == 0:
                    return rng.choice([1295, 1296, 1297, 1298, 1299, 1300])
                if m == 1 and not valid:
                    return rng.choice([0, 1])
                if m == 2:
                    return rng.choice([640, 645, 646, 647, 648, 649, 650])
                return rng.randrange(2, 200)
            first = [rand_hdr(rng, valid), ln() if (valid or rng.randrange(3)) else 0, rng.randrange(99)]
            out.append({"data": first, "it": [[rand_hdr(rng, valid), ln(), rng.randrange(99)] for _ in range(k)]})
        return out

    def model_line(self, case):
        return "codec h264_stapa " + hx(nal_bytes(case["data"])) + " " + hxlist([nal_bytes(s) for s in case["it"]])

    def impl(self, case):
        h264 = _h264()
        data = nal_bytes(case["data"])
        rest = [nal_bytes(s) for s in case["it"]]

        def run():
            it = iter(rest)
            pkt, nxt = h264.H264Encoder._packetize_stap_a(data, it)
            left = len(list(it))
            return hx(pkt) + " " + ("N" if nxt is None else hx(nxt)) + " " + str(left)
        return guarded(run)

    def oracle(self, case, impl_out):
        data = nal_bytes(case["data"])
        rest = [nal_bytes(s) for s in case["it"]]
        if not all(valid_nal(n) for n in [data] + rest) or len(data) > 1300:
            return None
        if not impl_out.startswith("ok "):
            return f"_packetize_stap_a raised: {impl_out}"
        pkt_s, nxt_s, left_s = impl_out[3:].split(" ")
        pkt = unhx(pkt_s)
        left = int(left_s)
        consumed = len(rest) - left - (0 if nxt_s == "N" else 1)
        if consumed < 0:
            return "iterator accounting is inconsistent"
        units = [data] + rest[:consumed]
        if nxt_s != "N" and unhx(nxt_s) != rest[consumed]:
            return "look-ahead unit returned is not the next unit of the iterator (a unit was lost or reordered)"
        if nxt_s == "N" and left != 0:
            return "no look-ahead unit returned although the iterator is not exhausted"
        return check_h264_payloads(units, [pkt])

    def label(self, case, impl_out):
        if not impl_out.startswith("ok "):
            return impl_out[:30]
        pkt_s, nxt_s, _ = impl_out[3:].split(" ")
        pkt = unhx(pkt_s)
        kind = "stap" if pkt and (pkt[0] & 0x1F) == 24 and pkt != nal_bytes(case["data"]) else "single"
        return kind + ("-last" if nxt_s == "N" else "-more")

    def shrink(self, case):
        out = []
        for s in shrink_specs(case["it"]):
            out.append({"data": case["data"], "it": s})
        for s in shrink_specs([case["data"]]):
            if len(s) == 1:
                out.append({"data": s[0], "it": case["it"]})
        return out


class H264Parse(Component):
    """H264PayloadDescriptor.parse / depayload dispatch on well-formed and malformed payloads."""
    name = "h264_parse"
    theorems = ["stap_a_whole", "single_nal_depayload", "fu_a_reassemble", "h264_lossless"]

    def corpus(self):
        return [{"p": s} for s in ("-", "65", "6500", "7c", "7c85", "7c45aa", "7c05bb", "7c8500", "18", "1800", "180000", "18000165",
                                   "1800026588", "18000265", "180002658800", "18000265880001", "1800026588000141", "19", "1900", "1e00", "0000",
                                   "1f00", "3c8541", "f8000165")]

    def cases(self, rng, tier):
        h264 = _h264()
        n = 120 if tier == "quick" else 3000
        out = []
        for t in range(32):
            for l in (1, 2, 3, 6):
                out.append({"p": hx(bytes([(rng.randrange(8) << 5) | t]) + fill(l - 1, rng.randrange(99), [0, 1, 2, 0x80, 0xff]))})
        for _ in range(n):
            k = rng.choice([1, 2, 3, 9])
            nals = [nal_bytes([rand_hdr(rng), rng.choice([2, 3, 5, 30, 1301, 1400]), rng.randrange(99)]) for _ in range(k)]
            try:
                pls = h264.H264Encoder._packetize(iter(nals))
            except Exception:  # noqa: BLE001  (mutated code may raise; the packetize component reports it)
                pls = [b"\x18\x00\x02\x65\x88\x00\x01\x41"]
            p = bytearray(rng.choice(pls))
            m = rng.randrange(8)
            if m == 0:
                p = p[: rng.randrange(0, min(len(p), 8) + 1)]
            elif m == 1 and len(p) > 3:
                i = rng.randrange(1, min(len(p), 12))
                p[i] = rng.choice([0, 1, 0xff, (p[i] + 1) & 0xff, (p[i] - 1) & 0xff])
            elif m == 2:
                p = p[: rng.randrange(len(p) + 1)]
            elif m == 3:
                p += fill(rng.randrange(1, 5), rng.randrange(99), [0, 1, 2, 3])
            elif m == 4:
                p[0] = (p[0] & 0xE0) | rng.randrange(32)
            elif m == 5 and len(p) > 1:
                p[1] ^= rng.choice([0x80, 0x40, 0x20, 0xC0])
            out.append({"p": hx(bytes(p))})
        return out

    def model_line(self, case):
        return "codec h264_parse " + case["p"]

    def impl(self, case):
        h264 = _h264()
        data = unhx(case["p"])

        def run():
            d, out = h264.H264PayloadDescriptor.parse(data)
            return ("1" if d.first_fragment else "0") + " " + hx(out)
        return guarded(run)

    def oracle(self, case, impl_out):
        # dispatch: codecs.depayload() for an H264 codec returns the same bytes / raises the same way
        from aiortc import codecs
        from aiortc.rtcrtpparameters import RTCRtpCodecParameters
        data = unhx(case["p"])
        for mime, fn in (("video/H264", _h264().h264_depayload), ("video/VP8", _vpx().vp8_depayload), ("video/rtx", lambda b: b)):
            codec = RTCRtpCodecParameters(mimeType=mime, clockRate=90000, payloadType=100)
            a = guarded(lambda: hx(codecs.depayload(codec, data)))
            b = guarded(lambda: hx(fn(data)))
            if a != b:
                return f"codecs.depayload({mime}) = {a[:60]} but the codec's depayload gives {b[:60]}"
        if impl_out.startswith("ok "):
            if guarded(lambda: hx(_h264().h264_depayload(data)))[3:] != impl_out[3:].split(" ")[1]:
                return "h264_depayload differs from H264PayloadDescriptor.parse output"
        elif impl_out != "ValueError":
            return f"parse raised something other than ValueError: {impl_out}"
        return None

    def label(self, case, impl_out):
        data = unhx(case["p"])
        t = data[0] & 0x1F if data else -1
        kind = "fua" if t == 28 else "stap" if t == 24 else "single" if 1 <= t <= 23 else "other"
        return kind + ":" + impl_out.split(" ")[0]

    def shrink(self, case):
        d = unhx(case["p"])
        return [{"p": hx(d[:i] + d[i + 1:])} for i in range(min(len(d), 40))] + ([{"p": hx(d[: len(d) // 2])}] if len(d) > 1 else [])


def split_buf(case) -> bytes:
    if "raw" in case:
        return unhx(case["raw"])
    buf = fill(case.get("lead", 0), 1, [0])
    for (spec, sc) in zip(case["nals"], case["sc"]):
        body = clean_nal(nal_bytes(spec)) if case.get("clean", True) else nal_bytes(spec)
        buf += (b"\x00\x00\x01" if sc == 3 else b"\x00\x00\x00\x01") + body
    return buf


class H264Split(Component):
    name = "h264_split"
    theorems = ["split_bitstream", "h264_pack_lossless"]

    def corpus(self):
        return [{"raw": s} for s in ("-", "00000000", "000001ff000001fb", "00000001ff00000001fb", "00000001ff000001fb00000001fa", "00000001ff",
                                     "000001", "000001000001", "0000010000000165", "00000100000001", "0000016588000000000141")]

    def cases(self, rng, tier):
        n = 200 if tier == "quick" else 5000
        out = []
        for _ in range(n):
            m = rng.randrange(5)
            if m == 0:
                out.append({"raw": hx(fill(rng.randrange(0, 24), rng.randrange(1 << 16), [0, 0, 0, 1, 1, 2]))})
                continue
            k = rng.choice([1, 2, 3, 5, 12])
            specs = []
            for _i in range(k):
                l = rng.choice([2, 3, 4, 8, 30, rng.randrange(2, 1400), rng.randrange(1290, 1310)]) if m != 4 else rand_len(rng, 20000)
                hdr = rand_hdr(rng)
                specs.append([hdr, l, rng.randrange(1 << 16)])
            out.append({"nals": specs, "sc": [rng.choice([3, 4]) for _ in range(k)], "lead": rng.choice([0, 0, 1, 2]),
                        "clean": m != 1})
        return out

    def model_line(self, case):
        return "codec h264_split " + hx(split_buf(case))

    def impl(self, case):
        h264 = _h264()
        buf = split_buf(case)
        return guarded(lambda: hxlist(list(h264.H264Encoder._split_bitstream(buf))))

    def oracle(self, case, impl_out):
        if "raw" in case or not case.get("clean", True):
            if impl_out.startswith("ok ") or impl_out == "hang":
                return None if impl_out != "hang" else "_split_bitstream does not terminate"
            return f"_split_bitstream raised: {impl_out}"
        h264 = _h264()
        nals = [clean_nal(nal_bytes(s)) for s in case["nals"]]
        if not impl_out.startswith("ok "):
            return f"_split_bitstream raised: {impl_out}"
        got = unhxlist(impl_out[3:])
        if got != nals:
            return f"_split_bitstream returned {len(got)} units that are not the {len(nals)} framed NAL units"
        # end to end: split -> packetize -> depayload
        if all(valid_nal(x) for x in nals):
            r = guarded(lambda: hxlist(h264.H264Encoder._packetize(h264.H264Encoder._split_bitstream(split_buf(case)))))
            if not r.startswith("ok "):
                return f"_packetize(_split_bitstream(buf)) raised: {r}"
            return check_h264_payloads(nals, unhxlist(r[3:]))
        return None

    def label(self, case, impl_out):
        if "raw" in case:
            return "raw:" + impl_out.split(" ")[0]
        scs = set(case["sc"])
        return ("clean" if case.get("clean", True) else "dirty") + ":sc" + "".join(str(x) for x in sorted(scs)) + (":lead" if case.get("lead") else "")

    def shrink(self, case):
        if "raw" in case:
            d = unhx(case["raw"])
            return [{"raw": hx(d[:i] + d[i + 1:])} for i in range(len(d))]
        out = []
        for i in range(len(case["nals"])):
            if len(case["nals"]) > 1:
                out.append(dict(case, nals=case["nals"][:i] + case["nals"][i + 1:], sc=case["sc"][:i] + case["sc"][i + 1:]))
        for s in shrink_specs(case["nals"]):
            if len(s) == len(case["nals"]):
                out.append(dict(case, nals=s))
        if case.get("lead"):
            out.append(dict(case, lead=0))
        return out


# ------------------------------------------------------------------------------------------
# VP8 components
# ------------------------------------------------------------------------------------------

def descr_fields(case):
    return (case["s"], case["pid"], case["pic"], case["tl0"], case["tid"], case["k"])


def show_opt(v):
    return "N" if v is None else str(v)


def show_descr(d):
    tid = "N N" if d.tid is None else f"{d.tid[0]} {d.tid[1]}"
    return f"{d.partition_start} {d.partition_id} {show_opt(d.picture_id)} {show_opt(d.tl0picidx)} {tid} {show_opt(d.keyidx)}"


def in_range(case):
    s, pid, pic, tl0, tid, k = descr_fields(case)
    return (s in (0, 1) and 0 <= pid < 16 and (pic is None or 0 <= pic < 32768) and (tl0 is None or 0 <= tl0 < 256)
            and (tid is None or (0 <= tid[0] < 4 and 0 <= tid[1] < 2)) and (k is None or 0 <= k < 32))


class VpxDescr(Component):
    name = "vpx_descriptor"
    theorems = ["vpx_descriptor_roundtrip", "vpx_picture_id_roundtrip"]

    def corpus(self):
        return [{"s": 1, "pid": 0, "pic": p, "tl0": None, "tid": None, "k": None, "rest": "aa"} for p in (0, 127, 128, 32767)]

    def cases(self, rng, tier):
        n = 300 if tier == "quick" else 8000
        out = []
        PIC = [0, 1, 126, 127, 128, 129, 255, 256, 16383, 16384, 32766, 32767]

        def mk(flags, bad=False):
            s = rng.randrange(2)
            pid = rng.choice([0, 1, 7, 15, rng.randrange(16)])
            pic = rng.choice(PIC + [rng.randrange(32768)]) if flags & 8 else None
            tl0 = rng.choice([0, 1, 255, rng.randrange(256)]) if flags & 4 else None
            tid = [rng.randrange(4), rng.randrange(2)] if flags & 2 else None
            k = rng.choice([0, 31, rng.randrange(32)]) if flags & 1 else None
            if bad:
                w = rng.randrange(7)
                if w == 0:
                    s = rng.choice([2, 3, 7, 8, 15, 16])
                elif w == 1:
                    pid = rng.choice([16, 17, 127, 128, 255, 256])
                elif w == 2:
                    pic = rng.choice([32768, 32769, 65535, 65536, 1 << 20])
                elif w == 3:
                    tl0 = rng.choice([256, 257, 65536])
                elif w == 4:
                    tid = rng.choice([[4, 0], [0, 2], [3, 7], [8, 1]])
                elif w == 5:
                    k = rng.choice([32, 33, 63, 64, 255, 256])
            return {"s": s, "pid": pid, "pic": pic, "tl0": tl0, "tid": tid, "k": k,
                    "rest": hx(fill(rng.choice([0, 0, 1, 3]), rng.randrange(99)))}
        for flags in range(16):
            for _ in range(4):
                out.append(mk(flags))
        for p in PIC:
            out.append({"s": 1, "pid": 0, "pic": p, "tl0": None, "tid": None, "k": None, "rest": "-"})
        for _ in range(n):
            out.append(mk(rng.randrange(16), bad=rng.randrange(6) == 0))
        return out

    def model_line(self, case):
        s, pid, pic, tl0, tid, k = descr_fields(case)
        t = "N N" if tid is None else f"{tid[0]} {tid[1]}"
        return f"codec vpx_bytes {s} {pid} {show_opt(pic)} {show_opt(tl0)} {t} {show_opt(k)}"

    def _descr(self, case):
        s, pid, pic, tl0, tid, k = descr_fields(case)
        return _vpx().VpxPayloadDescriptor(partition_start=s, partition_id=pid, picture_id=pic, tl0picidx=tl0,
                                           tid=None if tid is None else tuple(tid), keyidx=k)

    def impl(self, case):
        return guarded(lambda: hx(bytes(self._descr(case))))

    def oracle(self, case, impl_out):
        if not in_range(case):
            return None
        if not impl_out.startswith("ok "):
            return f"bytes(descriptor) raised for in-range fields: {impl_out}"
        vpx = _vpx()
        rest = unhx(case["rest"])
        wire = unhx(impl_out[3:])
        r = guarded(lambda: (lambda d, left: show_descr(d) + " " + hx(left))(*vpx.VpxPayloadDescriptor.parse(wire + rest)))
        want = "ok " + show_descr(self._descr(case)) + " " + hx(rest)
        if r != want:
            return f"parse(bytes(d) + rest) = {r[:80]}, expected {want[:80]}"
        return None

    def label(self, case, impl_out):
        s, pid, pic, tl0, tid, k = descr_fields(case)
        flags = "".join(c if v is not None else "-" for c, v in zip("ILTK", (pic, tl0, tid, k)))
        size = "" if pic is None else (":short" if pic < 128 else ":long")
        return flags + size + (":" + impl_out.split(" ")[0] if not impl_out.startswith("ok") or not in_range(case) else "")

    def shrink(self, case):
        out = []
        for f in ("pic", "tl0", "tid", "k"):
            if case[f] is not None:
                out.append(dict(case, **{f: None}))
        if case["pic"]:
            out.append(dict(case, pic=case["pic"] // 2))
            out.append(dict(case, pic=128))
            out.append(dict(case, pic=127))
        if case["rest"] != "-":
            out.append(dict(case, rest="-"))
        return [c for c in out if c != case]


class VpxParse(Component):
    name = "vpx_parse"
    theorems = ["vpx_descriptor_roundtrip"]

    def corpus(self):
        return [{"p": s} for s in ("-", "10", "908011", "90807f", "90808080", "90809267", "90c0926781", "9020e0", "90101f", "80", "8080", "808080", "8040",
                                   "8020", "8010", "90f0ffff00ff01", "00aa")]

    def cases(self, rng, tier):
        n = 300 if tier == "quick" else 8000
        out = []
        for _ in range(n):
            b0 = rng.choice([0x80, 0x90, 0x10, 0x00, 0x9f, rng.randrange(256)])
            b1 = (rng.randrange(16) << 4) | rng.choice([0, 0, rng.randrange(16)])
            body = bytes([b0, b1]) + fill(6, rng.randrange(1 << 16), [0, 1, 0x7f, 0x80, 0x81, 0xff, 0xe0, 0x1f, 0x55])
            out.append({"p": hx(body[: rng.randrange(0, 9)])})
        return out

    def model_line(self, case):
        return "codec vpx_parse " + case["p"]

    def impl(self, case):
        vpx = _vpx()
        data = unhx(case["p"])

        def run():
            d, rest = vpx.VpxPayloadDescriptor.parse(data)
            return show_descr(d) + " " + hx(rest)
        return guarded(run)

    def oracle(self, case, impl_out):
        vpx = _vpx()
        data = unhx(case["p"])
        if impl_out.startswith("ok "):
            # vp8_depayload agrees with parse, and re-encoding the parsed descriptor parses to the same descriptor
            rest = impl_out.rsplit(" ", 1)[1]
            dp = guarded(lambda: hx(vpx.vp8_depayload(data)))
            if dp != "ok " + rest:
                return f"vp8_depayload gives {dp[:60]} but parse leaves {rest[:60]}"
            d, left = vpx.VpxPayloadDescriptor.parse(data)
            again = guarded(lambda: (lambda d2, l2: show_descr(d2) + " " + hx(l2))(*vpx.VpxPayloadDescriptor.parse(bytes(d) + left)))
            if again != impl_out:
                return f"parse(bytes(parse(p))) = {again[:80]} differs from parse(p) = {impl_out[:80]}"
            return None
        if impl_out != "ValueError":
            return f"parse raised something other than ValueError: {impl_out}"
        return None

    def label(self, case, impl_out):
        data = unhx(case["p"])
        if not data:
            return "empty"
        ext = data[0] >> 7
        flags = ""
        if ext and len(data) > 1:
            flags = "".join(c if data[1] & m else "-" for c, m in zip("ILTK", (0x80, 0x40, 0x20, 0x10)))
        return ("ext:" + flags if ext else "plain") + ":" + impl_out.split(" ")[0]

    def shrink(self, case):
        d = unhx(case["p"])
        return [{"p": hx(d[:-1])}] if d else []


VP8_LEN_EDGES = [0, 1, 2, 1295, 1296, 1297, 1298, 1299, 1300, 1301, 2592, 2593, 2594, 2595, 2596, 2597, 3888, 3889, 3890, 3891, 3892, 60000]


class Vp8Packetize(Component):
    name = "vp8_packetize"
    theorems = ["vp8_packetize_ok", "vp8_size", "vp8_lossless", "vp8_partition_start", "vp8_count"]

    def corpus(self):
        return [{"len": l, "seed": 1, "pic": p} for l in (0, 1, 1296, 1297, 1298, 2594) for p in (0, 127, 128, 32767)]

    def cases(self, rng, tier):
        n = 250 if tier == "quick" else 4000
        out = []
        for l in VP8_LEN_EDGES:
            for p in (5, 300):
                out.append({"len": l, "seed": rng.randrange(99), "pic": p})
        for _ in range(n):
            m = rng.randrange(10)
            if m < 2:
                l = rng.choice(VP8_LEN_EDGES)
            elif m < 4:
                l = rng.choice([1296, 1297]) * rng.choice([1, 2, 2, 3, 4, rng.randrange(1, 46)]) + rng.randrange(-2, 3)
            elif m < 8:
                l = rng.randrange(0, 4000)
            else:
                l = rng.randrange(0, 60001)
            pm = rng.randrange(6)
            p = rng.choice([0, 1, 126, 127, 128, 129, 32766, 32767]) if pm < 2 else rng.randrange(32768)
            if pm == 5 and rng.randrange(4) == 0:
                p = rng.choice([32768, 65535, 65536, 1 << 17])
            out.append({"len": max(l, 0), "seed": rng.randrange(1 << 16), "pic": p})
        return out

    def model_line(self, case):
        return f"codec vp8_packetize {case['pic']} " + hx(fill(case["len"], case["seed"]))

    def impl(self, case):
        vpx = _vpx()
        buf = fill(case["len"], case["seed"])
        return guarded(lambda: hxlist(vpx.Vp8Encoder._packetize(buf, case["pic"])))

    def oracle(self, case, impl_out):
        pic = case["pic"]
        if not (0 <= pic < 32768):
            return None
        vpx = _vpx()
        buf = fill(case["len"], case["seed"])
        if not impl_out.startswith("ok "):
            return f"Vp8Encoder._packetize raised: {impl_out}"
        pls = unhxlist(impl_out[3:])
        if buf and not pls:
            return "no payloads for a non-empty frame"
        out = b""
        for i, p in enumerate(pls):
            if len(p) > 1300:
                return f"payload {i} has {len(p)} bytes > 1300"
            try:
                d, rest = vpx.VpxPayloadDescriptor.parse(p)
                dp = vpx.vp8_depayload(p)
            except Exception as exc:  # noqa: BLE001
                return f"payload {i} does not parse: {type(exc).__name__}: {exc}"
            if dp != rest:
                return f"payload {i}: vp8_depayload differs from parse"
            if not rest:
                return f"payload {i} carries no frame data"
            if d.partition_start != (1 if i == 0 else 0):
                return f"payload {i} has partition_start={d.partition_start}"
            if d.partition_id != 0:
                return f"payload {i} has partition_id={d.partition_id}"
            if d.picture_id != pic:
                return f"payload {i} carries picture id {d.picture_id}, frame has {pic}"
            if d.tl0picidx is not None or d.tid is not None or d.keyidx is not None:
                return f"payload {i} carries unexpected descriptor extensions"
            out += rest
        if out != buf:
            return f"depayloaded bytes differ from the frame ({len(out)} vs {len(buf)} bytes)"
        return None

    def label(self, case, impl_out):
        if not impl_out.startswith("ok "):
            return impl_out[:30]
        n = len(unhxlist(impl_out[3:]))
        return ("short" if case["pic"] < 128 else "long" if case["pic"] < 32768 else "out-of-range") + f":payloads-{min(n, 3)}{'+' if n >= 3 else ''}"

    def nontrivial(self, case, impl_out):
        return True

    def shrink(self, case):
        out = []
        l = case["len"]
        for l2 in sorted({0, 1, 1296, 1297, 1298, 2593, 2594, 2595, l // 2, l - 1297, l - 1}):
            if 0 <= l2 < l:
                out.append(dict(case, len=l2))
        for p in (0, 127, 128):
            if p < case["pic"]:
                out.append(dict(case, pic=p))
        if case["seed"]:
            out.append(dict(case, seed=0))
        return out


def components(tier):
    return [H264Packetize(), H264FuA(), H264StapA(), H264Parse(), H264Split(), VpxDescr(), VpxParse(), Vp8Packetize()]


def classify_finding(finding, comp_name, case, what):
    return False
