"""C17 — serial-number arithmetic: regenerated functions (Gen.Serial) vs utils.py, plus the laws
evaluated directly on the implementation (oracle); origin independence of every stateful component that carries
16/32-bit counters (SCTP association here, RTP receive stages here, real RTP sender / receiver / TimestampMapper /
bitrate estimator in harness/c17rtp.py)."""
from __future__ import annotations

from harness.check import Component

LEAN_TARGETS = ["Aiortc.Props.C17", "Aiortc.Props.C17Shift"]
AUDIT_PROPS = ["C17", "C17Shift"]
DRIVERS = ["Serial", "Video"]
MANIFEST = {
    "technique": "Lean 4 theorems (omega) over Gen.Serial regenerated from utils.py by AST translation + differential run of the generated defs",
    "text": "The serial-number laws (irreflexive, antisymmetric off the half point, consistent with modular addition, translation invariant, "
            "windowed transitivity; TSN successor/predecessor inverse) are Lean theorems for ALL integers in range, about Lean defs that "
            "are re-translated from src/aiortc/utils.py and rtcsctptransport.py on every run, so a changed comparison re-checks every theorem. "
            "The translated defs are also executed against the Python functions on boundary-biased pairs.",
    "note": "Origin components on the real objects: sctp-origin (association), rtp-origin (JitterBuffer / NackGenerator / StreamStatistics alone), "
            "sender-origin (a real RTCRtpSender: scripted history of frames and NACKs for `the packet j positions back`, j over 0..400 incl. 127/128/129/255/256, "
            "RTX on/off, NACK optionally through the RTCP codec, run from sequence / RTX-sequence / timestamp origins 0, 100, 65535-k, 65536-128+-1, 32767/32768, "
            "`the wrap lands on packet i`; decisions and origin-free packets must agree with the run from a small origin; the absolute runs also go through the "
            "Lean sender model via C11's `video sender` request), receiver-origin (a real video RTCRtpReceiver: RTX unwrap -> NackGenerator -> JitterBuffer -> "
            "TimestampMapper, NACK lists / PLI / decoder items / getStats; `video recv`), tsmap-origin (`video tsmap`), rate-origin (RemoteBitrateEstimator and "
            "its InterArrival filter under a shift of the 24-bit abs-send-time origin, oracle only). "
            "Part 2 of C17 (origin-independence of the stateful components): Props/C17Shift.lean proves shift-equivariance "
            "`step (σ s) (σ input) = (σ s', σ output)` (σ32 k x = (x+k) % 2^32, σ16 j x = (x+j) % 2^16, any integers k, j; application-level "
            "outputs literally unchanged) for the SCTP receive path (serialKey/sortByKey/consolidate/_mark_received, add_chunk, pop_messages with "
            "TSN and SSN shifted independently, prune_chunks, _receive_data_chunk) and, by induction, the whole-run theorem `origin_independent` "
            "for the pure receiver `Recv.run`; for the SCTP send path (fragmentation/_send, _maybe_abandon, _update_advanced_peer_ack_point, "
            "_transmit, _t3_expired, and all of _receive_sack_chunk: ack loop, gap blocks, HTNA loop, strike loop, cwnd, T3) and, by induction with the "
            "range invariant TxOk, whole sender runs `sender_origin_independent` (any interleaving of _send / SACK arrival / _transmit / T3 expiry: "
            "same DATA chunks, FORWARD-TSNs and timer events); for NackGenerator.add (and whole "
            "arrival sequences), for the RTP sender (history slot seq % 128, the _run_rtp packet loop, _retransmit and, by induction with the invariant SOk, "
            "whole histories of frames and NACKs `rtp_sender_origin_independent`: same events — same packets (re)sent, same NACKs ignored —, RTX counter moved by r), "
            "for TimestampMapper (`tsmap_origin_independent`: any 32-bit sequence, the two runs may take the wrap branch at different calls) and for the whole JitterBuffer "
            "(packet array rotated by k mod capacity, timestamps shifted by m: remove / smart_remove / _remove_frame / add and, by induction, whole "
            "arrival lists `jitter_origin_independent`: same PLI flags, same frames). Still carried by the "
            "origin-independence ORACLES only (components sctp-origin, rtp-origin, receiver-origin, rate-origin): a whole-run theorem for the two-endpoint association "
            "(Endpoint.lean: the sender and receiver runs are proved separately, not composed through SACK generation `_send_sack`, FORWARD-TSN "
            "reception and the reconfig request/response sequence numbers), "
            "StreamStatistics (C18-2 covers it with extended numbers), the composition of the receiver stages, the bitrate estimator; `sorted(missing)` of the NACK list is numeric and therefore "
            "NOT equivariant (same set, different order across the wrap: retransmission order only).",
    "design_ref": "DESIGN.md §2 C17",
}
ASSUMPTIONS = [
    "serial laws are stated for operands in the wire range [0, 2^16) resp. [0, 2^32); antisymmetry excludes pairs exactly half the space apart (as the property does)",
    "shift-equivariance theorems (Props/C17Shift.lean) require every sequence-number-typed field of the state and of the input to be in the wire range "
    "(RxOk / InOk / CR / RecvOk / TxOk / QOk / NackOk / HistOk: TSNs in [0, 2^32), SSNs and RTP sequence numbers in [0, 2^16)); the range invariants "
    "are proved to be preserved by the receive path (markReceived_keeps_range, recvStep_keeps_range) and by NackGenerator.add",
    "SSN shift j: a stream (receive side) or an outbound stream counter (send side) that does not exist yet is created with SSN 0 in both runs, so "
    "recvStep_shift / origin_independent / enqueue_shift require `StreamKnown` / `SeqKnown` (the stream exists in the shifted state, or j ≡ 0 mod 2^16, "
    "or — send side — the message is unordered); origin_independent_init is the j = 0 instance from the handshake state for ANY initial TSN",
    "send side: the SSN shift acts on ordered chunks only (an unordered chunk carries SSN 0 whatever the counter is); the receive-side theorems shift "
    "the SSN of every chunk (they hold for arbitrary, also malformed, flag combinations)",
    "origin_independent is about the pure receiver Recv.run (the data path _receive_data_chunk, tied to the real code by C01's `recv` correspondence), "
    "sender_origin_independent about the sender driven by a command list (txRun: _send, SACK arrival, _transmit, _t3_expired in any order; SACKs are "
    "inputs); the two-endpoint association (SACK generation, FORWARD-TSN reception, reconfiguration, the event loop) is covered end-to-end by the "
    "sctp-origin oracle only",
    "JitterBuffer theorems require the shape invariant JBOk (capacity > 0 and a divisor of 2^16 — aiortc uses 128 and 16 —, one slot per index, "
    "stored and arriving timestamps in [0, 2^32)); it holds for a freshly constructed buffer (mk_ok) and is preserved by add (jitter_add_keeps_shape); "
    "no range hypothesis on the sequence numbers is needed (only distances are computed)",
    "rtp_sender_origin_independent: NACKed numbers are 16-bit (OpOk: they come out of an RTCP packet), the sender's next sequence number is 16-bit and the "
    "history holds 16-bit numbers under slot keys (SOk: holds for a sender that has sent nothing, preserved by every operation); the statement is on events "
    "(`SEv.sent p` / `SEv.resent rtxSeq p`), `rtp_sender_wire_is_rendering` turns them into wire packets; without RTX the wire packets themselves are shifted "
    "(`rtp_sender_origin_independent_plain`)",
    "tsmap_origin_independent: timestamps are 32-bit; nothing else (the sequence need not be monotone)",
    "_retransmit with RTX: the output packet embeds the original sequence number in its payload, so the statement is `the source packet found by the "
    "history is the shifted source packet, wrapped with the shifted RTX sequence number` (retransmit_shift / retransmit_sends_lookup)",
]
TRUSTED_EXTRA = [
    "sender-origin / receiver-origin drive the real RTCRtpSender / RTCRtpReceiver through C11's rigs: RTCDtlsTransport is a stub that records what is sent and "
    "hands RTCP / RTP objects to _handle_rtcp_packet / _handle_rtp_packet, the track and the encoder are scripted (pack() returns the script's payloads), "
    "decoder_worker is replaced and the decoder queue is read; the random origins are set by replacing random_sequence_number / random32 of aiortc.rtcrtpsender "
    "(a base run from origins 100 / 7 / 1000 that does not start where the rig put it makes the component report a broken correspondence, not a violation)",
    "rate-origin compares the values returned by RemoteBitrateEstimator.add and by its inter_arrival.compute_deltas for the two origins; no model is involved",
]
RULE_ORIGIN = ("origin components: one origin-free script (frames, `NACK the packet j back`, arrival pattern over stream indices with loss / duplication / "
               "reordering / RTX copies / bursts over the history, timestamp offsets, abs-send-time schedule) x origins of every counter (0, 100, 65535-k, "
               "65536-128+-1, 65536-256, 32767/32768, `the wrap lands on element i +-1`, random); distinct = distinct (script, origins)")
RULE = ("pairs (a,b) / triples drawn boundary-biased (within 4 of 0, half, full, and of each other) and uniformly from both number spaces; "
        "every Gen.Serial function is evaluated by the compiled Lean driver and by the Python function; distinct = distinct (function,args); " + RULE_ORIGIN)

B16 = [0, 1, 2, 3, 32765, 32766, 32767, 32768, 32769, 32770, 65532, 65533, 65534, 65535]
B32 = [0, 1, 2, 3, 2**31 - 2, 2**31 - 1, 2**31, 2**31 + 1, 2**31 + 2, 2**32 - 3, 2**32 - 2, 2**32 - 1]


def _mods():
    from aiortc import utils, rtcsctptransport, rtp
    return utils, rtcsctptransport, rtp


def _call(fname, args):
    utils, sctp, rtp = _mods()
    table = {
        "uint16_add": utils.uint16_add, "uint16_gt": utils.uint16_gt, "uint16_gte": utils.uint16_gte,
        "uint32_add": utils.uint32_add, "uint32_gt": utils.uint32_gt, "uint32_gte": utils.uint32_gte,
        "sctp_padl": sctp.padl, "rtp_padl": rtp.padl, "tsn_plus_one": sctp.tsn_plus_one,
        "tsn_minus_one": sctp.tsn_minus_one, "clamp_packets_lost": rtp.clamp_packets_lost,
    }
    return table[fname](*args)


class Serial(Component):
    name = "serial"
    theorems = ["uint16_gt_iff", "uint16_gt_antisymm", "uint16_add_gt", "uint16_gt_shift",
                "uint32_gt_iff", "uint32_gt_antisymm", "uint32_add_gt", "uint32_gt_shift",
                "tsn_minus_plus", "tsn_plus_minus"]

    def cases(self, rng, tier):
        n = 3000 if tier == "quick" else 200000
        out = []
        for bits, B in ((16, B16), (32, B32)):
            M = 1 << bits
            # all boundary pairs
            for a in B:
                for b in B:
                    out.append({"bits": bits, "a": a, "b": b, "c": rng.randrange(M)})
            for _ in range(n):
                a = rng.randrange(M)
                mode = rng.randrange(4)
                if mode == 0:
                    b = rng.randrange(M)
                elif mode == 1:
                    b = (a + rng.randrange(-4, 5)) % M
                elif mode == 2:
                    b = (a + M // 2 + rng.randrange(-4, 5)) % M
                else:
                    b = rng.choice(B)
                c = rng.choice([rng.randrange(M), rng.randrange(1, 5), M - rng.randrange(1, 5), M // 2])
                out.append({"bits": bits, "a": a, "b": b, "c": c})
        # unary functions
        for v in list(range(0, 40)) + [1199, 1200, 1201, 65535, 2**32 - 1, 2**32 - 2]:
            out.append({"unary": v})
        for v in [-(2**23) - 1, -(2**23), -(2**23) + 1, -1, 0, 1, 2**23 - 2, 2**23 - 1, 2**23, 2**31, -(2**31)]:
            out.append({"clamp": v})
        for _ in range(200):
            out.append({"clamp": rng.randrange(-(2**25), 2**25)})
            out.append({"unary": rng.randrange(0, 2**32)})
        return out

    def _requests(self, case):
        if "unary" in case:
            v = case["unary"]
            return [("sctp_padl", [v]), ("rtp_padl", [v]), ("tsn_plus_one", [v]), ("tsn_minus_one", [v])]
        if "clamp" in case:
            return [("clamp_packets_lost", [case["clamp"]])]
        p = f"uint{case['bits']}_"
        a, b, c = case["a"], case["b"], case["c"]
        return [(p + "add", [a, c]), (p + "add", [b, c]), (p + "gt", [a, b]), (p + "gt", [b, a]),
                (p + "gte", [a, b]), (p + "gte", [b, a])]

    # the driver answers one line per request: we fold a case's requests into one line with ';'
    def model_line(self, case):
        return "serial multi " + ";".join(f + ":" + ":".join(str(x) for x in args) for f, args in self._requests(case))

    def impl(self, case):
        outs = []
        for f, args in self._requests(case):
            v = _call(f, args)
            outs.append(("1" if v else "0") if isinstance(v, bool) else str(v))
        return ";".join(outs)

    def oracle(self, case, impl_out):
        if "unary" in case:
            v = case["unary"]
            utils, sctp, rtp = _mods()
            for nm, f in (("sctp.padl", sctp.padl), ("rtp.padl", rtp.padl)):
                p = f(v)
                if not (0 <= p < 4 and (v + p) % 4 == 0):
                    return f"{nm}({v}) = {p} is not the padding to a multiple of 4"
            if v < 2**32:
                if sctp.tsn_minus_one(sctp.tsn_plus_one(v)) != v or sctp.tsn_plus_one(sctp.tsn_minus_one(v)) != v:
                    return f"tsn_plus_one/tsn_minus_one are not inverse at {v}"
                if not utils.uint32_gt(sctp.tsn_plus_one(v), v):
                    return f"tsn_plus_one({v}) is not serially greater than {v}"
            return None
        if "clamp" in case:
            utils, sctp, rtp = _mods()
            v = case["clamp"]
            r = rtp.clamp_packets_lost(v)
            want = max(-(2**23), min(v, 2**23 - 1))
            if r != want:
                return f"clamp_packets_lost({v}) = {r}, expected saturation at the 24-bit signed range ({want})"
            return None
        utils, _, _ = _mods()
        bits = case["bits"]
        M = 1 << bits
        H = M // 2
        add = getattr(utils, f"uint{bits}_add")
        gt = getattr(utils, f"uint{bits}_gt")
        gte = getattr(utils, f"uint{bits}_gte")
        a, b, c = case["a"], case["b"], case["c"]
        d = (a - b) % M
        if gt(a, a):
            return f"uint{bits}_gt({a},{a}) is true (not irreflexive)"
        if a != b and d != H and gt(a, b) == gt(b, a):
            return f"uint{bits}_gt not antisymmetric on ({a},{b}), distance {d}"
        if 0 < d < H and not gt(a, b):
            return f"uint{bits}_gt({a},{b}) false although a = b + {d} (mod 2^{bits}), 0 < {d} < half"
        if gt(add(a, c), add(b, c)) != gt(a, b):
            return f"uint{bits}_gt not translation invariant: ({a},{b}) shifted by {c}"
        if gte(a, b) != (a == b or gt(a, b)):
            return f"uint{bits}_gte({a},{b}) inconsistent with gt/eq"
        k = c % H
        if k > 0 and not gt(add(a, k), a):
            return f"uint{bits}_add({a},{k}) is not serially greater than {a}"
        if add(a, c) != (a + c) % M:
            return f"uint{bits}_add({a},{c}) is not addition modulo 2^{bits}"
        return None

    def label(self, case, impl_out):
        if "unary" in case:
            return "unary"
        if "clamp" in case:
            return "clamp"
        M = 1 << case["bits"]
        d = (case["a"] - case["b"]) % M
        kind = "eq" if d == 0 else "half" if d == M // 2 else "ahead" if d < M // 2 else "behind"
        wrap = "wrap" if abs(case["a"] - case["b"]) > M // 2 else "nowrap"
        return f"u{case['bits']}-{kind}-{wrap}"

    def shrink(self, case):
        return []


# ---------------------------------------------------------------------------------------------
# part 2: origin independence, checked on the implementation by running the SAME schedule / arrival
# pattern from a small origin and from origins at the wrap point and comparing application-level
# results (no model involved: this is the property itself, used as an oracle).
# ---------------------------------------------------------------------------------------------

import collections
import json as _json


class SctpOrigin(Component):
    """Two real SCTP endpoints: the same recorded schedule from small initial TSNs and from initial TSNs
    a few chunks below 2^32 (TSN, stream reset and reconfig sequence numbers all derive from it) must
    produce the same application-level history."""

    name = "sctp-origin"
    theorems = []

    def cases(self, rng, tier):
        from harness import sctp_check as S
        n, steps = (64, 200) if tier == "quick" else (320, 450)
        out = []
        for i in range(n):
            prof = ["reorder-frag", "expiry", "mixed-pr", "strike", "expiry", "lifecycle", "expiry", "reliable"][i % 8]
            from harness import sctp_world as W
            if prof in ("strike", "expiry"):
                # directed schedules around giving up partially reliable messages (FORWARD TSN carries stream sequence numbers)
                c = (S.make_strike_case if prof == "strike" else S.make_expiry_case)(rng, False)
                c["tsnA"], c["tsnB"] = rng.randrange(1, 1000), rng.randrange(1, 1000)
            else:
                c = S.make_case(rng, prof, steps, wrap=False)
                c["tsnA"], c["tsnB"] = rng.randrange(1, 1000), rng.randrange(1, 1000)
                # regenerate the schedule for these origins (ops are index based, independent of TSN values)
                c["ops"] = W.random_ops(rng, dict(tagA=c["tagA"], tagB=c["tagB"], tsnA=c["tsnA"], tsnB=c["tsnB"]), steps, S.PROFILES[prof])
            c["shiftA"] = 2**32 - c["tsnA"] - rng.randrange(1, 60)
            c["shiftB"] = 2**32 - c["tsnB"] - rng.randrange(1, 60)
            # origin of the 16-bit stream sequence numbers of every stream (both directions, also after a stream
            # reset): a few messages below 2^16 in the shifted run
            c["ssn"] = 65536 - rng.randrange(1, 6) if i % 3 else 0
            if prof in ("strike", "expiry"):
                # short schedules: try every position of the wrap within the first messages of a stream
                c["ssn"] = [65535, 65534, 65533, 65532, 65531, 65530]
            out.append(c)
        return out

    @staticmethod
    def _history(case, tsnA, tsnB, ssn=0):
        from harness import sctp_world as W
        # the origin of the stream sequence numbers is shifted by the world itself (sctp_world.World, `ssn`)
        w = W.World(dict(case, tsnA=tsnA, tsnB=tsnB, ssn=(ssn or None)))
        w.run()
        healed = w.heal(4000)
        hist = []
        for n in "AB":
            evs = []
            for st in w.trace[n]:
                for ev in st["events"]:
                    evs.append(repr(ev))
                evs.append(_json.dumps(st["public"]))
            hist.append(evs)
        return healed, hist, sum(len(v) for d in (w.deliveries("A"), w.deliveries("B")) for v in d.values())

    def impl(self, case):
        h0, a, n0 = self._history(case, case["tsnA"], case["tsnB"])
        ssns = case.get("ssn", 0)
        for ssn in (ssns if isinstance(ssns, list) else [ssns]):
            h1, b, n1 = self._history(case, (case["tsnA"] + case["shiftA"]) % 2**32, (case["tsnB"] + case["shiftB"]) % 2**32,
                                      ssn=ssn)
            if (h0, a) == (h1, b):
                continue
            for side in (0, 1):
                for k, (x, y) in enumerate(zip(a[side], b[side])):
                    if x != y:
                        return f"differ (first stream sequence number {ssn}) endpoint={'AB'[side]} item={k} small={x[:160]} wrapped={y[:160]}"
            return f"differ (first stream sequence number {ssn}) healed {h0} vs {h1} or length"
        return f"same healed={h0} deliveries={n0}"

    def oracle(self, case, impl_out):
        if impl_out.startswith("same"):
            return None
        return "SCTP association behaves differently when its sequence numbers wrap: " + impl_out

    def label(self, case, impl_out):
        return case.get("profile", "?") + ("+ssn" if case.get("ssn") else "") + ("" if impl_out.startswith("same") else "-DIFF")

    def nontrivial(self, case, impl_out):
        return "deliveries=0" not in impl_out


class RtpOrigin(Component):
    """JitterBuffer, NackGenerator and StreamStatistics, each on its own: the same arrival pattern with every
    sequence number shifted by k (mod 2^16) and every timestamp by an independent shift (mod 2^32) must give the
    same frames / the shifted missing sets / the same statistics.  (The RTP SENDER — retransmission history, RTX
    counter, timestamp origin —, the assembled receiver, TimestampMapper and the bitrate estimator are the
    components of harness/c17rtp.py.)"""

    name = "rtp-origin"
    theorems = []

    def cases(self, rng, tier):
        n = 300 if tier == "quick" else 6000
        out = []
        for _ in range(n):
            length = rng.randrange(5, 120)
            # arrival pattern over logical packet indices with loss, duplication, reordering
            idx = []
            for i in range(length):
                x = rng.random()
                if x < 0.1:
                    continue
                idx.append(i)
                if x > 0.95:
                    idx.append(i)
            for _ in range(rng.randrange(0, 6)):
                if len(idx) > 2:
                    a = rng.randrange(len(idx) - 1)
                    b = min(len(idx) - 1, a + rng.randrange(1, 6))
                    idx[a], idx[b] = idx[b], idx[a]
            sizes = [rng.randrange(1, 4) for _ in range(length)]  # packets per frame
            shift = rng.choice([65535, 65500, 65536 - length // 2, 65536 - rng.randrange(1, 200), rng.randrange(65536)])
            tshift = rng.choice([2**32 - 3000 * rng.randrange(1, 40), 2**32 - 1, 2**31, rng.randrange(2**32)])
            out.append({"idx": idx, "sizes": sizes, "start": rng.randrange(0, 100), "shift": shift, "tshift": tshift,
                        "cap": rng.choice([16, 32, 128]), "prefetch": rng.choice([0, 0, 2, 4]),
                        "video": rng.random() < 0.5})
        return out

    @staticmethod
    def _run(case, shift, tshift):
        from aiortc.jitterbuffer import JitterBuffer
        from aiortc.rtcrtpreceiver import NackGenerator, StreamStatistics
        from aiortc.rtp import RtpPacket
        # frame layout: logical packet i belongs to frame f(i)
        frame_of = []
        for f, s in enumerate(case["sizes"]):
            frame_of += [f] * s
        jb = JitterBuffer(capacity=case["cap"], prefetch=case["prefetch"], is_video=case["video"])
        ng = NackGenerator()
        st = StreamStatistics(90000)
        import aiortc.rtcrtpreceiver as rr
        frames, missing, pli = [], [], []
        k = 0
        saved = rr.time.time
        try:
            for i in case["idx"]:
                if i >= len(frame_of):
                    continue
                seq = (case["start"] + i + shift) % 65536
                ts = (frame_of[i] * 3000 + tshift) % 2**32
                p = RtpPacket(sequence_number=seq, timestamp=ts, payload=bytes([i % 256, i // 256 % 256]))
                p._data = p.payload
                k += 1
                rr.time.time = lambda k=k: 1000.0 + k * 0.01
                flag, frame = jb.add(p)
                pli.append(flag)
                if frame is not None:
                    frames.append((frame.data.hex(), (frame.timestamp - tshift) % 2**32))
                missed = ng.add(p)
                missing.append((missed, sorted((m - shift - case["start"]) % 65536 for m in ng.missing)))
                st.add(p)
        finally:
            rr.time.time = saved
        stats = (st.packets_received, st.packets_expected, st.packets_lost, st.fraction_lost, st.jitter,
                 None if st.max_seq is None else (st.cycles + st.max_seq - st.base_seq))
        return repr((frames, missing, pli, stats))

    def impl(self, case):
        a = self._run(case, 0, 0)
        b = self._run(case, case["shift"], case["tshift"])
        return "same" if a == b else f"differ small={a[:200]} shifted={b[:200]}"

    def oracle(self, case, impl_out):
        if impl_out == "same":
            return None
        return ("RTP receive pipeline (jitter buffer / NACK generator / receiver statistics) behaves differently when "
                "sequence numbers and timestamps start near the wrap: " + impl_out)

    def label(self, case, impl_out):
        wraps = ((case["start"] + case["shift"]) % 65536 + len(case["idx"]) >= 65536
                 or case["tshift"] + 3000 * len(case["sizes"]) >= 2**32)
        return ("wraps" if wraps else "nowrap") + ("" if impl_out == "same" else "-DIFF")


def components(tier):
    from harness import c17rtp as R
    return [Serial(), RtpOrigin(), R.SenderOrigin(), R.ReceiverOrigin(), R.TsMapOrigin(), R.RateOrigin(), SctpOrigin()]


def classify_finding(finding, comp_name, case, what):
    return False
