"""C18 — RTCP receiver reports: loss / jitter figures are the RFC 3550 ones and always fit the wire.

Three correspondences with `lean/Aiortc/Model/Stats.lean` (driver `Drv/Stats.lean`):
  * stats    — `StreamStatistics` driven directly (scripted `rtcrtpreceiver.time`), long histories, bursts over many cycles
  * receiver — `RTCRtpReceiver._handle_rtp_packet` / `_handle_rtcp_packet` (SR) / one iteration of `_run_rtcp` / `getStats()`
               with a recording transport: the datagram that is sent is compared byte for byte
  * info     — `bytes(RtcpReceiverInfo(...))` and `pack_packets_lost` on arbitrary integers (field-width boundaries)
The oracles re-compute the RFC 3550 figures from the arrival history with *unwrapped* sequence numbers (independent of the
implementation's state) and decode the sent datagram with `struct` only.
"""
from __future__ import annotations

import struct

from harness.check import Component

LEAN_TARGETS = ["Aiortc.Props.C18", "Aiortc.Props.C18Ntp"]
DRIVERS = ["Stats", "Ntp"]
AUDIT_PROPS = ["C18", "C18Ntp"]
MANIFEST = {
    "technique": "Lean 4 invariant proofs (induction over the arrival history) about an executable model of StreamStatistics / "
                 "_run_rtcp report construction / RtcpReceiverInfo.__bytes__, tied to the Python code by differential execution",
    "text": "For every arrival history (ghost unwrapped sequence numbers within half the space of the running maximum) the model's "
            "packets_received is the history length, cycles+max_seq is the unwrapped maximum, packets_expected/packets_lost/fraction_lost "
            "are the RFC 3550 A.3 figures, _jitter_q4 follows the A.8 recurrence in 32-bit arithmetic, and every field of the "
            "RtcpReceiverInfo built from a reachable state fits its width so serialisation returns 24 bytes and never raises. "
            "The model is run against StreamStatistics, RTCRtpReceiver (_handle_rtp_packet/_handle_rtcp_packet/_run_rtcp/getStats) "
            "and RtcpReceiverInfo.__bytes__ on generated histories with a scripted clock.  Props/C18Ntp.lean covers the NTP timestamp "
            "behind LSR (clock.datetime_to_ntp / datetime_from_ntp, Model/Ntp.lean): the fraction word fits 32 bits, the timestamp fits the "
            "64-bit SR field exactly until the NTP era ends, it is monotone in time, LSR is the middle 32 bits, and datetime_from_ntp "
            "inverts datetime_to_ntp to the microsecond and is total on every 64-bit value.",
    "note": "Needs fixes/C18-jitter-32bit-arithmetic.patch and fixes/C18-highest-sequence-cycles.patch applied to the repo "
            "(the pinned code violates clauses 2, 4 and 5 of the property; the model is of the fixed code).",
    "design_ref": "DESIGN.md §2 C18",
}
ASSUMPTIONS = [
    "extended_highest / expected_rfc3550 / lost_rfc3550 / fraction_rfc3550_* / jitter_rfc3550 / report_values: the property's history "
    "hypothesis — every packet's unwrapped sequence number e satisfies -32768 <= e - (running maximum) < 32768 ('reordering within half "
    "the sequence space'); the wire carries e mod 2^16.  (add_never_fails, received_exact, fraction_fits, jitter_bounded, report_fits "
    "hold for every history: unwrapEvs constructs such a ghost for any sequence of wire numbers.)",
    "the arrival tick int(time.time()*clockrate) and the RTP timestamp are arbitrary integers (no range assumption is needed)",
    "report_fits: the SSRC of the stream is in [0, 2^32) (parsed from a 32-bit field) and LSR / DLSR are 32-bit — which lsr_fits / dlsr_fits "
    "prove for the values _run_rtcp computes from any NTP timestamp and any delay num/den with den > 0 (the exact value of a Python float)",
    "receiver_never_fails: RTP sequence numbers in [0, 2^16), SSRCs and the RTCP SSRC in [0, 2^32), fewer than 256 streams per receiver "
    "((2 << 6) | count must be a byte); rr_packet_ok: at most 31 streams (the RC field has 5 bits; the property is per SSRC)",
]
TRUSTED_EXTRA = [
    "clock.py: int(delta.total_seconds()) is modelled as days*86400+seconds (exact for the float below 2^32 s, compared by the ntp "
    "component up to 70000 days); the float microseconds of datetime_from_ntp are exact (numerator < 2^52, divisor 2^32) and timedelta's "
    "round-half-even is modelled as such; dates before 1900 (negative deltas) are not modelled; the abs-send-time expression is taken "
    "from the source of RTCRtpSender._run_rtp (the value assigned to packet.extensions.abs_send_time) and evaluated on a stub clock",
    "float arithmetic of int(time.time()*clockrate) and of time.time()-lsr_time is not modelled: the harness evaluates the same "
    "Python expressions on the scripted clock values and hands the resulting integer / exact rational to the model",
    "asyncio scheduling of _run_rtcp (sleep, random interval) is replaced by a single loop iteration; the decoder thread is not started",
]
RULE = ("arrival histories are generated from a ghost process on unwrapped sequence numbers (start anywhere incl. the wrap points, "
        "loss gaps, duplicates, reordering up to and across the half-space boundary, jumps of up to 32767, several cycles, bursts "
        "beyond 2^32 extended numbers), RTP timestamps with frame structure / 32-bit wrap / backward steps, and a scripted arrival "
        "clock with jitter, stalls and jumps (+-2^31, 2^32, 2^36 ticks and more); reports and getStats are taken at random instants; "
        "distinct = distinct canonical case (sha1 of JSON); non-trivial = at least 2 packets and one read")

M16 = 1 << 16
M32 = 1 << 32
CLAMP_MIN = -(1 << 23)
CLAMP_MAX = (1 << 23) - 1


# ------------------------------------------------------------------------------------------------
# reference figures (RFC 3550 A.1/A.3/A.8 on unwrapped numbers) — independent of the implementation
# ------------------------------------------------------------------------------------------------
class Ref:
    def __init__(self):
        self.n = 0
        self.e0 = None
        self.M = None
        self.J = 0
        self.prev = None
        self.exp_prior = 0
        self.rec_prior = 0

    def add(self, seq, ts, arr):
        """arr may be a callable: the clock is only read for an in-order packet."""
        self.n += 1
        if self.M is None:
            e = seq
            self.e0 = e
            inorder = True
        else:
            d = ((seq - self.M + 32768) % M16) - 32768
            e = self.M + d
            inorder = d > 0
        if inorder:
            self.M = e
            a = arr() if callable(arr) else arr
            if self.prev is not None and ts != self.prev[1]:
                D = (a - self.prev[0]) - (ts - self.prev[1])
                D = ((D + (1 << 31)) % M32) - (1 << 31)
                self.J += abs(D) - ((self.J + 8) >> 4)
            self.prev = (a, ts)
        return inorder

    @property
    def expected(self):
        return self.M - self.e0 + 1

    @property
    def lost(self):
        return max(CLAMP_MIN, min(self.expected - self.n, CLAMP_MAX))

    def fraction(self):
        ei = self.expected - self.exp_prior
        ri = self.n - self.rec_prior
        self.exp_prior = self.expected
        self.rec_prior = self.n
        li = ei - ri
        if ei == 0 or li <= 0:
            return 0
        return (li << 8) // ei


def ticks(t, clockrate):
    return int(t * clockrate)


# ------------------------------------------------------------------------------------------------
# history generator (shared by `stats` and `receiver`)
# ------------------------------------------------------------------------------------------------
SEQ_STARTS = [0, 1, 2, 32766, 32767, 32768, 32769, 65533, 65534, 65535]
TS_STARTS = [0, 1, 3000, (1 << 31) - 1500, (1 << 31), M32 - 1, M32 - 960, M32 - 3000, M32 - 90000]


def gen_history(rng, n, clockrate, style):
    """-> list of (seq, ts, t) ; t is a float such that ticks are exact when clockrate == 1."""
    e = rng.choice(SEQ_STARTS + [rng.randrange(M16)] * 3)
    if style.get("cycles0"):
        e += M16 * rng.randrange(0, 3)
    head = e
    ts = rng.choice(TS_STARTS + [rng.randrange(M32)] * 3)
    frame = rng.choice([960, 3000, 3000, 1, 90000, 160])
    if clockrate == 1:
        now = float(rng.choice([0, 1, 1 << 31, (1 << 32) - 5, 1 << 40, rng.randrange(1 << 44)]))
    else:
        now = rng.choice([0.0, 1.0, 1700000000.0 + rng.random() * 1e6, rng.random() * 1e5, 47721.85 + rng.random()])
    out = []
    first = True
    for _ in range(n):
        r = rng.random()
        if first:
            cur = head
            first = False
        elif r < style["p_dup"]:
            cur = rng.choice([head, head - rng.randrange(0, 4)])
        elif r < style["p_dup"] + style["p_reorder"]:
            k = rng.choice([1, 2, 3, rng.randrange(1, 200), 32766, 32767, 32768, 32769, rng.randrange(1, 40000)]
                           if style.get("far") else [1, 2, 3, rng.randrange(1, 30)])
            cur = head - k
        else:
            r2 = rng.random()
            if r2 < style["p_loss"]:
                step = 1 + rng.randrange(1, 60)
            elif r2 < style["p_loss"] + style["p_jump"]:
                step = rng.choice([32767, 32766, 32768, 32769, 40000, 65535, 65536, 65537, rng.randrange(1000, 32768), 30000, 21846])
            else:
                step = 1
            head += step
            cur = head
            # timestamps: several packets per frame, sometimes backwards / big jumps / wrap
            r3 = rng.random()
            if r3 < style["p_sameframe"]:
                dts = 0
            elif r3 < style["p_sameframe"] + 0.04:
                dts = -frame * rng.randrange(1, 4)
            elif r3 < style["p_sameframe"] + 0.07:
                dts = rng.choice([1 << 31, (1 << 31) - 1, (1 << 31) + 1, M32 - 1, rng.randrange(M32)])
            else:
                dts = frame * step if step < 100 else frame
            ts = (ts + dts) % M32
            # arrival clock
            r4 = rng.random()
            if clockrate == 1:
                if r4 < style["p_clockjump"]:
                    now += float(rng.choice([1 << 31, (1 << 31) - 1, (1 << 31) + 1, -(1 << 31), 1 << 32, (1 << 32) + 7, 1 << 36, 1 << 45,
                                             -(1 << 33), rng.randrange(-(1 << 34), 1 << 34)]))
                else:
                    now += float(max(0, (dts if 0 <= dts < (1 << 20) else frame) + rng.randrange(-frame // 2 - 1, frame // 2 + 2)))
            else:
                if r4 < style["p_clockjump"]:
                    now += rng.choice([47721.858, 23860.93, -5.0, 86400.0, 1e6, 1e9, -1e5, 13.0 * 3600])
                else:
                    base = (dts if 0 <= dts < (1 << 20) else frame) / clockrate
                    now += max(0.0, base * (0.5 + rng.random()))
        out.append((cur % M16, ts, now))
    return out


STYLES = {
    "clean": dict(p_dup=0.0, p_reorder=0.0, p_loss=0.0, p_jump=0.0, p_sameframe=0.5, p_clockjump=0.0),
    "lossy": dict(p_dup=0.05, p_reorder=0.1, p_loss=0.15, p_jump=0.0, p_sameframe=0.4, p_clockjump=0.01),
    "wild": dict(p_dup=0.08, p_reorder=0.15, p_loss=0.1, p_jump=0.25, p_sameframe=0.3, p_clockjump=0.08, far=True, cycles0=True),
    "cycles": dict(p_dup=0.02, p_reorder=0.05, p_loss=0.05, p_jump=0.7, p_sameframe=0.2, p_clockjump=0.03),
    "jumps": dict(p_dup=0.0, p_reorder=0.05, p_loss=0.05, p_jump=0.02, p_sameframe=0.1, p_clockjump=0.4),
}


def sprinkle(rng, hist_events, read_kinds, p):
    out = []
    for ev in hist_events:
        out.append(ev)
        if rng.random() < p:
            out.append([rng.choice(read_kinds)])
    out.append([rng.choice(read_kinds)])
    out.append([rng.choice(read_kinds)])
    return out


def _rr():
    from aiortc import rtcrtpreceiver
    return rtcrtpreceiver


class FakeTime:
    def __init__(self):
        self.now = 0.0
        self.reads = 0

    def time(self):
        self.reads += 1
        return self.now


def _exc_tag(exc):
    if isinstance(exc, struct.error):
        return "crash struct.error"
    if isinstance(exc, ValueError):
        return "ValueError"
    return "crash " + type(exc).__name__


# ------------------------------------------------------------------------------------------------
# component 1: StreamStatistics
# ------------------------------------------------------------------------------------------------
class Stats(Component):
    name = "stats"
    theorems = ["add_never_fails", "received_exact", "extended_highest", "expected_rfc3550", "lost_rfc3550",
                "fraction_rfc3550_first", "fraction_rfc3550_interval", "fraction_fits",
                "jitter_rfc3550", "jitter_recurrence", "jitter_mod32", "jitter_bounded"]

    def corpus(self):
        return [
            # DESIGN probe: 10 packets across both wraps (sequence 65531.. and timestamp wrap)
            {"clockrate": 1, "ev": [["a", (65531 + i) % M16, (M32 - 4 * 3000 + i * 3000) % M32, float(1000 + i * 3000)] for i in range(10)]
             + [["g"], ["f"], ["g"]]},
            # jitter would not fit 32 bits after a clock jump of 2^45 ticks (pinned code: struct.error at the report)
            {"clockrate": 1, "ev": [["a", 10, 0, 0.0], ["a", 11, 3000, float(1 << 45)], ["g"], ["f"]]},
            # extended highest sequence beyond 2^32: 70000 cycles driven by bursts of step 21846 (3 packets per cycle)
            {"clockrate": 1, "ev": [["b", 3 * 70000, 5, 21846, 7, 960, 100, 960], ["g"], ["f"], ["a", 3, 8, float(1 << 33)], ["g"], ["f"]]},
            # reads on a fresh object (base_seq / max_seq are None)
            {"clockrate": 90000, "ev": [["g"]]},
            {"clockrate": 90000, "ev": [["f"]]},
            # |D| = 2^31 exactly
            {"clockrate": 1, "ev": [["a", 0, 0, 0.0], ["a", 1, 1 << 31, 0.0], ["g"], ["a", 2, 0, float(1 << 31)], ["g"], ["f"]]},
            # loss of everything but one packet per interval: fraction 255
            {"clockrate": 1, "ev": [["a", 0, 0, 0.0], ["f"], ["a", 32767, 1, 1.0], ["f"], ["a", 65534, 2, 2.0], ["f"], ["g"]]},
        ]

    def cases(self, rng, tier):
        n_cases = 700 if tier == "quick" else 12000
        out = []
        for i in range(n_cases):
            style_name = rng.choice(list(STYLES))
            style = STYLES[style_name]
            clockrate = rng.choice([1, 1, 1, 8000, 48000, 90000, 90000])
            n = rng.choice([1, 2, 3, 5, 8, 20, 40, 80]) if tier == "quick" else rng.choice([1, 2, 3, 5, 8, 20, 40, 80, 200, 500])
            hist = gen_history(rng, n, clockrate, style)
            evs = [["a", s, t, now] for (s, t, now) in hist]
            evs = sprinkle(rng, evs, ["f", "g", "g"], 0.15)
            if clockrate == 1 and rng.random() < 0.15:
                # a burst over many cycles in the middle
                pos = rng.randrange(len(evs) + 1)
                nb = rng.choice([10, 1000, 30000]) if tier == "quick" else rng.choice([10, 1000, 30000, 200000])
                evs.insert(pos, ["b", nb, rng.randrange(M16), rng.choice([1, 2, 21846, 32767, 30000, 65535]),
                                 rng.randrange(M32), rng.choice([0, 960, 3000, M32 - 1]), rng.randrange(1 << 40), rng.choice([0, 960, 3000, 1 << 31])])
            out.append({"clockrate": clockrate, "ev": evs, "style": style_name})
        return out

    def model_line(self, case):
        c = case["clockrate"]
        parts = []
        for ev in case["ev"]:
            if ev[0] == "a":
                parts.append(f"a:{ev[1]}:{ev[2]}:{ticks(ev[3], c)}")
            elif ev[0] == "b":
                assert c == 1
                parts.append("b:" + ":".join(str(int(x)) for x in ev[1:]))
            else:
                parts.append(ev[0])
        return "stats run " + (";".join(parts) if parts else "-")

    @staticmethod
    def _packets(ev):
        if ev[0] == "a":
            yield ev[1], ev[2], ev[3]
        else:
            _, n, seq, dseq, ts, dts, arr, darr = ev
            for i in range(n):
                yield (seq + i * dseq) % M16, (ts + i * dts) % M32, float(arr + i * darr)

    def impl(self, case):
        rr = _rr()
        from aiortc.rtp import RtpPacket
        fake = FakeTime()
        saved = rr.time
        rr.time = fake
        try:
            st = rr.StreamStatistics(case["clockrate"])
            outs = []
            try:
                for ev in case["ev"]:
                    if ev[0] in ("a", "b"):
                        for seq, ts, now in self._packets(ev):
                            fake.now = now
                            st.add(RtpPacket(sequence_number=seq, timestamp=ts))
                    elif ev[0] == "f":
                        outs.append(str(st.fraction_lost))
                    elif ev[0] == "g":
                        exp = st.packets_expected
                        lost = st.packets_lost
                        outs.append("/".join(str(x) for x in (st.packets_received, exp, lost, st.jitter, st.max_seq, st.cycles, st.base_seq)))
            except Exception as exc:
                return _exc_tag(exc)
            return "ok " + (";".join(outs) if outs else "-")
        finally:
            rr.time = saved

    def oracle(self, case, impl_out):
        c = case["clockrate"]
        ref = Ref()
        any_packet = False
        outs = impl_out[3:].split(";") if impl_out.startswith("ok ") else None
        k = 0
        for ev in case["ev"]:
            if ev[0] in ("a", "b"):
                for seq, ts, now in self._packets(ev):
                    ref.add(seq, ts, ticks(now, c))
                    any_packet = True
                continue
            if not any_packet:
                return None  # a read before the first packet: not reachable through the receiver, nothing to say
            if outs is None:
                return f"reading the statistics raised ({impl_out}) after {ref.n} packets"
            got = outs[k]
            k += 1
            if ev[0] == "f":
                want = ref.fraction()
                if not (0 <= int(got) <= 255):
                    return f"fraction_lost = {got} does not fit 8 bits (after {ref.n} packets)"
                if int(got) != want:
                    return f"fraction_lost = {got}, RFC 3550 A.3 gives {want} (after {ref.n} packets)"
            else:
                rec, exp, lost, jit, mx, cyc, base = got.split("/")
                if int(rec) != ref.n:
                    return f"packets_received = {rec}, {ref.n} packets were added"
                if int(cyc) + int(mx) != ref.M:
                    return f"cycles + max_seq = {int(cyc) + int(mx)}, extended highest sequence number is {ref.M}"
                if int(exp) != ref.expected:
                    return f"packets_expected = {exp}, extended highest - first + 1 = {ref.expected}"
                if int(lost) != ref.lost:
                    return f"packets_lost = {lost}, expected - received (clamped to 24 bits signed) = {ref.lost}"
                if int(jit) != ref.J >> 4:
                    return f"jitter = {jit}, RFC 3550 A.8 recurrence (32-bit arithmetic) gives {ref.J >> 4}"
                if not (0 <= int(jit) < M32):
                    return f"jitter = {jit} does not fit 32 bits"
        return None

    def label(self, case, impl_out):
        if not impl_out.startswith("ok"):
            return impl_out[:24]
        n = sum(1 if ev[0] == "a" else ev[1] for ev in case["ev"] if ev[0] in ("a", "b"))
        size = "n1" if n <= 1 else "n<10" if n < 10 else "n<100" if n < 100 else "n<1000" if n < 1000 else "n>=1000"
        cyc = "nocycle"
        last_g = [o for o in impl_out[3:].split(";") if "/" in o]
        if last_g:
            f = last_g[-1].split("/")
            c = int(f[5]) >> 16
            cyc = "nocycle" if c == 0 else "cycles<4" if c < 4 else "cycles<65536" if c < 65536 else "cycles>=65536"
            if int(f[2]) < 0:
                cyc += "-neglost"
            if int(f[2]) in (CLAMP_MIN, CLAMP_MAX):
                cyc += "-clamped"
        return f"{case.get('style', 'corpus')}-{size}-{cyc}"

    def nontrivial(self, case, impl_out):
        n = sum(1 if ev[0] == "a" else ev[1] for ev in case["ev"] if ev[0] in ("a", "b"))
        return n >= 2 and any(ev[0] in ("f", "g") for ev in case["ev"])

    def shrink(self, case):
        evs = case["ev"]
        n = len(evs)
        # shorten bursts first (they dominate the cost of every further attempt), then drop chunks / single events
        for i, ev in enumerate(evs):
            if ev[0] == "b" and ev[1] > 1:
                yield dict(case, ev=evs[:i] + evs[i + 1:])
                yield dict(case, ev=evs[:i] + [["b", ev[1] // 2] + ev[2:]] + evs[i + 1:])
                yield dict(case, ev=evs[:i] + [["b", ev[1] - ev[1] // 8 - 1] + ev[2:]] + evs[i + 1:])
        size = n // 2
        while size >= 1:
            for i in range(0, n, size):
                cand = evs[:i] + evs[i + size:]
                if cand:
                    yield dict(case, ev=cand)
            size //= 2


# ------------------------------------------------------------------------------------------------
# component 2: RTCRtpReceiver (rtp / SR / one _run_rtcp iteration / getStats)
# ------------------------------------------------------------------------------------------------
class FakeTransport:
    state = "connected"

    def __init__(self):
        self._stats_id = "transport_fake"
        self.sent = []

    async def _send_rtp(self, data):
        self.sent.append(bytes(data))

    def _get_stats(self):
        from aiortc.stats import RTCStatsReport
        return RTCStatsReport()


PT = 96


class Receiver(Component):
    name = "receiver"
    theorems = ["report_fits", "report_values", "lsr_fits", "dlsr_fits", "rr_packet_ok", "receiver_never_fails"]

    def corpus(self):
        return [
            # the DESIGN probe through the receiver, report after it
            {"clockrate": 1, "rtcp_ssrc": 1234, "ev": [["p", 77, (65531 + i) % M16, (M32 - 4 * 3000 + i * 3000) % M32, float(1000 + i * 3000)] for i in range(10)]
             + [["r", 5.0], ["g", 5.0]]},
            # clock jump: jitter of the pinned code needs 42 bits -> struct.error kills _run_rtcp
            {"clockrate": 1, "rtcp_ssrc": 1, "ev": [["p", 5, 10, 0, 0.0], ["p", 5, 11, 3000, float(1 << 45)], ["r", 1.0]]},
            # SR then report: lsr / dlsr
            {"clockrate": 90000, "rtcp_ssrc": 4294967295, "ev": [["p", 9, 1, 0, 10.0], ["s", 9, (1 << 64) - 1, 11.0], ["r", 11.5], ["r", 11.0], ["r", 10.0], ["r", 11.0 + 65536.0], ["r", 11.0 + 65535.99999]]},
            # no rtcp ssrc: nothing is sent but fraction_lost state still advances
            {"clockrate": 1, "rtcp_ssrc": None, "ev": [["p", 9, 1, 0, 10.0], ["p", 9, 5, 0, 10.0], ["r", 11.0], ["g", 1.0]]},
            # report with no stream
            {"clockrate": 1, "rtcp_ssrc": 3, "ev": [["r", 11.0], ["g", 1.0], ["s", 4, 12345 << 16, 3.0], ["r", 12.0]]},
            # extended highest beyond 2^32 through the receiver
            {"clockrate": 1, "rtcp_ssrc": 3, "ev": [["b", 8, 3 * 65540, 5, 21846, 7, 960, 100, 960], ["r", 1.0], ["g", 1.0]]},
        ]

    def cases(self, rng, tier):
        n_cases = 350 if tier == "quick" else 6000
        out = []
        for i in range(n_cases):
            style_name = rng.choice(list(STYLES))
            style = STYLES[style_name]
            clockrate = rng.choice([1, 1, 8000, 48000, 90000, 90000])
            nss = rng.choice([1, 1, 1, 2, 3])
            ssrcs = rng.sample([0, 1, 0x12345678, M32 - 1, rng.randrange(M32), rng.randrange(M32)], nss)
            n = rng.choice([1, 2, 3, 5, 8, 20, 40])
            hists = {s: gen_history(rng, n, clockrate, style) for s in ssrcs}
            # interleave the streams; the clock is shared, so use each stream's own time line shifted to be monotone-ish
            evs = []
            idx = {s: 0 for s in ssrcs}
            live = list(ssrcs)
            while live:
                s = rng.choice(live)
                seq, ts, now = hists[s][idx[s]]
                evs.append(["p", s, seq, ts, now])
                idx[s] += 1
                if idx[s] >= len(hists[s]):
                    live.remove(s)
            out_evs = []
            now = 0.0
            for ev in evs:
                out_evs.append(ev)
                now = ev[4]
                r = rng.random()
                if r < 0.10:
                    out_evs.append(["s", rng.choice(ssrcs + [rng.randrange(M32)]),
                                    rng.choice([0, 1, (1 << 64) - 1, rng.randrange(1 << 64), rng.randrange(1 << 48)]), now])
                elif r < 0.25:
                    dt = rng.choice([0.0, 0.25, 1.0, 1.5, 65535.5, 65536.0, 70000.0, -1.0, 1e-9, rng.random() * 3])
                    out_evs.append(["r", now + dt])
                elif r < 0.30:
                    out_evs.append(["g", now])
            out_evs.append(["r", now + rng.random()])
            out_evs.append(["g", now])
            out_evs.append(["r", now + 2 * rng.random()])
            rtcp_ssrc = rng.choice([0, 1, M32 - 1, rng.randrange(M32), rng.randrange(M32), None])
            out.append({"clockrate": clockrate, "rtcp_ssrc": rtcp_ssrc, "ev": out_evs, "style": style_name})
        # a few streams driven beyond 2^32 extended sequence numbers (>= 65536 cycles) through the receiver
        for i in range(2 if tier == "quick" else 30):
            ssrc = rng.randrange(M32)
            step = rng.choice([21846, 30000, 32767])
            n = (M32 // step) + rng.randrange(1, 5000)
            evs = [["b", ssrc, n, rng.randrange(M16), step, rng.randrange(M32), rng.choice([0, 960, 3000]), rng.randrange(1 << 40), rng.choice([960, 3000, 1 << 31])],
                   ["r", 1.0], ["g", 1.0]]
            for (sq, ts, now) in gen_history(rng, rng.choice([3, 10]), 1, STYLES["wild"]):
                evs.append(["p", ssrc, sq, ts, now])
            evs += [["r", 2.0], ["g", 2.0]]
            out.append({"clockrate": 1, "rtcp_ssrc": rng.randrange(M32), "ev": evs, "style": "longrun"})
        return out

    # -- bookkeeping common to model_line / oracle: stream order, lsr times ------------------------
    @staticmethod
    def _packets(ev):
        if ev[0] == "p":
            yield ev[2], ev[3], ev[4]
        else:
            _, ssrc, n, seq, dseq, ts, dts, arr, darr = ev
            for i in range(n):
                yield (seq + i * dseq) % M16, (ts + i * dts) % M32, float(arr + i * darr)

    def model_line(self, case):
        c = case["clockrate"]
        order = []
        lsr_time = {}
        parts = []
        for ev in case["ev"]:
            k = ev[0]
            if k == "p":
                if ev[1] not in order:
                    order.append(ev[1])
                parts.append(f"p:{ev[1]}:{ev[2]}:{ev[3]}:{ticks(ev[4], c)}")
            elif k == "b":
                assert c == 1
                if ev[1] not in order:
                    order.append(ev[1])
                parts.append("b:" + ":".join(str(int(x)) for x in ev[1:]))
            elif k == "s":
                lsr_time[ev[1]] = ev[3]
                parts.append(f"s:{ev[1]}:{ev[2]}")
            elif k == "r":
                ds = []
                for s in order:
                    if s in lsr_time:
                        num, den = (ev[1] - lsr_time[s]).as_integer_ratio()
                        ds.append(f"{num}/{den}")
                parts.append("r:" + (",".join(ds) if ds else "-"))
            else:
                parts.append("g")
        rs = "-" if case["rtcp_ssrc"] is None else str(case["rtcp_ssrc"])
        return f"stats recv {rs} " + (";".join(parts) if parts else "-")

    def impl(self, case):
        import asyncio
        rr = _rr()
        from aiortc.rtp import RtpPacket, RtcpSrPacket, RtcpSenderInfo
        from aiortc.rtcrtpparameters import RTCRtpCodecParameters
        fake = FakeTime()
        saved_time = rr.time
        real_sleep = asyncio.sleep
        rr.time = fake
        transport = FakeTransport()
        state = {"sleeps": 0}

        async def fake_sleep(delay, result=None):
            state["sleeps"] += 1
            if state["sleeps"] > 1:
                raise asyncio.CancelledError()

        async def go():
            receiver = rr.RTCRtpReceiver("audio", transport)
            receiver._RTCRtpReceiver__codecs[PT] = RTCRtpCodecParameters(
                mimeType="audio/opus", clockRate=case["clockrate"], channels=2, payloadType=PT)
            if case["rtcp_ssrc"] is not None:
                receiver._set_rtcp_ssrc(case["rtcp_ssrc"])
            outs = []
            for ev in case["ev"]:
                k = ev[0]
                if k in ("p", "b"):
                    for seq, ts, now in self._packets(ev):
                        fake.now = now
                        await receiver._handle_rtp_packet(
                            RtpPacket(payload_type=PT, sequence_number=seq, timestamp=ts, ssrc=ev[1]), arrival_time_ms=0)
                elif k == "s":
                    fake.now = ev[3]
                    await receiver._handle_rtcp_packet(RtcpSrPacket(
                        ssrc=ev[1], sender_info=RtcpSenderInfo(ntp_timestamp=ev[2], rtp_timestamp=0, packet_count=0, octet_count=0)))
                elif k == "r":
                    fake.now = ev[1]
                    state["sleeps"] = 0
                    del transport.sent[:]
                    asyncio.sleep = fake_sleep
                    try:
                        await receiver._run_rtcp()
                    finally:
                        asyncio.sleep = real_sleep
                    if len(transport.sent) > 1:
                        outs.append("sent-" + str(len(transport.sent)))
                    else:
                        outs.append(transport.sent[0].hex() if transport.sent else "none")
                else:
                    fake.now = ev[1]
                    report = await receiver.getStats()
                    entry = [v for v in report.values() if v.type == "inbound-rtp"]
                    if entry:
                        e = entry[-1]
                        outs.append(f"{e.packetsReceived}/{e.packetsLost}/{e.jitter}")
                    else:
                        outs.append("none")
            return outs

        try:
            loop = asyncio.new_event_loop()
            try:
                outs = loop.run_until_complete(go())
            except Exception as exc:
                return _exc_tag(exc)
            finally:
                asyncio.sleep = real_sleep
                loop.close()
            return "ok " + (";".join(outs) if outs else "-")
        finally:
            rr.time = saved_time

    def oracle(self, case, impl_out):
        c = case["clockrate"]
        refs = {}
        order = []
        lsr = {}
        lsr_time = {}
        outs = impl_out[3:].split(";") if impl_out.startswith("ok ") else None
        if outs is None:
            return f"feeding packets / building or sending a receiver report raised: {impl_out}"
        k = 0
        for ev in case["ev"]:
            kind = ev[0]
            if kind in ("p", "b"):
                s = ev[1]
                if s not in refs:
                    refs[s] = Ref()
                    order.append(s)
                for seq, ts, now in self._packets(ev):
                    refs[s].add(seq, ts, ticks(now, c))
            elif kind == "s":
                lsr[ev[1]] = (ev[2] >> 16) & 0xFFFFFFFF
                lsr_time[ev[1]] = ev[3]
            elif kind == "r":
                got = outs[k]
                k += 1
                # the fraction is computed (and its interval closed) whether or not something is sent
                want = []
                for s in order:
                    ref = refs[s]
                    fl = ref.fraction()
                    l, d = 0, 0
                    if s in lsr:
                        l = lsr[s]
                        delay = ev[1] - lsr_time[s]
                        if 0 < delay < 65536:
                            d = int(delay * 65536)
                    want.append((s, fl, ref.lost, ref.M % M32, ref.J >> 4, l, d))
                if case["rtcp_ssrc"] is None or not order:
                    if got != "none":
                        return f"a datagram was sent although rtcp_ssrc={case['rtcp_ssrc']} and {len(order)} streams"
                    continue
                if got == "none" or got.startswith("sent-"):
                    return f"expected exactly one receiver report datagram, got {got}"
                data = bytes.fromhex(got)
                if len(data) != 8 + 24 * len(order):
                    return f"receiver report has {len(data)} bytes for {len(order)} streams"
                b0, pt, ln, sender = struct.unpack("!BBHL", data[:8])
                if len(order) < 32 and (b0 != 0x80 | len(order) or pt != 201 or ln != len(data) // 4 - 1 or sender != case["rtcp_ssrc"]):
                    return f"receiver report header {data[:8].hex()} is wrong for {len(order)} reports from ssrc {case['rtcp_ssrc']}"
                for i, w in enumerate(want):
                    blk = data[8 + 24 * i: 32 + 24 * i]
                    ssrc, flb = struct.unpack("!LB", blk[:5])
                    lost = int.from_bytes(blk[5:8], "big", signed=True)
                    hs, jit, l, d = struct.unpack("!LLLL", blk[8:])
                    g = (ssrc, flb, lost, hs, jit, l, d)
                    if g != w:
                        names = ("ssrc", "fraction_lost", "packets_lost", "highest_sequence", "jitter", "lsr", "dlsr")
                        bad = [f"{n}={a} (RFC 3550: {b})" for n, a, b in zip(names, g, w) if a != b]
                        return f"receiver report block {i} after {refs[w[0]].n} packets: " + ", ".join(bad)
            else:
                got = outs[k]
                k += 1
                if not order:
                    if got != "none":
                        return f"getStats has an inbound-rtp entry without any stream: {got}"
                    continue
                ref = refs[order[-1]]
                w = f"{ref.n}/{ref.lost}/{ref.J >> 4}"
                if got != w:
                    return f"getStats packetsReceived/packetsLost/jitter = {got}, expected {w}"
        return None

    def label(self, case, impl_out):
        if not impl_out.startswith("ok"):
            return impl_out[:24]
        ns = len({ev[1] for ev in case["ev"] if ev[0] in ("p", "b")})
        sr = "sr" if any(ev[0] == "s" for ev in case["ev"]) else "nosr"
        sent = "sent" if any(len(o) > 20 for o in impl_out[3:].split(";")) else "nothing-sent"
        return f"{case.get('style', 'corpus')}-streams{ns}-{sr}-{sent}"

    def nontrivial(self, case, impl_out):
        n = sum(1 if ev[0] == "p" else ev[2] for ev in case["ev"] if ev[0] in ("p", "b"))
        return n >= 2 and any(ev[0] in ("r", "g") for ev in case["ev"])

    def shrink(self, case):
        evs = case["ev"]
        n = len(evs)
        for i, ev in enumerate(evs):
            if ev[0] == "b" and ev[2] > 1:
                yield dict(case, ev=evs[:i] + evs[i + 1:])
                yield dict(case, ev=evs[:i] + [ev[:2] + [ev[2] // 2] + ev[3:]] + evs[i + 1:])
                yield dict(case, ev=evs[:i] + [ev[:2] + [ev[2] - ev[2] // 8 - 1] + ev[3:]] + evs[i + 1:])
        size = n // 2
        while size >= 1:
            for i in range(0, n, size):
                cand = evs[:i] + evs[i + size:]
                if cand:
                    yield dict(case, ev=cand)
            size //= 2


# ------------------------------------------------------------------------------------------------
# component 3: RtcpReceiverInfo.__bytes__ / pack_packets_lost on arbitrary integers
# ------------------------------------------------------------------------------------------------
W = {"ssrc": 32, "fraction_lost": 8, "packets_lost": 24, "highest_sequence": 32, "jitter": 32, "lsr": 32, "dlsr": 32}
FIELDS = list(W)


def _boundary(rng, bits, signed=False):
    hi = 1 << bits
    if signed:
        return rng.choice([-(hi >> 1) - 1, -(hi >> 1), -(hi >> 1) + 1, -1, 0, 1, (hi >> 1) - 1, (hi >> 1), (hi >> 1) + 1,
                           -(1 << 31), -(1 << 31) - 1, (1 << 31) - 1, 1 << 31, rng.randrange(-(hi >> 1), hi >> 1)])
    return rng.choice([-1, 0, 1, hi - 1, hi, hi + 1, rng.randrange(hi), rng.randrange(hi), rng.randrange(hi)])


class Info(Component):
    name = "info"
    theorems = ["info_bytes_ok_iff", "packets_lost_roundtrip", "clamp_const"]

    def corpus(self):
        return [{"f": [1, 255, CLAMP_MIN, M32 - 1, M32 - 1, M32 - 1, M32 - 1]},
                {"f": [1, 256, 0, 0, 0, 0, 0]},
                {"f": [1, 0, 0, 0, M32, 0, 0]},
                {"ppl": CLAMP_MIN - 1}, {"ppl": 1 << 31}, {"ppl": -(1 << 31)}]

    def cases(self, rng, tier):
        n = 600 if tier == "quick" else 20000
        out = []
        for _ in range(n):
            if rng.random() < 0.2:
                out.append({"ppl": _boundary(rng, 24, signed=True)})
                continue
            valid = rng.random() < 0.5
            f = []
            for name in FIELDS:
                bits = W[name]
                if valid:
                    v = rng.choice([0, 1, (1 << bits) - 1, rng.randrange(1 << bits)]) if name != "packets_lost" else \
                        rng.choice([CLAMP_MIN, CLAMP_MAX, -1, 0, 1, rng.randrange(CLAMP_MIN, CLAMP_MAX + 1)])
                else:
                    v = _boundary(rng, bits, signed=(name == "packets_lost"))
                f.append(v)
            out.append({"f": f})
        return out

    def model_line(self, case):
        if "ppl" in case:
            return f"stats ppl {case['ppl']}"
        return "stats info " + " ".join(str(v) for v in case["f"])

    def impl(self, case):
        from aiortc import rtp
        try:
            if "ppl" in case:
                return "ok " + rtp.pack_packets_lost(case["ppl"]).hex()
            return "ok " + bytes(rtp.RtcpReceiverInfo(**dict(zip(FIELDS, case["f"])))).hex()
        except Exception as exc:
            return _exc_tag(exc)

    def oracle(self, case, impl_out):
        from aiortc import rtp
        if "ppl" in case:
            v = case["ppl"]
            if CLAMP_MIN <= v <= CLAMP_MAX:
                if not impl_out.startswith("ok "):
                    return f"pack_packets_lost({v}) raised although the value fits 24 bits signed"
                if int.from_bytes(bytes.fromhex(impl_out[3:]), "big", signed=True) != v:
                    return f"pack_packets_lost({v}) = {impl_out[3:]} is not the 24-bit two's complement"
            return None
        f = dict(zip(FIELDS, case["f"]))
        fits = all((CLAMP_MIN <= v <= CLAMP_MAX) if n == "packets_lost" else (0 <= v < (1 << W[n])) for n, v in f.items())
        if not fits:
            return None
        if not impl_out.startswith("ok "):
            return f"bytes(RtcpReceiverInfo) raised {impl_out} although every field fits its width: {f}"
        data = bytes.fromhex(impl_out[3:])
        if len(data) != 24:
            return f"RtcpReceiverInfo serialises to {len(data)} bytes"
        ssrc, fl = struct.unpack("!LB", data[:5])
        lost = int.from_bytes(data[5:8], "big", signed=True)
        hs, jit, l, d = struct.unpack("!LLLL", data[8:])
        if [ssrc, fl, lost, hs, jit, l, d] != case["f"]:
            return f"RtcpReceiverInfo wire image {data.hex()} does not decode to {case['f']}"
        return None

    def label(self, case, impl_out):
        return ("ppl-" if "ppl" in case else "info-") + ("ok" if impl_out.startswith("ok") else impl_out[:24].replace(" ", "-"))

# ------------------------------------------------------------------------------------------------
# component 4: clock.datetime_to_ntp / datetime_from_ntp (the NTP timestamp behind the LSR field)
# ------------------------------------------------------------------------------------------------
NTP_ERA_DAYS = (1 << 32) // 86400          # 49710 days: the 32-bit seconds run out on 2036-02-07


_ABS_CODE = None


def _abs_send_time_code():
    """The expression `RTCRtpSender._run_rtp` assigns to packet.extensions.abs_send_time, taken from the source as it is now."""
    global _ABS_CODE
    if _ABS_CODE is None:
        import ast
        import inspect
        import aiortc.rtcrtpsender as m
        tree = ast.parse(inspect.getsource(m))
        found = [n for n in ast.walk(tree) if isinstance(n, ast.Assign) and len(n.targets) == 1
                 and ast.unparse(n.targets[0]) == "packet.extensions.abs_send_time"]
        if len(found) != 1:
            raise RuntimeError(f"{len(found)} assignments to packet.extensions.abs_send_time in rtcrtpsender.py")
        _ABS_CODE = compile(ast.fix_missing_locations(ast.Expression(found[0].value)), "<abs_send_time>", "eval")
    return _ABS_CODE


class Ntp(Component):
    name = "ntp"
    theorems = ["low_lt", "low_floor", "toNtp_eq", "toNtp_seconds", "toNtp_fraction", "toNtp_fits_iff", "toNtp_mono",
                "toNtp_strict", "lsr_of_toNtp", "from_to", "fromNtp_normalised", "fromNtp_range",
                "absSendTime_fits", "absSendTime_of_toNtp", "absSendTime_period"]

    def corpus(self):
        return [{"to": [0, 0, 0]}, {"to": [45920, 43200, 500000]}, {"to": [NTP_ERA_DAYS, 23295, 999999]},
                {"to": [NTP_ERA_DAYS, 23296, 0]}, {"to": [60000, 86399, 999999]},
                {"abs": 0}, {"abs": (1 << 64) - 1}, {"abs": 17040416752007118848}, {"abs": (1 << 70) + 12345},
                {"from": 0}, {"from": (1 << 64) - 1}, {"from": 33554432}, {"from": (1 << 32) - 1}, {"from": 3 * 33554432}]

    def cases(self, rng, tier):
        n = 400 if tier == "quick" else 20000
        out = []
        for _ in range(n):
            r = rng.random()
            if r < 0.15:
                hi = rng.choice([0, 63, 64, (1 << 32) - 1, 1 << 32, rng.randrange(1 << 32), rng.randrange(1 << 34)])
                lo = rng.choice([0, (1 << 14) - 1, 1 << 14, (1 << 32) - 1, rng.randrange(1 << 32)])
                out.append({"abs": (hi << 32) | lo})
            elif r < 0.55:
                d = rng.choice([0, 1, NTP_ERA_DAYS - 1, NTP_ERA_DAYS, NTP_ERA_DAYS + 1, rng.randrange(0, NTP_ERA_DAYS + 1),
                                rng.randrange(40000, 50000), rng.randrange(0, 70000)])
                s = rng.choice([0, 1, 23295, 23296, 86399, rng.randrange(86400)])
                m = rng.choice([0, 1, 499999, 500000, 999999, rng.randrange(1000000), rng.randrange(1000000)])
                out.append({"to": [d, s, m]})
            else:
                hi = rng.choice([0, 1, (1 << 32) - 1, (1 << 31), rng.randrange(1 << 32), rng.randrange(1 << 32)])
                lo = rng.choice([0, 1, (1 << 32) - 1, (1 << 31), 33554432 * rng.randrange(1, 128), rng.randrange(1 << 32),
                                 rng.randrange(1 << 32), (1 << 32) - rng.randrange(1, 5000)])
                out.append({"from": (hi << 32) | lo})
        return out

    def model_line(self, case):
        if "to" in case:
            return "ntp to " + " ".join(str(v) for v in case["to"])
        if "abs" in case:
            return f"ntp abs {case['abs']}"
        return f"ntp from {case['from']}"

    def impl(self, case):
        import datetime
        from aiortc import clock
        try:
            if "abs" in case:
                import types
                ntp = case["abs"]
                return f"ok {eval(_abs_send_time_code(), {'clock': types.SimpleNamespace(current_ntp_time=lambda: ntp)})}"
            if "to" in case:
                d, s, m = case["to"]
                return f"ok {clock.datetime_to_ntp(clock.NTP_EPOCH + datetime.timedelta(days=d, seconds=s, microseconds=m))}"
            delta = clock.datetime_from_ntp(case["from"]) - clock.NTP_EPOCH
            return f"ok {delta.days} {delta.seconds} {delta.microseconds}"
        except Exception as exc:
            return _exc_tag(exc)

    def oracle(self, case, impl_out):
        import datetime
        from aiortc import clock
        if not impl_out.startswith("ok "):
            return f"clock conversion of {case} raised {impl_out}"
        if "abs" in case:
            v = int(impl_out[3:])
            ntp = case["abs"]
            want = (((ntp >> 32) % 64) << 18) | ((ntp & (M32 - 1)) >> 14)
            if not 0 <= v < (1 << 24):
                return f"abs_send_time {v} for clock {ntp} does not fit the 24-bit header extension"
            if v != want:
                return f"abs_send_time {v} for clock {ntp} is not the 6.18 fixed-point time {want}"
            return None
        if "to" in case:
            d, s, m = case["to"]
            ntp = int(impl_out[3:])
            secs = d * 86400 + s
            if secs >= M32:
                return None                          # beyond the NTP era: no claim
            if ntp >> 32 != secs:
                return f"datetime_to_ntp: seconds word {ntp >> 32} != {secs} for delta {case['to']}"
            if (ntp & (M32 - 1)) != (m << 32) // 1000000:
                return f"datetime_to_ntp: fraction word {ntp & (M32 - 1)} is not floor({m} * 2^32 / 10^6)"
            back = clock.datetime_from_ntp(ntp) - clock.NTP_EPOCH
            if (back.days, back.seconds, back.microseconds) != (d, s, m):
                return f"datetime_from_ntp(datetime_to_ntp(x)) != x for delta {case['to']}: got {back}"
            return None
        d, s, m = (int(x) for x in impl_out[3:].split())
        ntp = case["from"]
        # nearest microsecond: |(d*86400+s)*10^6 + m  -  ntp*10^6/2^32| <= 1/2
        err2 = abs((((d * 86400 + s) * 1000000 + m) << 33) - 2 * ntp * 1000000)
        if err2 > M32:
            return f"datetime_from_ntp({ntp}) = {d}d {s}s {m}us is not the nearest microsecond"
        return None

    def label(self, case, impl_out):
        if "to" in case:
            d, s, m = case["to"]
            era = "era" if d * 86400 + s < M32 else "past-era"
            return f"to/{era}/" + ("us0" if m == 0 else "us-max" if m == 999999 else "us")
        if "abs" in case:
            return "abs/" + ("era" if case["abs"] < (1 << 64) else "past-era")
        lo = case["from"] & (M32 - 1)
        tie = (lo * 1000000 * 2) % M32 == 0 and (lo * 1000000) % M32 != 0
        return "from/" + ("tie" if tie else "carry" if lo * 1000000 * 2 + M32 >= 2 * M32 * 1000000 else "plain")

    def nontrivial(self, case, impl_out):
        return case.get("to", [1])[-1] != 0 or case.get("from", 0) != 0 or case.get("abs", 0) != 0

    def shrink(self, case):
        if "to" in case:
            d, s, m = case["to"]
            return [{"to": v} for v in ([d // 2, s, m], [d, s // 2, m], [d, s, m // 2], [d, 0, m], [d, s, 0]) if v != case["to"]]
        if "abs" in case:
            n = case["abs"]
            return [{"abs": v} for v in (n >> 1, n & (M32 - 1), n & ~(M32 - 1)) if v != n]
        n = case["from"]
        return [{"from": v} for v in (n >> 1, n & (M32 - 1), n & ~(M32 - 1)) if v != n]


def components(tier):
    return [Stats(), Receiver(), Info(), Ntp()]


def classify_finding(finding, comp_name, case, what):
    return False
