"""C19 — close() always completes, is idempotent and leaves nothing running.

Two components on REAL RTCPeerConnection pairs, each with a correspondence (the recorded lifecycle trace must be accepted by
the compiled Lean task-system model, Model/Close.lean, and the final public state must be the predicted one) and an oracle
(the property evaluated on the real objects alone):
  * `interleave` (harness/close_explore.py): a systematic interleaving explorer.  Every application call of a session
    (addTrack, createDataChannel, createOffer, setLocalDescription, setRemoteDescription, createAnswer, RTCRtpTransceiver.stop;
    before and after the pair is connected; either peer) is started as a task whose resumptions are counted, and close() -
    of the same peer, of the other peer, twice, of both - is issued once the call has passed k = 0, 1, 2, … suspension points;
    over bundle policies balanced / max-compat / max-bundle, media audio+video+datachannel in several creation orders, BUNDLE
    accepted or stripped, and over session HISTORIES (close_explore.HISTORIES): objects created after the remote side aborted its
    SCTP association / closed / lost its sockets, receivers that exist but were never started (follow-up offer not answered, answer
    sendonly / inactive, failed transport, transceiver stopped by the application).  The final oracle walks EVERY object the
    application ever obtained (every channel, the track of every transceiver, a consumer pending in recv() on every received
    track).  A failing case is shrunk to a minimal (configuration, call, k).
  * `shutdown` (harness/close_world.py): close() after n event-loop iterations of negotiation + establishment, after randomised
    delays on an established pair, on one or both sides, twice, after the remote side vanished, after a hostile remote killed the
    RTCP task.
"""
from __future__ import annotations

import json
import os

from harness.check import Component, case_key

LEAN_TARGETS = ["Aiortc.Props.C19"]
DRIVERS = ["Close"]
MANIFEST = {
    "technique": "Lean 4 proofs about an abstract task system (adversarial scheduler) mirroring RTCPeerConnection.close(), the "
                 "stop() handshakes of the objects it owns and the negotiation calls that mutate the transport sets concurrently + "
                 "trace acceptance and an implementation-side oracle on real RTCPeerConnection pairs: a systematic interleaving "
                 "explorer (close() after a call has passed k suspension points) and close() at every await boundary",
    "text": "Model/Close.lean: close latch, cancelled __connect tasks, ordered teardown, started/exited handshakes of _run_rtp/"
            "_run_rtcp, DTLS pump, ICE monitor, decoder thread, SCTP channels, auto-close. Props/C19.lean proves for ALL "
            "configurations and ALL schedules: every task step after close() strictly decreases a measure (close_terminates), "
            "a reachable closed state in which no guaranteed step is enabled is final (no_stuck), final states have "
            "signalling/ICE/connection state closed, every channel closed, every task and decoder thread finished, tracks ended, "
            "no listeners (after_close), a further close() only adds a waiter that returns (close_idempotent). Round 2: the BUNDLE "
            "clean-up of a setRemoteDescription() in flight (stop, then discard from the transport sets) and application stop() "
            "calls are tasks of the same system; close() works on a snapshot of the transports reachable from the transceivers and "
            "SCTP (close_stops_all_transports_present_at_snapshot, cleanup_stops_what_it_discards, final_transports); the variant "
            "that walks the live sets crashes on a concrete schedule (live_set_iteration_can_crash).",
    "note": "The model is of the tree with fixes/C19-*.patch applied (close() cancels and awaits the __connect tasks; negotiation "
            "calls re-check the closed latch after their awaits; RTCIceTransport.stop cancels aioice's pending checks; "
            "RTCRtpReceiver.stop ends the track of a receiver that never started; _run_rtcp always sets its exited event).",
    "design_ref": "DESIGN.md §2 C19",
}
ASSUMPTIONS = [
    "partial by nature: the theorems are about the protocol the code implements between its own awaits (Model/Close.lean); that "
    "the code implements this protocol is checked by trace acceptance on real pairs, not proved",
    "asyncio runs ready callbacks in FIFO order: the ICE monitor task, queued by RTCIceTransport.start(), has taken its first "
    "step before a later `Connection.close()` (which suspends in `protocol.close()`) emits ConnectionClosed; modelled as the "
    "guard `monitor ≠ queued` of the `connClosed` step (otherwise `_monitor` would spin in `get_event()`)",
    "cancellation is delivered: a task on which cancel() was called takes its next step (the CancelledError) in finite time; "
    "OpenSSL shutdown, socket closing inside aioice, the decoder thread's join and wall-clock bounds are runtime facts (oracle only)",
    "steps of the application and of the remote peer (further close() calls, negotiation calls, channel messages) are inputs: "
    "close_terminates bounds the task steps between inputs; an input after close() adds at most one step (a waiter's return)",
    "a BUNDLE clean-up only ever runs on a transport that was never started and that no m-section uses (guards of `nstep`, "
    "`assign`; accepted by every recorded trace); an application RTCRtpTransceiver.stop() is modelled by its effect on the tasks "
    "(`cancel` after `started`), its own handshake is the code already modelled for close()",
]
TRUSTED_EXTRA = [
    "the harness translation of recorded events into model actions (harness/close_world.py: task factory, wrappers, sync of the "
    "object graph); aioice internals (candidate checks, consent task, sockets) are outside the model and judged by the oracle only",
    "SCTP internals are abstracted to the channel states and the CLOSED transition of RTCSctpTransport.stop (C13 covers them)",
]
RULE_X = ("interleave: case = (bundle policy, media kinds in creation order, BUNDLE accepted?, history family, call = [peer, op, nth], "
          "k = suspension points the call has passed when close() is issued, closer = same | other | same2 | both); quick: the calls "
          "that mutate the transport sets (setRemoteDescription / setLocalDescription of both peers) x k = 0..4 on 4 configurations "
          "+ 40 sampled (call, k, closer) over every call of the plain script + ~48 systematic session histories (things created "
          "after the remote aborted the association / closed / lost its sockets; follow-up offer not answered; answerer sendonly / "
          "inactive / recvonly; wrong DTLS fingerprint; transceivers stopped by the application before / after connecting; the remote "
          "SCTP stack sending SHUTDOWN / SHUTDOWN-ACK / SHUTDOWN-COMPLETE / ABORT / ERROR / HEARTBEAT / RE-CONFIG; a late authenticated "
          "STUN request from an unsignalled address); "
          "thorough: 30 configurations x those calls x every k x every closer + 600 sampled + every history family x 3 policies x "
          "BUNDLE on/off x every closer + 400 random longer histories. ")
RULE = (RULE_X + "shutdown: case = (media configuration of the two peers, media/data flowing or not, BUNDLE kept or stripped, order of the "
        "negotiation calls, closers [(peer, loop iteration n or settle+delay, single | twice-concurrent | twice-staggered | "
        "twice-seq)], fault none | remote-gone | many-ssrc); quick: 3 instants for every configuration x flow x bundle + 20 settled + 4 faults; "
        "thorough: every 2nd (3rd with media flowing) loop iteration of negotiation + establishment for every configuration, random phase, + 300 settled + 40 faults; distinct = distinct case")

CFGS = ["dc", "audio", "audio+video", "audio+video+dc", "audio-recv|audio", "dc|audio+dc"]
ITER_SPAN = {"dc": 75, "audio": 135, "audio+video": 160, "audio+video+dc": 230, "audio-recv|audio": 135, "dc|audio+dc": 80}
MODES = ["single", "twice-concurrent", "twice-staggered", "twice-seq"]


# ----------------------------------------------------------------------------------------------------
# the property on the implementation


def judge(res):
    """None, or what violates C19 in the observed run"""
    bad = []
    closes = res["closes"]
    if not closes:
        return "no close() call completed"
    for c in closes:
        who = f"close() #{c['label']} on peer {c['peer']}"
        if c["exc"] == "timeout":
            bad.append(f"{who} did not complete")
            continue
        if c["exc"]:
            bad.append(f"{who} raised {c['exc']}")
            continue
        s = c["snap"]
        if s["live_tasks"]:
            bad.append(f"{who} returned while tasks of the connection are still running: {','.join(s['live_tasks'])}")
        if s["other_tasks"]:
            bad.append(f"{who} returned while ICE/SCTP tasks of the connection are still running: {','.join(s['other_tasks'])}")
        if s["threads"]:
            bad.append(f"{who} returned while decoder threads are alive: {','.join(s['threads'])}")
        if (s["signaling"], s["ice"], s["conn"]) != ("closed", "closed", "closed"):
            bad.append(f"{who} returned with states signaling={s['signaling']} ice={s['ice']} connection={s['conn']}")
        if any(x != "closed" for x in s["channels"]):
            bad.append(f"{who} returned with data channels {s['channels']}")
    for p, f in enumerate(res["final"]):
        if f is None:
            bad.append(f"peer {p}: close() never returned")
            continue
        who = f"peer {p} after close()"
        if f["live_tasks"] or f["other_tasks"]:
            bad.append(f"{who}: tasks still running: {','.join(f['live_tasks'] + f['other_tasks'])}")
        if f["timers"]:
            bad.append(f"{who}: timers still armed: {','.join(f['timers'])}")
        if f["threads"]:
            bad.append(f"{who}: threads still alive: {','.join(f['threads'])}")
        if (f["signaling"], f["ice"], f["conn"]) != ("closed", "closed", "closed"):
            bad.append(f"{who}: states signaling={f['signaling']} ice={f['ice']} connection={f['conn']}")
        if any(x != "closed" for x in f["channels"]):
            bad.append(f"{who}: data channels {f['channels']}")
        if not all(f["tracks_ended"]):
            bad.append(f"{who}: a received track never ends (recv() blocks)")
        if f["events_after_close"]:
            bad.append(f"{who}: events fired: {','.join(f['events_after_close'])}")
        if f["listeners_at_return"]:
            bad.append(f"{who}: {f['listeners_at_return']} listeners left")
        if f["reclose"] != "ok" or f["reclose_changed"] or f["reclose_iters"] > 2:
            bad.append(f"{who}: a repeated close() is not a no-op ({f['reclose']}, changed={f['reclose_changed']}, "
                       f"{f['reclose_iters']} loop iterations)")
    if res["foreign"]:
        bad.append("tasks of aiortc/aioice code still running: " + ",".join(res["foreign"]))
    for n in res["notes"]:
        if n == "negotiated" or n.startswith("negotiation raised InvalidStateError"):
            continue
        bad.append(n)
    return "; ".join(bad[:4]) if bad else None


# ----------------------------------------------------------------------------------------------------
# running cases (process pool; real time is involved: a run that does not finish is re-run before it is reported)


def judge_explore(res):
    """the property on the real objects after an explorer case (public behaviour only; nothing here depends on a name inside
    aiortc: tasks / threads / sockets are judged as "created since the pair was built and still there")"""
    if res.get("void"):
        return None
    bad = []
    closes = res["closes"]
    for c in closes:
        who = f"close() #{c['label']} on peer {c['peer']}"
        if c["exc"] == "timeout":
            bad.append(f"{who} did not complete")
        elif c["exc"]:
            bad.append(f"{who} raised {c['exc']}")
        else:
            s = c["snap"]
            if (s["signaling"], s["ice"], s["conn"]) != ("closed", "closed", "closed"):
                bad.append(f"{who} returned with states signaling={s['signaling']} ice={s['ice']} connection={s['conn']}")
            if any(x != "closed" for x in s["channels"]):
                bad.append(f"{who} returned with data channels {s['channels']}")
            if not res.get("broken") and (s["live_tasks"] or s["other_tasks"] or s["threads"]):
                bad.append(f"{who} returned while tasks/threads of the connection are still running: "
                           f"{','.join(s['live_tasks'] + s['other_tasks'] + s['threads'])}")
    for p, f in enumerate(res["final"]):
        who = f"peer {p} after close()"
        if not f["returned"]:
            bad.append(f"peer {p}: close() never returned")
        if (f["signaling"], f["ice"], f["conn"]) != ("closed", "closed", "closed"):
            bad.append(f"{who}: states signaling={f['signaling']} ice={f['ice']} connection={f['conn']}")
        if any(x != "closed" for x in f["channels"]):
            bad.append(f"{who}: data channels {f['channels']}")
        if f.get("pending_recv"):
            bad.append(f"{who}: a consumer pending in track.recv() is never released ({','.join(f['pending_recv'])} track stays live)")
        elif not all(f["tracks_ended"]):
            bad.append(f"{who}: a received track never ends (recv() blocks)")
        if f["events_after_close"]:
            bad.append(f"{who}: events fired: {','.join(f['events_after_close'])}")
        if f["reclose"] != "ok":
            bad.append(f"{who}: a further close() " + ("never returns" if f["reclose"] == "timeout" else "raised " + f["reclose"]))
        elif f["reclose_changed"] or f["reclose_iters"] > 2:
            bad.append(f"{who}: a further close() is not a no-op (changed={f['reclose_changed']}, {f['reclose_iters']} iterations)")
    if res["left_tasks"]:
        bad.append("tasks still running after both connections were closed: " + ",".join(res["left_tasks"]))
    if res["left_threads"]:
        bad.append("threads still alive: " + ",".join(res["left_threads"]))
    if res["left_timers"]:
        bad.append("timers still armed: " + ",".join(res["left_timers"]))
    if res["left_sockets"] and not gather_leak(res):
        bad.append(f"{res['left_sockets']} sockets still open")
    if res.get("call_exc") not in (None, "InvalidStateError"):
        bad.append(f"the interrupted call raised {res['call_exc']}")
    bad.extend(res["notes"])
    return "; ".join(bad[:4]) if bad else None


def gather_leak(res):
    """KNOWN on the pinned tree (notes/C19.md, fixes/C19-gather-after-close.patch proposes the repair): close() during
    setLocalDescription()'s candidate gathering - aioice goes on gathering after Connection.close() and the sockets it opens
    then are never closed.  Reported in the labels ("+gather-leak"), not as a verdict, unless C19_STRICT_SOCKETS=1."""
    if os.environ.get("C19_STRICT_SOCKETS") == "1":
        return False
    call = res.get("case_call") or [None, "", 0]
    fired = res.get("fired") or [0, True]
    return bool(res.get("left_sockets")) and call[1] == "setLocal" and not fired[1]


def judge_any(case, res):
    return judge_explore(res) if case.get("x") else judge(res)


def _run(case):
    try:
        if case.get("x"):
            from harness import close_explore
            res = close_explore.run_explore(case)
        else:
            from harness import close_world
            res = close_world.run_case(case)
    except (KeyboardInterrupt, SystemExit):
        raise
    except BaseException as exc:  # noqa: BLE001 - (a CancelledError escaping the run must not kill the pool worker)
        return {"harness_exc": type(exc).__name__ + ": " + str(exc)[:300]}
    return res


def _pool_run(case):
    res = _run(case)
    if "harness_exc" in res:
        res = _run(case)
        return res
    why = judge_any(case, res)
    if why and "raised" in why.split(";")[0]:
        return res      # an exception escaping close() is no timing noise: no need to see it twice
    if why:
        # re-run (twice; explorer cases once): only a failure that shows up again is reported (timing noise of a loaded machine)
        for _ in range(1 if case.get("x") else 2):
            res2 = _run(case)
            if "harness_exc" in res2:
                continue
            if judge_any(case, res2) is None:
                return res2
            res = res2
    return res


def _quiet_worker():
    """pool workers: the chatter of asyncio / av about tasks and decoders torn down mid-flight is not a result"""
    devnull = os.open(os.devnull, os.O_WRONLY)
    os.dup2(devnull, 2)


def _warm():
    """import everything and freeze the heap before forking (the first run in a fresh process costs seconds otherwise)"""
    import gc
    from harness import close_world
    # (no media flowing here: a codec / executor thread of the parent that holds a lock of libav at the moment of the fork
    # leaves the children dead-locked in their first decode())
    close_world.run_case({"cfg": "audio+video+dc", "flow": False, "closers": [{"peer": 0}], "settle_ms": 100})
    import aiortc.codecs  # noqa: F401
    gc.freeze()


class Shutdown(Component):
    name = "shutdown"
    theorems = ["close_terminates", "close_run_bounded", "no_stuck", "after_close", "close_idempotent", "inv_reachable"]

    def __init__(self):
        self._cache = {}
        self._batch = []

    def corpus(self):
        return [
            # defect #20: close() 1..30 loop iterations after negotiation left __connect (and an aioice task) running
            {"cfg": "dc", "closers": [{"peer": 0, "at": 39}]},
            {"cfg": "dc", "closers": [{"peer": 0, "at": 45}]},
            {"cfg": "dc", "closers": [{"peer": 0, "at": 35}, {"peer": 1, "at": 36}]},
            # close() concurrent with setRemoteDescription: signalingState was reset after close
            {"cfg": "dc", "closers": [{"peer": 0, "at": 29}]},
            {"cfg": "audio", "closers": [{"peer": 1, "at": 12}]},
            # receiver never started: its track never ended
            {"cfg": "audio", "closers": [{"peer": 0, "at": 36}]},
            # a remote using >= 256 SSRCs kills the receiver's RTCP task: stop() waited for ever
            {"cfg": "audio", "flow": True, "closers": [{"peer": 0}], "settle_ms": 300, "fault": "many-ssrc", "fault_wait_ms": 1700},
            # established, media and data flowing, both sides close at once, one of them twice
            {"cfg": "audio+video+dc", "flow": True, "settle_ms": 400,
             "closers": [{"peer": 0, "mode": "twice-concurrent"}, {"peer": 1}]},
            {"cfg": "audio+video+dc", "flow": True, "bundle": False, "settle_ms": 300, "closers": [{"peer": 1, "mode": "twice-seq"}]},
            # the remote side has gone away
            {"cfg": "audio+dc", "flow": True, "settle_ms": 300, "fault": "remote-gone", "closers": [{"peer": 0}]},
            # sockets died underneath a sending connection: `sendto` raises AttributeError inside the sender's _run_rtcp
            {"cfg": "audio+video+dc", "flow": True, "settle_ms": 300, "fault": "remote-gone", "fault_wait_ms": 0,
             "closers": [{"peer": 0, "mode": "twice-seq"}]},
            # the remote closes first; the local side closes itself (auto-close) while the application calls close() too
            {"cfg": "dc", "settle_ms": 300, "closers": [{"peer": 0}, {"peer": 1, "delay_ms": 3}]},
        ]

    def cases(self, rng, tier):
        out = []
        quick = tier == "quick"
        # (1) close() after n loop iterations of negotiation + establishment
        for cfg in CFGS:
            span = ITER_SPAN[cfg]
            for flow in (False, True):
                for bundle in (True, False):
                    if not bundle and "+" not in cfg.split("|")[-1]:
                        continue
                    if quick:
                        pts = sorted(rng.sample(range(1, span), 3))
                    else:
                        pts = list(range(1 + rng.randrange(2), span, 3 if flow else 2))
                    for n in pts:
                        mode = rng.choice(MODES) if rng.random() < 0.4 else "single"
                        cl = [{"peer": rng.randrange(2), "at": n, "mode": mode}]
                        if mode != "single":
                            cl[0]["gap"] = rng.randrange(1, 6)
                        r = rng.random()
                        if r < 0.3:
                            cl.append({"peer": 1 - cl[0]["peer"], "at": max(1, n + rng.randrange(-3, 4))})
                        case = {"cfg": cfg, "flow": flow, "bundle": bundle, "closers": cl}
                        if rng.random() < 0.25:
                            case["order"] = rng.choice(["remote-first", "answer-race"])
                        out.append(case)
        # (2) established connections: randomised delays, every mode, both sides
        n2 = 20 if quick else 300
        for _ in range(n2):
            cfg = rng.choice(CFGS)
            cl = [{"peer": rng.randrange(2), "mode": rng.choice(MODES), "delay_ms": rng.choice([0, 0, 1, 3, 10, 40]),
                   "gap": rng.randrange(1, 8)}]
            if rng.random() < 0.5:
                cl.append({"peer": 1 - cl[0]["peer"], "delay_ms": rng.choice([0, 0, 1, 2, 5, 20, 60])})
            case = {"cfg": cfg, "flow": rng.random() < 0.6, "bundle": rng.random() < 0.7, "closers": cl,
                    "settle_ms": rng.choice([0, 20, 100, 300])}
            out.append(case)
        # (3) faults: the remote side has gone away / a hostile remote killed the RTCP task
        n3 = 4 if quick else 40
        for i in range(n3):
            cfg = rng.choice(["audio", "audio+video+dc", "audio+dc"])
            if i % 3 == 2:
                out.append({"cfg": cfg, "flow": True, "settle_ms": 200, "fault": "many-ssrc", "fault_wait_ms": 1700,
                            "closers": [{"peer": 0, "mode": rng.choice(MODES)}]})
            else:
                out.append({"cfg": cfg, "flow": rng.random() < 0.7, "settle_ms": rng.choice([100, 300]), "fault": "remote-gone",
                            "fault_wait_ms": rng.choice([0, 20, 200]), "closers": [{"peer": 0, "mode": rng.choice(MODES)}]})
        self._batch = list(self.corpus()) + out
        return out

    # ---- evaluation with a process pool -------------------------------------------------------------
    def _fill(self):
        todo = [c for c in self._batch if case_key(c) not in self._cache]
        self._batch = []
        if not todo:
            return
        from harness import core
        core.use_repo()
        import multiprocessing as mp
        nproc = min(12, os.cpu_count() or 1, max(1, len(todo) // 4))
        if nproc <= 1:
            results = [_pool_run(c) for c in todo]
        else:
            _warm()
            # heavy cases first, so that the pool drains evenly
            order = sorted(range(len(todo)), key=lambda i: -(("video" in str(todo[i].get("cfg", todo[i].get("media")))) * 2
                                                               + bool(todo[i].get("flow"))))
            with mp.get_context("fork").Pool(nproc, initializer=_quiet_worker) as pool:
                res = pool.map(_pool_run, [todo[i] for i in order], chunksize=1)
            results = [None] * len(todo)
            for i, r in zip(order, res):
                results[i] = r
        for c, r in zip(todo, results):
            self._cache[case_key(c)] = r

    def _get(self, case):
        k = case_key(case)
        if k not in self._cache:
            if self._batch:
                self._fill()
            if k not in self._cache:
                from harness import core
                core.use_repo()
                self._cache[k] = _pool_run(case)
        r = self._cache[k]
        if "harness_exc" in r:
            # harness-side failure: never a verdict (check.py turns the exception into exit 2)
            raise RuntimeError("harness failure on " + json.dumps(case) + ": " + r["harness_exc"])
        return r

    def impl_many(self, cases):
        return [self.impl(c) for c in cases]

    def impl(self, case):
        r = self._get(case)
        return "|".join("ok " + s for s in r["summary"])

    def model_line(self, case):
        r = self._get(case)
        if r.get("void"):
            return None
        if r.get("broken"):
            return "close broken " + r["broken"].replace(" ", "_")
        return "close run " + "|".join(";".join(t) or "-" for t in r["trace"])

    def oracle(self, case, impl_out):
        return judge_any(case, self._get(case))

    def label(self, case, impl_out):
        r = self._get(case)
        cl = case["closers"]
        when = "iter" if cl[0].get("at") is not None else "settled"
        phase = "neg" if "negotiated" not in r["notes"] else "est"
        who = "both" if len({c["peer"] for c in cl}) > 1 else "one"
        return f"{case['cfg']}:{when}:{phase}:{who}:{cl[0].get('mode', 'single')}" + (":" + case["fault"] if case.get("fault") else "")

    def nontrivial(self, case, impl_out):
        return True

    def shrink(self, case):
        cl = case["closers"]
        if len(cl) > 1:
            for i in range(len(cl)):
                yield dict(case, closers=cl[:i] + cl[i + 1:])
        for i, c in enumerate(cl):
            if c.get("mode", "single") != "single":
                yield dict(case, closers=cl[:i] + [dict(c, mode="single")] + cl[i + 1:])
        if case.get("flow"):
            yield dict(case, flow=False)
        if case.get("order"):
            yield {k: v for k, v in case.items() if k != "order"}
        if case.get("bundle") is False:
            yield dict(case, bundle=True)
        if case["cfg"] not in ("dc", "audio"):
            yield dict(case, cfg="audio")
            yield dict(case, cfg="dc")


EX_MEDIA = [["audio", "video"], ["audio", "video", "dc"], ["dc", "audio", "video"], ["audio", "dc"], ["dc"]]
EX_KMAX = {"setLocal": 3, "setRemote": 7, "trxStop": 4}


class Explore(Shutdown):
    """systematic interleavings: close() after a negotiation call has passed k suspension points (harness/close_explore.py)"""
    name = "interleave"
    theorems = ["close_terminates", "no_stuck", "no_stuck_cleanups", "after_close", "tset_spec",
                "close_stops_all_transports_present_at_snapshot", "cleanup_stops_what_it_discards",
                "cleanup_disjoint_from_snapshot", "final_transports", "live_set_iteration_can_crash",
                "snapshot_survives_the_same_schedule"]

    def corpus(self):
        return [
            # seeded C19-r2-close-iterates-transport-sets: close() walking the transport *sets* while setRemoteDescription(answer)
            # discards the bundled-away transport from them
            {"x": 1, "policy": "balanced", "media": ["audio", "video"], "bundle": True, "call": [0, "setRemote", 0], "k": 0,
             "closer": "same"},
            {"x": 1, "policy": "balanced", "media": ["audio", "video", "dc"], "bundle": True, "call": [0, "setRemote", 0], "k": 1,
             "closer": "same2"},
            # round 4, seed sctp-stop-early-when-closed: a channel created after the remote aborted the association
            {"x": 1, "policy": "balanced", "media": ["dc"], "bundle": True, "hist": "abort", "call": [0, "add:dc", 1], "k": 9,
             "closer": "same"},
            # round 4, seed receiver-stop-only-before-connected: a never-started receiver on a connected / failed transport
            {"x": 1, "policy": "balanced", "media": ["audio"], "bundle": True, "hist": "reoffer", "extra": "video",
             "call": [1, "setRemote", 1], "k": 9, "closer": "same"},
            {"x": 1, "policy": "balanced", "media": ["audio"], "bundle": True, "hist": "dir", "dir": "sendonly",
             "call": [0, "nop", 0], "k": 9, "closer": "both"},
            # round 5, seed sctp-stop-early-in-shutdown: the peer's SCTP stack sends SHUTDOWN, close() before SHUTDOWN COMPLETE
            {"x": 1, "policy": "balanced", "media": ["dc"], "bundle": True, "hist": "sctpinject", "inj": "shutdown",
             "stage": "open", "steps": 2, "call": [0, "yield", 0], "k": 9, "closer": "same"},
            # round 5, seed ice-stop-leaves-late-check: a connectivity check aioice starts after ICE completed
            {"x": 1, "policy": "balanced", "media": ["dc"], "bundle": True, "hist": "latestun", "steps": 2,
             "call": [1, "yield", 0], "k": 9, "closer": "same"},
            # transceiver.stop() by the application racing close()
            {"x": 1, "policy": "max-bundle", "media": ["dc", "audio", "video"], "bundle": True, "call": [0, "trxStop", 0], "k": 1,
             "closer": "same"},
        ]

    def cases(self, rng, tier):
        from harness import close_explore as X
        quick = tier == "quick"
        out = []
        # (1) systematic core: the calls that mutate the transport sets, every k, on the configurations with teardown work
        core_cfgs = [("balanced", ["audio", "video"], True), ("balanced", ["audio", "video", "dc"], True),
                     ("max-compat", ["audio", "video", "dc"], True), ("max-bundle", ["dc", "audio", "video"], True)]
        if not quick:
            core_cfgs = [(p, m, b) for p in X.POLICIES for m in EX_MEDIA for b in (True, False)]
        for (pol, media, bundle) in core_cfgs:
            for desc in ([0, "setRemote", 0], [1, "setRemote", 0], [0, "setLocal", 0], [1, "setLocal", 0]):
                for k in range(0, EX_KMAX[desc[1]] + 1 if not quick else min(5, EX_KMAX[desc[1]] + 1)):
                    closers = ["same"] if quick and k > 1 else (["same", "same2"] if quick else list(X.CLOSERS))
                    for cl in closers:
                        out.append({"x": 1, "policy": pol, "media": media, "bundle": bundle, "call": desc, "k": k, "closer": cl})
        # (2) every call of the script x k x closer, sampled
        n = 40 if quick else 600
        for i in range(n):
            pol = rng.choice(X.POLICIES)
            media = rng.choice(EX_MEDIA)
            cfg = {"policy": pol, "media": media, "bundle": rng.random() < 0.7}
            calls = X.all_calls(cfg)
            # after-connected calls cost seconds (the pair has to connect first): a few of them in the quick tier
            first_late = next((j for j, c in enumerate(calls) if c[1] == "trxStop" or (c[1] == "add:dc" and c[0] == 0 and c[2] > 0)
                               or (c[1] == "add:dc" and "dc" not in media)), len(calls))
            late = rng.random() < (0.15 if quick else 0.3)
            pool_ = calls[first_late:] if late and first_late < len(calls) else calls[:first_late]
            desc = rng.choice(pool_)
            kmax = EX_KMAX.get(desc[1], 1)
            out.append(dict(cfg, x=1, call=desc, k=rng.randrange(0, kmax + 1), closer=rng.choice(X.CLOSERS)))
        # (3) session histories: things created after the remote side went away / after the association died, and objects that
        # exist but were never started when close() comes - small systematic families (always), random longer ones (thorough)
        out += self.histories(rng, tier)
        # de-duplicate
        seen = set()
        uniq = []
        for c in out:
            key = case_key(c)
            if key not in seen:
                seen.add(key)
                uniq.append(c)
        self._batch = list(self.corpus()) + uniq
        return uniq

    def histories(self, rng, tier):
        from harness import close_explore as X
        quick = tier == "quick"
        out = []

        def fam(hist, media, closers, ks=(9,), call=None, **kw):
            for pol in (("balanced",) if quick else X.POLICIES):
                for bundle in ((True,) if quick else (True, False)):
                    cfg = dict(policy=pol, media=media, bundle=bundle, hist=hist, **kw)
                    desc = call or X.all_calls(cfg)[-1]
                    for k in ks:
                        for cl in closers:
                            out.append(dict(cfg, x=1, call=desc, k=k, closer=cl))
        every = list(X.CLOSERS)
        avd = ["audio", "dc"] if quick else ["audio", "video", "dc"]       # (video costs seconds per case: thorough only)
        av = ["audio", "dc"] if quick else ["audio", "video"]
        # the association is aborted by the remote (its sctp.stop()), the local connection stays up and creates things
        fam("abort", ["dc"], ["same", "both"] if quick else every)
        fam("abort", ["audio", "dc"], ["same"], ks=(0, 9), after=["dc", "audio", "offer"])
        for after in (["audio"], ["offer"], ["dc", "dc"]):
            fam("abort", ["audio", "dc"], ["same"] if quick else every, after=after)
        # the remote closes; the application re-creates its channel from the `close` handler, then the connection closes
        fam("abortclose", ["dc"], ["other"], ks=range(0, 6))
        fam("abortclose", ["audio", "dc"], ["other"] if quick else ["other", "both"], ks=(1, 3) if quick else range(0, 8))
        # a follow-up offer adding a section is applied and never answered: receivers that were never started
        for extra in ("video", "audio", "dc"):
            fam("reoffer", ["audio"], ["same", "both"] if quick else every, ks=(0, 9) if quick else (0, 1, 2, 9), extra=extra)
        fam("reoffer", avd, ["same"] if quick else every, extra="audio")
        # the answerer restricts a direction: a receiver with a track that is never started on a transport that connects
        for d in ("sendonly", "inactive", "recvonly"):
            fam("dir", ["audio"], ["both"] if quick else every, dir=d)
        fam("dir", avd, ["same", "other"] if quick else every, dir="sendonly")
        # wrong fingerprint: the transport fails with remote tracks present
        fam("badfp", ["audio"], ["both", "same"] if quick else every)
        fam("badfp", ["audio", "dc"], ["both"] if quick else every)
        # the remote's sockets died; the local application goes on creating things
        for after in (["dc"], ["audio"], ["offer"], ["dc", "audio", "offer"]):
            fam("gone", ["audio", "dc"], ["same"] if quick else every, after=after)
        # transceivers stopped by the application
        fam("stopped", av, ["both", "same"] if quick else every)
        fam("stopearly", ["audio"], ["same", "both"] if quick else every)
        fam("stopearly", avd, ["same"] if quick else every)
        # after ICE completed an authenticated STUN request arrives from an address nobody signalled: a late triggered check
        for media in (["dc"], ["audio"]) if quick else (["dc"], ["audio"], ["audio", "video", "dc"]):
            for steps in ((0, 2) if quick else (0, 1, 2, 4, 8)):
                fam("latestun", media, ["same"] if quick else ["same", "both", "same2"], steps=steps)
        # the remote SCTP stack does something aiortc's own never does (a chunk injected through the remote's real transport)
        for inj in X.INJECTS:
            fam("sctpinject", ["dc"], ["same"] if quick else ["same", "both", "same2"], inj=inj, stage="open",
                steps=0)
            for steps in ((2,) if quick else (1, 2, 3, 5, 8)):
                fam("sctpinject", ["dc"], ["same"], inj=inj, stage="open", steps=steps)
            fam("sctpinject", ["dc"] if quick else ["audio", "dc"], ["same"], inj=inj, stage="early", steps=1)
        if not quick:
            for _ in range(400):
                hist = rng.choice(X.HISTORIES[1:])
                media = rng.choice([["audio"], ["audio", "dc"], ["audio", "video"], ["audio", "video", "dc"], ["dc", "audio"]])
                if hist in ("sctpinject", "latestun"):
                    continue
                if hist in ("abort", "abortclose") and "dc" not in media:
                    media = media + ["dc"]
                cfg = dict(policy=rng.choice(X.POLICIES), media=media, bundle=rng.random() < 0.7, hist=hist)
                if hist == "dir":
                    cfg["dir"] = rng.choice(["sendonly", "inactive", "recvonly"])
                if hist == "reoffer":
                    cfg["extra"] = rng.choice(["audio", "video", "dc"])
                if hist in ("abort", "gone"):
                    cfg["after"] = [rng.choice(["dc", "audio", "video", "offer"]) for _ in range(rng.randrange(1, 4))]
                calls = X.all_calls(cfg)
                desc = calls[-1] if rng.random() < 0.6 else rng.choice(calls[max(0, len(calls) - 5):])
                out.append(dict(cfg, x=1, call=desc, k=rng.choice([0, 1, 2, 3, 9]), closer=rng.choice(every)))
        return out

    def label(self, case, impl_out):
        r = self._get(case)
        if case.get("hist"):
            if r.get("void"):
                return "void:" + case["hist"]
            extra = case.get("dir") or case.get("extra") or case.get("inj") or "+".join(case.get("after", []))
            if case.get("inj"):
                extra += "@" + case.get("stage", "open")
            return f"{case['hist']}:{extra}:{case['call'][1]}@{case['call'][0]}:{case['closer']}"
        if r.get("void"):
            return "void:" + r["void"].split(" raised")[0][:30]
        fired = r.get("fired") or [0, True]
        when = "end" if fired[1] else "k%d" % (fired[0] - 1)
        return (f"{case['policy']}:{case['call'][1]}@{case['call'][0]}:{when}:{case['closer']}"
                + ("+gather-leak" if gather_leak(r) else ""))

    def nontrivial(self, case, impl_out):
        r = self._get(case)
        return not r.get("void")

    def shrink(self, case):
        # minimal (configuration, call, k): fewer suspension points first, then one closer, then a smaller configuration
        ks = range(0, min(case["k"], 8)) if not case.get("hist") else sorted({0, case["k"] // 2} - {case["k"]})
        for k in ks:
            yield dict(case, k=k)
        if case.get("steps"):
            yield dict(case, steps=0)
        if len(case.get("after", [])) > 1:
            for i in range(len(case["after"])):
                yield dict(case, after=case["after"][:i] + case["after"][i + 1:])
        if case["closer"] != "same":
            yield dict(case, closer="same")
        media = case["media"]
        for i in range(len(media)):
            if len(media) > 1:
                yield dict(case, media=media[:i] + media[i + 1:])
        if case["policy"] != "balanced":
            yield dict(case, policy="balanced")
        if not case.get("bundle", True):
            yield dict(case, bundle=True)


def components(tier):
    # the explorer first: its failing inputs are the minimal (configuration, call, k) ones and cheap to shrink
    return [Explore(), Shutdown()]


def classify_finding(finding, comp_name, case, what):
    return False
