#!/bin/bash
# re-run every seeded change against the current checks (tests are re-used from the recorded run of the same patch)
cd /verif
for d in seeded/*/; do
  name=$(basename $d); prop=${name%%-*}; slug=${name#*-}
  [ -n "$1" ] && [[ "$prop" != $1 ]] && continue
  timeout 1800 /venv/bin/python -m harness.seedtest /verif/$d $prop --name $slug --reuse-tests --skip-tests 2>&1 | python3 -c "
import sys,json
t=sys.stdin.read()
try:
    i=t.index('{'); d=json.loads(t[i:])
    print('$name', 'applies' if d['patch_applies'] else 'NOAPPLY', 'tests',d['repo_tests_pass'],'caught',d['caught'],'concrete',d['concrete_failing_input'],'|',str(d['replay_what'])[:110])
except Exception as e:
    print('$name ERR', t[-200:].replace(chr(10),' '))
"
done
echo REFRESH-DONE
