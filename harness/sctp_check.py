"""Shared check component for the SCTP properties (C01, C02, C06, C13, C17-2): a *world* case is a
recorded schedule over two REAL endpoints (harness/sctp_world.py).  impl() runs it and returns the
per-endpoint traces; the Lean endpoint automaton replays each endpoint's inputs (datagrams as raw
bytes) and must produce the same outputs step by step; oracles evaluate the property on the real run."""
from __future__ import annotations

import collections
import json
import multiprocessing
import os
import random
import warnings

from harness.check import Component, case_key
from harness import sctp_common as C
from harness import sctp_world as W

warnings.simplefilter("ignore", RuntimeWarning)


# ---------------------------------------------------------------------------------------------
# channel parameter generators
# ---------------------------------------------------------------------------------------------

LABELS = ["", "chat", "héllo→", "prötø", "日本語ラベル", "🙂🙃", "a" * 40, "x y", "ࠀ￿", "\U00010000z"]


def p_reliable(rng, w, name):
    return dict(label=rng.choice(LABELS), protocol=rng.choice(["", "p", "π", "sub.proto"]), ordered=rng.random() < 0.7)


def p_rexmit(rng, w, name):
    return dict(label=rng.choice(LABELS), ordered=rng.random() < 0.6, maxRetransmits=rng.choice([0, 0, 1, 3]))


def p_timed(rng, w, name):
    # lifetimes are never multiples of 125 ms (see Model/Sctp/Outbound.lean: exact expiry comparison)
    return dict(label=rng.choice(LABELS), ordered=rng.random() < 0.6, maxPacketLifeTime=rng.choice([1, 100, 2001, 0]))


def p_negotiated(rng, w, name):
    # small ids sit where the automatic allocation of in-band channels starts (0/1, 2/3, ...): two taken ids in a row must be skipped
    return dict(label="neg", negotiated=True, id=rng.choice([0, 1, 2, 3, 4, 5, 10, 11, 12, 200]), ordered=rng.random() < 0.7)


def p_negotiated_low(rng, w, name):
    # out-of-band channels on the very ids the automatic allocation hands out first
    return dict(label="negl", negotiated=True, id=rng.choice([0, 1, 2, 3]), ordered=True)


def p_explicit_id(rng, w, name):
    # explicit ids respect the odd/even convention of the side that opens the channel
    return dict(label="id", id=rng.choice([21, 23] if name == "A" else [20, 22]), ordered=True)


PROFILES = {
    # name: (weight, profile)
    "reliable": dict(loss=0.15, dup=0.03, reorder=0.3, chan_params=[p_reliable], channels=4, close=False, react=0.03),
    "reliable-heavy-loss": dict(loss=0.4, dup=0.1, reorder=0.5, chan_params=[p_reliable], channels=3, close=False,
                                sizes=[0, 1, 1200, 1201, 5000, 20000]),
    "reorder-frag": dict(loss=0.05, dup=0.05, reorder=0.7, chan_params=[p_reliable], channels=2, close=False,
                         sizes=[2500, 3000, 5000, 1201, 10], stash=0.08),
    "clean": dict(loss=0.0, dup=0.0, reorder=0.0, chan_params=[p_reliable], channels=3, close=False, fire=0.0),
    "mixed-pr": dict(loss=0.2, dup=0.03, reorder=0.3, chan_params=[p_reliable, p_rexmit, p_timed], channels=5, close=False,
                     sizes=[0, 1, 100, 1200, 1201, 5000, 20000], react=0.02),
    "hostile": dict(loss=0.05, dup=0.02, reorder=0.2, chan_params=[p_reliable, p_rexmit], channels=4, close=True,
                    hostile=0.25, sizes=[0, 1, 100, 1200, 3000]),
    "hostile-benign": dict(loss=0.05, dup=0.02, reorder=0.2, chan_params=[p_reliable, p_rexmit], channels=4, close=False,
                           hostile=0.25, forging=False, sizes=[0, 1, 100, 1200, 3000]),
    "neg-low": dict(loss=0.05, dup=0.02, reorder=0.2, chan_params=[p_negotiated_low, p_negotiated_low, p_reliable], channels=6,
                    close=False, sizes=[0, 1, 10, 1200, 3000]),
    "lifecycle": dict(loss=0.1, dup=0.02, reorder=0.2, chan_params=[p_reliable, p_rexmit, p_negotiated, p_explicit_id],
                      channels=6, close=True, sizes=[0, 1, 10, 1200, 3000], react=0.04),
}


def make_case(rng, profile_name, steps, wrap=False):
    prof = PROFILES[profile_name]
    if wrap:
        tsnA = (2**32 - rng.randrange(1, 40)) % 2**32
        tsnB = (2**32 - rng.randrange(1, 40)) % 2**32
    else:
        tsnA, tsnB = rng.randrange(2**32), rng.randrange(2**32)
    case = dict(tagA=rng.randrange(1, 2**32), tagB=rng.randrange(1, 2**32), tsnA=tsnA, tsnB=tsnB)
    ops = W.random_ops(rng, case, steps, prof)
    return dict(case, ops=ops, profile=profile_name, wrap=wrap)


def _settle(w, limit=400):
    """Run pending tasks and deliver queued datagrams in order until nothing is left - WITHOUT firing any timer."""
    for _ in range(limit):
        progressed = False
        for n in "AB":
            if w.ep[n].tasks:
                w.apply(["task", n])
                progressed = True
        for n in "AB":
            if w.net[n]:
                w.apply(["deliver", n, 0])
                progressed = True
                break
        if not progressed:
            return


def make_reuse_case(rng, wrap=False):
    """Directed schedule: a channel with traffic is closed, both stream resets complete, a new channel
    re-uses the stream id and carries traffic under loss / reordering (state left behind by the old
    channel - sequence numbers, reassembly, reset bookkeeping - must not leak into the new one)."""
    case = make_case(rng, "clean", 0, wrap)
    case["profile"] = "reuse"
    w = W.World(dict(case, ops=[]))
    w.oplog = []
    w.apply(["start", "A"])
    w.apply(["start", "B"])
    w.heal(400)
    opener = rng.choice("AB")
    other = "B" if opener == "A" else "A"
    w.apply(["create", opener, dict(label="first", ordered=True)])
    w.heal(400)
    for _ in range(rng.randrange(1, 7)):
        for n in (opener, other):
            if w.ep[n].channels:
                w.salt += 1
                w.apply(["send", n, 0, rng.choice("sb"), rng.choice([1, 10, 100, 1300]), w.salt])
        if rng.random() < 0.7:
            w.heal(400)
    w.heal(400)
    closer = rng.choice("AB")
    held = False
    if rng.random() < 0.5 and w.ep[closer].channels:
        # "last words": a message sent right before close() is held back by the network (or lost and retransmitted later) and
        # arrives when the stream id has already been given to the next channel - it must never show up on that channel
        w.salt += 1
        w.apply(["send", closer, 0, rng.choice("sb"), rng.choice([10, 100]), w.salt])
        while w.ep[closer].tasks:
            w.apply(["task", closer])
        peer = "B" if closer == "A" else "A"
        if w.net[peer]:
            w.apply(["stash", peer, len(w.net[peer]) - 1])
            w.apply(["drop", peer, len(w.net[peer]) - 1])
            held = True
    w.apply(["close", closer, 0])
    if held and rng.random() < 0.75:
        # the reset handshake runs without any timer firing (the held-back chunk is still missing), the id is re-used, the
        # new channel's OPEN arrives, and only then the old chunk shows up
        _settle(w)
        w.apply(["create", closer if rng.random() < 0.7 else peer, dict(label="second", ordered=True)])
        _settle(w)
        for n in "AB":
            while w.stash[n]:
                w.apply(["unstash", n, 0])
                if w.net[n]:
                    w.apply(["deliver", n, len(w.net[n]) - 1])
        _settle(w)
    else:
        w.heal(600)
        w.apply(["create", rng.choice("AB"), dict(label="second", ordered=True)])
    if rng.random() < 0.5:
        w.heal(400)
    prof = dict(PROFILES["reorder-frag"], channels=2, sizes=[1, 10, 100, 1300], loss=0.1, reorder=0.8, stash=0.0)
    W.random_ops(rng, case, rng.choice([40, 80, 120]), prof, world=w)
    return dict(case, ops=list(w.oplog))


def make_expiry_case(rng, wrap=False):
    """Directed schedule: a lifetime-limited and a reliable channel of one endpoint are flushed in the same
    call, everything in flight is lost, the lifetime passes and T3 fires: only the lifetime-limited message
    may be given up (per-message reliability must not leak from one message to the next)."""
    case = make_case(rng, "clean", 0, wrap)
    case["profile"] = "expiry"
    w = W.World(dict(case, ops=[]))
    w.oplog = []
    w.apply(["start", "A"])
    w.apply(["start", "B"])
    w.heal(400)
    n = rng.choice("AB")
    other = "B" if n == "A" else "A"
    w.apply(["create", n, dict(label="timed", ordered=rng.random() < 0.5, maxPacketLifeTime=rng.choice([1, 100]))])
    w.apply(["create", n, dict(label="rel", ordered=rng.random() < 0.7)])
    if rng.random() < 0.5:
        w.apply(["create", n, dict(label="rex", ordered=rng.random() < 0.5, maxRetransmits=rng.choice([0, 1]))])
    w.heal(600)
    chans = list(range(len(w.ep[n].channels)))
    for _round in range(rng.randrange(1, 4)):
        # several sends queued before the flush task runs
        order = chans[:]
        if rng.random() < 0.3:
            rng.shuffle(order)
        for i in order:
            for _ in range(rng.choice([1, 1, 2])):
                w.salt += 1
                w.apply(["send", n, i, rng.choice("sb"), rng.choice([1, 10, 100, 1300]), w.salt])
        while w.ep[n].tasks:
            w.apply(["task", n])
        # the network loses (most of) what is in flight
        while w.net[other]:
            if rng.random() < 0.85:
                w.apply(["drop", other, 0])
            else:
                w.apply(["deliver", other, 0])
        w.apply(["clock", rng.choice([200, 3000, 70000])])
        if w.ep[n].armed():
            w.apply(["fire", n, "t3"])
        while w.ep[n].tasks:
            w.apply(["task", n])
        if rng.random() < 0.5:
            w.heal(400)
    return dict(case, ops=list(w.oplog))


def make_strike_case(rng, wrap=False):
    """Directed schedule: a partial-reliability channel sends a message of many fragments of which only the head is
    in flight (the tail waits in the outbound queue), an early fragment is lost while later ones arrive, and the
    SACKs with gap blocks are delivered one by one: the third strike marks the fragment for fast retransmission /
    gives the message up while the SACK is still being processed (send-side queues change inside the SACK handler)."""
    case = make_case(rng, "clean", 0, wrap)
    case["profile"] = "strike"
    w = W.World(dict(case, ops=[]))
    w.oplog = []
    w.apply(["start", "A"])
    w.apply(["start", "B"])
    w.heal(400)
    n = rng.choice("AB")
    other = "B" if n == "A" else "A"
    params = dict(label="pr", ordered=rng.random() < 0.5)
    if rng.random() < 0.75:
        params["maxRetransmits"] = rng.choice([0, 0, 1, 2])
    else:
        params["maxPacketLifeTime"] = rng.choice([1, 100])
    w.apply(["create", n, params])
    if rng.random() < 0.65:
        w.apply(["create", n, dict(label="rel", ordered=True)])
    w.heal(600)
    for _round in range(rng.randrange(1, 4)):
        w.salt += 1
        small_first = len(w.ep[n].channels) > 1 and rng.random() < 0.3
        if small_first:
            # the mirror image: ONE small partially reliable message (lost, given up after the strikes) with a large
            # reliable message right behind it, of which only the head fits into the congestion window
            w.apply(["send", n, 0, rng.choice("sb"), rng.choice([1, 10, 100]), w.salt])
            w.salt += 1
            w.apply(["send", n, 1, "b", rng.choice([9000, 20000, 48000]), w.salt])
        else:
            w.apply(["send", n, 0, rng.choice("sb"), rng.choice([5000, 9000, 20000, 70000]), w.salt])
            if len(w.ep[n].channels) > 1 and rng.random() < 0.7:
                # a reliable message right behind the burst: it waits in the data channel queue while the burst is in flight
                w.salt += 1
                w.apply(["send", n, 1, "b", rng.choice([10, 3000]), w.salt])
        while w.ep[n].tasks:
            w.apply(["task", n])
        # lose one (or two) of the first datagrams in flight, deliver the later ones
        lost = 0
        for _ in range(rng.choice([1, 1, 2])):
            if w.net[other]:
                w.apply(["drop", other, rng.choice([0, 0, 1]) if len(w.net[other]) > 1 else 0])
                lost += 1
        if rng.random() < 0.3:
            w.apply(["clock", rng.choice([200, 3000])])
        for _ in range(rng.randrange(3, 9)):
            if w.net[other]:
                w.apply(["deliver", other, 0])
            # the SACKs reach the sender one by one; whatever it transmits in response is delivered later
            if w.net[n]:
                w.apply(["deliver", n, 0])
            if rng.random() < 0.3 and w.ep[n].tasks:
                w.apply(["task", n])
        if rng.random() < 0.6:
            # an outage right after the message was given up: everything in flight (the FORWARD TSN included) is lost in
            # both directions, T3 fires once or twice into the outage, then the application stays quiet
            for _ in range(rng.randrange(1, 3)):
                for x in "AB":
                    while w.net[x]:
                        w.apply(["drop", x, 0])
                while w.ep[n].tasks:
                    w.apply(["task", n])
                if any(h.name == "t3" for h in w.ep[n].armed()):
                    w.apply(["fire", n, "t3"])
                    while w.ep[n].tasks:
                        w.apply(["task", n])
            for x in "AB":
                while w.net[x]:
                    w.apply(["drop", x, 0])
            w.heal(800)
            return dict(case, ops=list(w.oplog))
        if rng.random() < 0.5:
            w.heal(600)
    prof = dict(PROFILES["mixed-pr"], channels=2, sizes=[10, 3000, 9000])
    W.random_ops(rng, case, rng.choice([0, 30, 60]), prof, world=w)
    return dict(case, ops=list(w.oplog))


def make_early_case(rng, wrap=False):
    """Directed schedules around channel set-up: (a) the acceptor of a channel sends at once and its messages overtake the
    DATA_CHANNEL_ACK (reordering / loss of the ACK datagram); (b) every datagram of the association handshake is duplicated
    and the copies arrive much later, when user data has already been delivered; (c) both. Reliable traffic must arrive
    exactly once, in order (ordered channels), whatever the opener's state was when it arrived."""
    case = make_case(rng, "clean", 0, wrap)
    case["profile"] = "early"
    w = W.World(dict(case, ops=[]))
    w.oplog = []
    variant = rng.choice("abc")
    neg = variant in "bc" and rng.random() < 0.7
    if neg:
        # an out-of-band negotiated channel exists on both sides before the association is up
        for n in "AB":
            w.apply(["create", n, dict(label="neg", negotiated=True, id=12, ordered=rng.random() < 0.5)])
    w.apply(["start", "A"])
    w.apply(["start", "B"])
    if variant in "bc":
        # handshake: every datagram is also kept by the network and delivered again later
        for _ in range(12):
            moved = False
            for n in "BA":
                if w.net[n] and (len(w.net[n]) > 1 or rng.random() < 0.8):
                    k = rng.randrange(len(w.net[n])) if rng.random() < 0.5 else 0      # later datagrams may overtake
                    w.apply(["stash", n, k])
                    if rng.random() < 0.25:
                        w.apply(["drop", n, k])       # the first copy is lost, the network's copy arrives much later
                    else:
                        w.apply(["deliver", n, k])
                    moved = True
                    if neg and w.ep[n].channels and rng.random() < 0.8:
                        w.salt += 1
                        w.apply(["send", n, 0, rng.choice("sb"), rng.choice([1, 10]), w.salt])   # as soon as it is open
                    while w.ep[n].tasks and rng.random() < 0.7:
                        w.apply(["task", n])
            if not moved:
                break
    else:
        w.heal(400)
    opener = rng.choice("AB")
    acceptor = "B" if opener == "A" else "A"
    if variant in "ac":
        w.apply(["create", opener, dict(label="u", ordered=rng.random() < 0.4)])
        while w.ep[opener].tasks:
            w.apply(["task", opener])
        # the OPEN reaches the acceptor, which sends at once
        while w.net[acceptor]:
            w.apply(["deliver", acceptor, 0])
        idx = len(w.ep[acceptor].channels) - 1
        if idx >= 0:
            for _ in range(rng.randrange(1, 5)):
                w.salt += 1
                w.apply(["send", acceptor, idx, rng.choice("sb"), rng.choice([1, 10, 100]), w.salt])
            while w.ep[acceptor].tasks:
                w.apply(["task", acceptor])
        # towards the opener: the datagram with the ACK is lost or overtaken
        q = w.net[opener]
        if len(q) > 1:
            x = rng.random()
            if x < 0.4:
                w.apply(["drop", opener, 0])
            elif x < 0.8:
                for _ in range(len(q) - 1):
                    w.apply(["deliver", opener, 1])
        for _ in range(6):
            for n in "AB":
                if w.net[n] and rng.random() < 0.8:
                    w.apply(["deliver", n, 0])
    # late copies of old datagrams
    for n in "AB":
        while w.stash[n]:
            w.apply(["unstash", n, rng.randrange(len(w.stash[n]))])
            if w.net[n] and rng.random() < 0.8:
                w.apply(["deliver", n, len(w.net[n]) - 1])
    if rng.random() < 0.5:
        w.heal(600)
    prof = dict(PROFILES["reliable"], channels=2, sizes=[1, 10, 100], loss=0.1, reorder=0.6, dup=0.1, react=0)
    W.random_ops(rng, case, rng.choice([0, 20, 50]), prof, world=w)
    return dict(case, ops=list(w.oplog))


def make_ssnwrap_case(rng, wrap=False):
    """Directed schedule (oracle-only: the stream sequence numbers start just below 2^16): an ordered channel sends a run
    of small messages whose stream sequence numbers cross 65535 -> 0, the datagram carrying number 65535 (or another one of
    the run) is lost while later ones arrive first, then the network heals: everything must still be delivered, in order."""
    case = make_case(rng, "clean", 0, wrap)
    case["profile"] = "ssnwrap"
    k = rng.randrange(2, 8)
    case["ssn"] = 65536 - k
    w = W.World(dict(case, ops=[]))
    w.oplog = []
    w.apply(["start", "A"])
    w.apply(["start", "B"])
    w.heal(400)
    n = rng.choice("AB")
    other = "B" if n == "A" else "A"
    params = dict(label="o", ordered=True)
    if rng.random() < 0.3:
        params["maxRetransmits"] = rng.choice([3, 5])
    w.apply(["create", n, params])
    w.heal(600)
    for _round in range(rng.choice([1, 2])):
        before = len(w.net[other])
        for _ in range(8):
            w.salt += 1
            w.apply(["send", n, 0, rng.choice("sb"), rng.choice([1, 10, 100]), w.salt])
            while w.ep[n].tasks:
                w.apply(["task", n])
        q = len(w.net[other]) - before
        if q > 0:
            # the DCEP OPEN consumed the first number: user message j carries ssn + 1 + j
            j = (k - 2) if (_round == 0 and rng.random() < 0.6) else rng.randrange(q)
            w.apply(["drop", other, before + min(j, q - 1)])
        # the rest arrives, partly out of order
        for _ in range(12):
            if w.net[other]:
                w.apply(["deliver", other, rng.randrange(len(w.net[other])) if rng.random() < 0.4 else 0])
            if w.net[n] and rng.random() < 0.7:
                w.apply(["deliver", n, 0])
        w.heal(800)
    return dict(case, ops=list(w.oplog))


def _gen(args):
    seed, profile_name, steps, wrap = args
    if profile_name == "ssnwrap":
        return make_ssnwrap_case(random.Random(seed), wrap)
    if profile_name == "early":
        return make_early_case(random.Random(seed), wrap)
    if profile_name == "strike":
        return make_strike_case(random.Random(seed), wrap)
    if profile_name == "reuse":
        return make_reuse_case(random.Random(seed), wrap)
    if profile_name == "expiry":
        return make_expiry_case(random.Random(seed), wrap)
    return make_case(random.Random(seed), profile_name, steps, wrap)


# ---------------------------------------------------------------------------------------------
# running a case
# ---------------------------------------------------------------------------------------------


class Run:
    """Everything the oracles need from one executed case (picklable summary)."""

    def __init__(self, case, heal=True, heal_steps=6000):
        w = W.World(case).run()
        self.healed = None
        if heal:
            self.healed = w.heal(heal_steps)
        # probe: once the network has recovered, a fresh message on every open channel must get through
        self.probes = []
        if heal and self.healed and case.get("probe", True):
            for n in "AB":
                for i, ch in enumerate(w.ep[n].channels):
                    if ch.readyState == "open" and w.ep[n].t.state == "connected":
                        w.salt += 1
                        before = len(w.sent[n].get(i, []))
                        w.apply(["send", n, i, "b", 10, 100000 + w.salt])
                        if len(w.sent[n].get(i, [])) > before:
                            self.probes.append((n, i, W.message("b", 10, 100000 + w.salt)))
            self.probe_healed = w.heal(heal_steps)
        self.steps = w.steps
        la, ea = C.endpoint_trace(w, "A")
        lb, eb = C.endpoint_trace(w, "B")
        # one request for both endpoints
        pa = la.split(" ")
        pb = lb.split(" ")
        sa = pa[5] if len(pa) > 5 else "-"
        sb = pb[5] if len(pb) > 5 else "-"
        self.line = f"sctp pair {pa[3]} {pa[4]} {sa} {pb[3]} {pb[4]} {sb}"
        self.expected = ea + "&" + eb
        if any(op[0] == "react2" for op in case["ops"]) or case.get("ssn"):
            self.line = None        # handlers that close / create from inside an event, and shifted stream sequence number
                                    # origins, are outside the automaton
        self.crashes = {n: list(w.ep[n].crashes) for n in "AB"}
        self.reentrancy = sum(w.ep[n].reentrancy for n in "AB")
        # per channel summaries
        self.channels = {}
        for n in "AB":
            ep = w.ep[n]
            self.channels[n] = [dict(id=c.id, ordered=c.ordered, rtx=c.maxRetransmits, life=c.maxPacketLifeTime,
                                     negotiated=c.negotiated, label=c.label, protocol=c.protocol,
                                     ready=c.readyState, buffered=c.bufferedAmount) for c in ep.channels]
        # channels that reached "closed" while their transport was not (yet) connected
        for n in "AB":
            for st in w.trace[n]:
                for i, (cid, ready, _b) in enumerate(st["public"]["channels"]):
                    ch = self.channels[n][i]
                    if ready == "closed" and "closed_state" not in ch:
                        ch["closed_state"] = st["public"]["state"]
        # which local channel put the k-th DATA_CHANNEL_OPEN for a stream id on the wire
        self.open_order = {"A": {}, "B": {}}
        m = W.sim.install()
        for n in "AB":
            seen_tsn = set()
            for st in w.trace[n]:
                for d in st["tx"]:
                    try:
                        chunks = m.parse_packet(d)[3]
                    except ValueError:
                        continue
                    for c in chunks:
                        if (isinstance(c, m.DataChunk) and c.protocol == 50 and c.user_data[:1] == b"\x03"
                                and (c.flags & 2) and c.tsn not in seen_tsn):
                            seen_tsn.add(c.tsn)
                            cands = [i for i, (cid, ready, _b) in enumerate(st["public"]["channels"])
                                     if cid == c.stream_id and ready in ("connecting", "closing")]
                            self.open_order[n].setdefault(c.stream_id, []).append(cands[-1] if cands else None)
        self.sent = {n: {i: list(v) for i, v in w.sent[n].items()} for n in "AB"}
        self.delivered = {n: w.deliveries(n) for n in "AB"}
        self.events = {n: [(k, ev) for k, st in enumerate(w.trace[n]) for ev in st["events"]] for n in "AB"}
        self.publics = {n: [st["public"] for st in w.trace[n]] for n in "AB"}
        self.inputs = {n: [st["in"][0] for st in w.trace[n]] for n in "AB"}
        # CPU time spent in the receive path per datagram (slowest one per endpoint)
        self.slowest = {}
        for n in "AB":
            best = (0.0, 0, None)
            for k, st in enumerate(w.trace[n]):
                if st.get("cpu", 0.0) > best[0]:
                    best = (st["cpu"], len(st["in"][1]), k)
            self.slowest[n] = best
        self.state = {n: w.ep[n].t.state for n in "AB"}
        self.quiescent = {n: w.ep[n].quiescent() for n in "AB"}
        self.armed = {n: [h.name for h in w.ep[n].armed()] for n in "AB"}
        t = {n: w.ep[n].t for n in "AB"}
        self.internals = {n: dict(flight=t[n]._flight_size, sent=len(t[n]._sent_queue), outq=len(t[n]._outbound_queue),
                                  dcq=len(t[n]._data_channel_queue), assoc=t[n]._association_state.name) for n in "AB"}
        feats = set()
        for n in "AB":
            for st in w.trace[n]:
                if st["in"][0] == "fire":
                    feats.add("fire-" + st["in"][1])
                for ev in st["log"]:
                    if ev[0] == "tx" and len(ev[1]) > 12:
                        ty = ev[1][12]
                        if ty == 192:
                            feats.add("fwd-tsn")
                        elif ty == 130:
                            feats.add("reconfig")
        if any(o[0] == "drop" for o in case["ops"]):
            feats.add("loss")
        if any(o[0] == "dup" for o in case["ops"]):
            feats.add("dup")
        if any(o[0] == "unstash" for o in case["ops"]):
            feats.add("late-dup")
        if any(o[0] == "inject" for o in case["ops"]):
            feats.add("hostile")
        self.features = sorted(feats)


def _run(case):
    import gc
    # the CPU-time oracle measures single handlers: keep the garbage collector out of the measurement
    gc.collect()
    gc.disable()
    try:
        r = Run(case, heal=case.get("heal", True))
        return r
    except Exception as exc:  # harness failure: keep visible
        import traceback
        return "HARNESS-EXC " + type(exc).__name__ + ": " + str(exc)[:300] + " " + traceback.format_exc()[-400:]
    finally:
        gc.enable()


_POOL = None


def pool():
    global _POOL
    if _POOL is None:
        n = min(12, max(2, (os.cpu_count() or 4) - 2))
        _POOL = multiprocessing.get_context("fork").Pool(n)
    return _POOL


class WorldComponent(Component):
    """Trace correspondence + property oracles over world cases."""

    name = "world"
    theorems = []
    #: list of (profile, wrap, weight)
    mix = [("reliable", False, 3), ("reliable", True, 1), ("clean", False, 1)]
    quick = (24, 260)       # (cases, scheduler steps per case)
    thorough = (400, 500)
    oracles = []            # functions (case, run) -> None | str

    def __init__(self):
        self.runs = {}

    def corpus(self):
        path = os.path.join(os.path.dirname(os.path.dirname(os.path.abspath(__file__))), "harness", "corpus",
                            self.prop + "_" + self.name + ".json") if hasattr(self, "prop") else None
        if path and os.path.exists(path):
            with open(path) as f:
                return json.load(f)
        return []

    ssn_share = 0          # every k-th generated case runs with stream sequence numbers starting just below 2^16 (oracle-only)

    def cases(self, rng, tier):
        n, steps = self.quick if tier == "quick" else self.thorough
        weighted = [m for m in self.mix for _ in range(m[2])]
        args = []
        for i in range(n):
            prof, wrap, _ = weighted[i % len(weighted)]
            args.append((rng.getrandbits(48), prof, steps if i % 3 else max(60, steps // 3), wrap))
        out = pool().map(_gen, args)
        if self.ssn_share:
            for i, c in enumerate(out):
                if i % self.ssn_share == self.ssn_share - 1 and not any(op[0] == "inject" for op in c["ops"]):
                    c["ssn"] = 65536 - rng.randrange(1, 7)
        return out

    def impl_many(self, cases):
        results = pool().map(_run, cases, chunksize=1)
        outs = []
        for c, r in zip(cases, results):
            if isinstance(r, str):
                outs.append(r)
            else:
                self.runs[case_key(c)] = r
                outs.append(r.expected)
        return outs

    def impl(self, case):
        r = _run(case)
        if isinstance(r, str):
            return r
        self.runs[case_key(case)] = r
        return r.expected

    def model_line(self, case):
        r = self.runs.get(case_key(case))
        return r.line if r is not None else None

    def oracle(self, case, impl_out):
        r = self.runs.get(case_key(case))
        if r is None:
            return impl_out[:300]
        if r.reentrancy:
            return "harness assumption violated: a handler suspended (not atomic)"
        # runs in which application handlers close / create channels from inside events are outside the automaton and
        # the channel pairing the delivery oracles rely on: they are judged by the oracles that need no pairing
        unmodelled = any(op[0] == "react2" for op in case["ops"])
        for f in self.oracles:
            if unmodelled and f in (oracle_c01, oracle_c06, oracle_c02):
                continue
            res = f(case, r)
            if res:
                return res
        return None

    def label(self, case, impl_out):
        r = self.runs.get(case_key(case))
        feats = ",".join(r.features) if r is not None else "?"
        return f"{case.get('profile')}{'-wrap' if case.get('wrap') else ''}[{feats}]"

    def nontrivial(self, case, impl_out):
        r = self.runs.get(case_key(case))
        return r is not None and any(r.delivered[n] for n in "AB")

    def shrink(self, case):
        ops = case["ops"]
        n = len(ops)
        if n <= 2:
            return
        size = n // 2
        while size >= 1:
            for start in range(0, n, size):
                cand = ops[:start] + ops[start + size:]
                if len(cand) < n:
                    yield dict(case, ops=cand)
            if size == 1:
                break
            size //= 2


# ---------------------------------------------------------------------------------------------
# oracles (the properties, on the implementation's observable behaviour)
# ---------------------------------------------------------------------------------------------


def _pairs(run):
    """(src, i, dst, j): channel i opened at src and its peer end j at dst.  A stream id may be reused after
    a close: the channel that put the k-th DATA_CHANNEL_OPEN for id X on the wire at src pairs with the k-th
    channel that dst announced with id X; negotiated channels pair up only when the id is unambiguous."""
    for src, dst in (("A", "B"), ("B", "A")):
        announced_dst = {}
        for _, ev in run.events[dst]:
            if ev[0] == "chan":
                announced_dst.setdefault(ev[2], []).append(ev[1])
        paired = set()
        for cid, order in run.open_order[src].items():
            if any(c["negotiated"] and c["id"] == cid for c in run.channels[src] + run.channels[dst]):
                continue
            lst = announced_dst.get(cid, [])
            for k, i in enumerate(order):
                if i is None or i in paired:
                    continue
                paired.add(i)
                j = lst[k] if k < len(lst) else None
                yield src, i, dst, j
                if j is not None:
                    # the same pair seen from the accepting side: what the acceptor sends must reach the opener's end
                    yield dst, j, src, i
        for i, ch in enumerate(run.channels[src]):
            cid = ch["id"]
            if cid is None or not ch["negotiated"]:
                continue
            if sum(1 for c in run.channels[src] if c["id"] == cid) != 1:
                continue
            js = [j for j, c in enumerate(run.channels[dst]) if c["id"] == cid]
            if len(js) > 1:
                continue
            yield src, i, dst, (js[0] if js else None)


def _is_sublist(got, sent):
    it = iter(sent)
    return all(any(g == s and type(g) is type(s) for s in it) for g in got)


def _rep(m):
    return (type(m).__name__, m)


def oracle_no_crash(case, run):
    for n in "AB":
        bad = [c for c in run.crashes[n]]
        if bad:
            return f"endpoint {n}: exception escaped a handler: {bad[0]}"
    return None


def oracle_c01(case, run):
    """Reliable channels: deliveries are a prefix (ordered) / duplicate-free sub-multiset (unordered) of the
    sends, values and types equal, nothing appears on another channel."""
    for src, i, dst, j in _pairs(run):
        ch = run.channels[src][i]
        sent = run.sent[src].get(i, [])
        got = run.delivered[dst].get(j, []) if j is not None else []
        reliable = ch["rtx"] is None and ch["life"] is None
        if not reliable:
            continue
        if ch["negotiated"]:
            # messages sent before the application created the peer's end are dropped by design:
            # only order / no duplication / no invention can be required
            if ch["ordered"] and not _is_sublist(got, sent):
                return f"negotiated ordered channel id={ch['id']} {src}->{dst}: deliveries are not in sending order"
            cg = collections.Counter(map(_rep, got))
            cs = collections.Counter(map(_rep, sent))
            if any(v > cs[k_] for k_, v in cg.items()):
                return f"negotiated channel id={ch['id']} {src}->{dst}: a message was delivered more often than sent"
            continue
        if ch["ordered"]:
            if [_rep(m) for m in got] != [_rep(m) for m in sent[:len(got)]]:
                k = next((k for k, (a, b) in enumerate(zip(got, sent)) if _rep(a) != _rep(b)), min(len(got), len(sent)))
                return (f"ordered reliable channel id={ch['id']} {src}->{dst}: delivery #{k} is not the {k}-th message sent "
                        f"({len(got)} delivered, {len(sent)} sent)")
        else:
            cg = collections.Counter(map(_rep, got))
            cs = collections.Counter(map(_rep, sent))
            for k_, v in cg.items():
                if v > cs[k_]:
                    return (f"unordered reliable channel id={ch['id']} {src}->{dst}: a message was delivered {v} times "
                            f"but sent {cs[k_]} times (type {k_[0]}, {len(k_[1])} units)")
    # deliveries on channels without a sending peer channel
    for dst in "AB":
        src = "B" if dst == "A" else "A"
        for j, got in run.delivered[dst].items():
            cid = run.channels[dst][j]["id"]
            peers = [i for i, c in enumerate(run.channels[src]) if c["id"] == cid and cid is not None]
            if got and not peers:
                return f"endpoint {dst} delivered {len(got)} message(s) on channel id={cid} that the peer never had"
    return None


def oracle_c02(case, run):
    """After the fault-free continuation: both sides quiescent, every reliable message delivered,
    bufferedAmount 0 everywhere (only checked while both associations are still connected)."""
    if run.healed is None:
        return None
    if run.state["A"] != "connected" or run.state["B"] != "connected":
        return None
    if not run.healed:
        return ("association still connected but not quiescent after the fault-free continuation: "
                + json.dumps(run.internals) + " armed=" + json.dumps(run.armed))
    for n in "AB":
        for i, ch in enumerate(run.channels[n]):
            if ch["buffered"] != 0 and ch["ready"] != "closed":
                return f"endpoint {n} channel #{i} id={ch['id']}: bufferedAmount={ch['buffered']} after draining"
    for src, i, dst, j in _pairs(run):
        ch = run.channels[src][i]
        if ch["rtx"] is not None or ch["life"] is not None:
            continue
        if ch["ready"] != "open" or j is None or run.channels[dst][j]["ready"] != "open" or ch["negotiated"]:
            continue
        sent = run.sent[src].get(i, [])
        got = run.delivered[dst].get(j, [])
        if len(got) != len(sent):
            return (f"reliable channel id={ch['id']} {src}->{dst}: {len(sent)} sent but {len(got)} delivered after "
                    f"the network healed and both sides went quiescent")
    return None


def oracle_c06(case, run):
    """Partially reliable channels: every delivery is an exact copy of a sent message, duplicate-free, in
    sending order on ordered channels."""
    for src, i, dst, j in _pairs(run):
        ch = run.channels[src][i]
        if ch["rtx"] is None and ch["life"] is None:
            continue
        sent = run.sent[src].get(i, [])
        got = run.delivered[dst].get(j, []) if j is not None else []
        cg = collections.Counter(map(_rep, got))
        cs = collections.Counter(map(_rep, sent))
        for k_, v in cg.items():
            if v > cs[k_]:
                return (f"partially reliable channel id={ch['id']} {src}->{dst}: a delivered message was sent {cs[k_]} "
                        f"times but delivered {v} times (or was never sent)")
        if ch["ordered"] and not _is_sublist(got, sent):
            return f"ordered partially reliable channel id={ch['id']} {src}->{dst}: deliveries are not in sending order"
    return None


def oracle_recovers(case, run):
    """Once the network recovered, a message sent afterwards on any channel that is open on both sides is
    delivered (C06 "delivered again", C02 progress)."""
    if not run.probes:
        return None
    if run.state["A"] != "connected" or run.state["B"] != "connected":
        return None
    for n, i, msg in run.probes:
        dst = "B" if n == "A" else "A"
        cid = run.channels[n][i]["id"]
        js = [j for j, c in enumerate(run.channels[dst]) if c["id"] == cid]
        if not js or run.channels[dst][js[0]]["ready"] != "open":
            continue
        got = run.delivered[dst].get(js[0], [])
        if msg not in got:
            ch = run.channels[n][i]
            kind = "reliable" if ch["rtx"] is None and ch["life"] is None else "partially reliable"
            return (f"{kind} channel id={cid} {n}->{dst} (ordered={ch['ordered']}): a message sent after the network "
                    f"recovered was never delivered")
    return None


ORDER = {"connecting": 0, "open": 1, "closing": 2, "closed": 3}


def oracle_c13(case, run):
    """Data channel lifecycle (C13) on the observable behaviour of the real endpoints."""
    for n in "AB":
        other = "B" if n == "A" else "A"
        nch = len(run.channels[n])
        # (3) readyState only moves forward; at most one open / close event
        last = {}
        for k, pub in enumerate(run.publics[n]):
            for i, (cid, ready, buffered) in enumerate(pub["channels"]):
                if i in last and ORDER[ready] < ORDER[last[i]]:
                    return (f"endpoint {n} channel #{i} id={cid}: readyState went backwards "
                            f"{last[i]} -> {ready} at step {k} ({run.inputs[n][k]})")
                last[i] = ready
                # (5) never negative
                if buffered < 0:
                    return f"endpoint {n} channel #{i} id={cid}: bufferedAmount={buffered} < 0 at step {k}"
        cnt = collections.Counter((ev[0], ev[1]) for _, ev in run.events[n] if ev[0] in ("open", "close"))
        for (kind, i), v in cnt.items():
            if v > 1:
                return f"endpoint {n} channel #{i}: {v} '{kind}' events"
        # (1) datachannel events mirror the opener's parameters, at most one per id at a time
        seen_ids = collections.Counter()
        for _, ev in run.events[n]:
            if ev[0] != "chan":
                continue
            _, i, cid, label, proto, ordered, rtx, life = ev
            cands = [c for c in run.channels[other] if c["id"] == cid and not c["negotiated"]]
            if not cands:
                return f"endpoint {n}: datachannel event for id={cid} but the peer has no such channel"
            if not any(c["label"] == label and c["protocol"] == proto and c["ordered"] == ordered
                       and c["rtx"] == rtx and c["life"] == life for c in cands):
                c = cands[0]
                return (f"endpoint {n}: datachannel event id={cid} announces label={label!r} protocol={proto!r} "
                        f"ordered={ordered} maxRetransmits={rtx} maxPacketLifeTime={life}, but the peer opened "
                        f"label={c['label']!r} protocol={c['protocol']!r} ordered={c['ordered']} "
                        f"maxRetransmits={c['rtx']} maxPacketLifeTime={c['life']}")
        # (2) automatically chosen ids: odd on the client (A), even on the server (B)
        for i, c in enumerate(run.channels[n]):
            if c["id"] is None or c["negotiated"]:
                continue
            explicit = c["label"] == "id"
            created_here = not any(ev[0] == "chan" and ev[1] == i for _, ev in run.events[n])
            if created_here and not explicit and (c["id"] % 2) != (1 if n == "A" else 0):
                return f"endpoint {n}: automatically chosen id {c['id']} has the wrong parity"
        # two live local channels never share an id
        live = collections.Counter(c["id"] for c in run.channels[n] if c["id"] is not None and c["ready"] != "closed")
        for cid, v in live.items():
            if v > 1:
                return f"endpoint {n}: {v} channels that are not closed share id {cid}"
        # (4) association over => every channel closed
        if run.state[n] == "closed":
            for i, c in enumerate(run.channels[n]):
                if c["ready"] != "closed":
                    return f"endpoint {n}: association is closed but channel #{i} id={c['id']} is {c['ready']}"
    # (4) close() closes both ends once the network has healed
    if run.healed and run.state["A"] == "connected" and run.state["B"] == "connected":
        for n in "AB":
            other = "B" if n == "A" else "A"
            for i, c in enumerate(run.channels[n]):
                if c["ready"] == "closing":
                    return f"endpoint {n} channel #{i} id={c['id']} still 'closing' after the network healed"
                if c["ready"] == "closed" and c["id"] is not None:
                    for j, d in enumerate(run.channels[other]):
                        if d["id"] == c["id"] and d["ready"] in ("open", "closing") and not _reused(run, other, j, n, i):
                            tag = ""
                            if c["negotiated"] and c.get("closed_state") in ("new", "connecting"):
                                tag = " [negotiated channel closed before the association was established]"
                            return (f"channel id={c['id']} is closed at {n} but still {d['ready']} at {other} after the "
                                    f"network healed" + tag)
        # (5) drained => bufferedAmount 0
        for n in "AB":
            for i, c in enumerate(run.channels[n]):
                if c["buffered"] != 0 and c["ready"] == "open":
                    return f"endpoint {n} channel #{i} id={c['id']}: bufferedAmount={c['buffered']} after draining"
    return None


def _reused(run, n, j, other, i):
    """True if channel j at n was created after channel i at `other` closed (id reuse) - approximated by
    there being several channels with that id on either side."""
    cid = run.channels[n][j]["id"]
    return (sum(1 for c in run.channels[n] if c["id"] == cid) > 1
            or sum(1 for c in run.channels[other] if c["id"] == cid) > 1)


CPU_LIMIT_S = 0.4


def oracle_work(case, run):
    """No single datagram (at most an MTU of bytes) may cost the receive path CPU time out of proportion."""
    for n in "AB":
        cpu, size, k = run.slowest[n]
        if cpu > CPU_LIMIT_S:
            return (f"endpoint {n}: handling one datagram of {size} bytes took {cpu:.2f} s of CPU time "
                    f"(step {k}; limit {CPU_LIMIT_S} s)")
    return None
