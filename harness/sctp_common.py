"""Glue between the real-endpoint simulation (sctp_world) and the Lean endpoint automaton (Drv/Sctp)."""
from __future__ import annotations

from . import core
from . import sctp_sim as sim
from . import sctp_world as W


def hx(b: bytes) -> str:
    return b.hex() if b else "-"


def opt(v):
    return "-" if v is None else str(v)


def find_cookie(m, datagrams):
    """State cookie of an INIT-ACK among the datagrams an endpoint sent in one step."""
    for d in datagrams:
        try:
            _, _, _, chunks = m.parse_packet(d)
        except ValueError:
            continue
        for c in chunks:
            if isinstance(c, m.InitAckChunk):
                for k, v in c.params:
                    if k == m.SCTP_STATE_COOKIE:
                        return v
    return b""


def step_line(m, st) -> str:
    """One model input (`<now>;<op>;<args>`) for a recorded step of the real endpoint."""
    inp = st["in"]
    k = inp[0]
    now = st["now"]
    if k == "start":
        return f"{now};start;5000"
    if k == "stop":
        return f"{now};stop"
    if k == "rx":
        return f"{now};rx;{hx(inp[1])};{hx(find_cookie(m, st['tx']))}"
    if k == "fire":
        return f"{now};fire;{inp[1]}"
    if k == "task":
        return f"{now};task"
    if k == "create":
        p = inp[1]
        return (f"{now};create;{hx(p.get('label', '').encode('utf8'))};{hx(p.get('protocol', '').encode('utf8'))};"
                f"{int(p.get('ordered', True))};{opt(p.get('maxRetransmits'))};{opt(p.get('maxPacketLifeTime'))};"
                f"{int(p.get('negotiated', False))};{opt(p.get('id'))}")
    if k == "send":
        msg = W.message(inp[2], inp[3], inp[4])
        raw = msg.encode("utf8") if isinstance(msg, str) else msg
        return f"{now};send;{inp[1]};{int(isinstance(msg, str))};{hx(raw)}"
    if k == "close":
        return f"{now};close;{inp[1]}"
    if k == "threshold":
        return f"{now};threshold;{inp[1]};{inp[2]}"
    if k == "react2":
        return f"{now};unmodelled"      # the run is judged by the oracles only (no request is sent for it)
    if k == "react":
        msg = W.message(inp[3], inp[4], inp[5])
        raw = msg.encode("utf8") if isinstance(msg, str) else msg
        return f"{now};react;{inp[1]};{inp[2]};{int(isinstance(msg, str))};{hx(raw)}"
    raise ValueError(k)


def out_token(ev) -> str:
    k = ev[0]
    if k == "tx":
        return "tx:" + hx(ev[1])
    if k in ("ts", "tc", "task", "exc", "crash"):
        return f"{k}:{ev[1]}"
    if k in ("open", "close", "low"):
        return f"{k}:{ev[1]}"
    if k == "rexc":
        return f"rexc:{ev[1]}:{ev[2]}"
    if k == "message":
        msg = ev[2]
        if isinstance(msg, str):
            return f"msg:{ev[1]}:s:{hx(msg.encode('utf8'))}"
        return f"msg:{ev[1]}:b:{hx(msg)}"
    if k == "chan":
        _, i, cid, label, proto, ordered, rtx, life = ev
        return f"chan:{i}:{opt(cid)}:{hx(label.encode('utf8'))}:{hx(proto.encode('utf8'))}:{int(ordered)}:{opt(rtx)}:{opt(life)}"
    raise ValueError(k)


def step_out(st) -> str:
    pub = st["public"]
    chans = ",".join(f"{opt(c[0])}/{c[1]}/{c[2]}" for c in pub["channels"]) or "-"
    return ",".join(out_token(e) for e in st["log"]) + "#st=" + pub["state"] + ";" + chans


def endpoint_trace(world, name):
    """(driver request line, expected reply) for one endpoint of a finished world run.
    The comparison stops after the first crash (the real state is then half-updated)."""
    m = sim.install()
    case = world.case
    steps = world.trace[name]
    cut = len(steps)
    for i, st in enumerate(steps):
        if any(e[0] == "crash" for e in st["log"]):
            cut = i + 1
            break
    steps = steps[:cut]
    srv = "0" if name == "A" else "1"
    tag = case["tagA"] if name == "A" else case["tagB"]
    tsn = case["tsnA"] if name == "A" else case["tsnB"]
    line = f"sctp trace {srv} {tag} {tsn} " + "|".join(step_line(m, st) for st in steps)
    expected = "|".join(step_out(st) for st in steps)
    return line.rstrip(), expected


def first_diff(model: str, impl: str):
    a, b = model.split("|"), impl.split("|")
    for i, (x, y) in enumerate(zip(a, b)):
        if x != y:
            return i, x, y
    if len(a) != len(b):
        return min(len(a), len(b)), "<len %d>" % len(a), "<len %d>" % len(b)
    return None
