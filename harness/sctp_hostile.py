"""Structure-aware hostile datagrams for an SCTP endpoint (C05): correct checksum and (mostly) correct
verification tag, so that chunk processing is reached, with nonsensical field values / lengths."""
from __future__ import annotations

import struct

from . import sctp_sim as sim


def crc_packet(m, sport, dport, tag, body: bytes) -> bytes:
    header = struct.pack("!HHL", sport, dport, tag)
    checksum = m.crc32c(header + b"\x00\x00\x00\x00" + body)
    return header + struct.pack("<L", checksum) + body


def raw_chunk(ty, flags, body: bytes, length=None) -> bytes:
    ln = len(body) + 4 if length is None else length
    data = struct.pack("!BBH", ty, flags & 0xFF, ln & 0xFFFF) + body
    pad = (-len(data)) % 4
    return data + b"\x00" * pad


U32 = [0, 1, 2, 0x7FFFFFFF, 0x80000000, 0xFFFFFFFE, 0xFFFFFFFF]


def near(rng, v, spread=70000):
    return (v + rng.choice([0, 1, -1, 2, -2, 3, 100, -100, 65535, 65536, 70000, -70000, 2**31, 2**31 - 1,
                            rng.randrange(-spread, spread)])) % 2**32


def far(rng, last):
    """A TSN far ahead of the cumulative TSN: never reached by real traffic during a run."""
    return (last + 2**20 + rng.randrange(2**30)) % 2**32


def behind(rng, last):
    return (last - rng.choice([0, 1, 2, 100, 2**20])) % 2**32


def make(rng, w, dst):
    """One hostile datagram towards endpoint `dst` of world `w`: `(bytes, forging)`.

    `forging` = the datagram may be a VALID protocol action with the correct tag (fresh DATA on TSNs the
    peer will use, a SACK/FORWARD-TSN ahead of the truth, a stream reset, an ABORT, a mutated real
    datagram ...): SCTP itself gives such chunks an effect on later traffic, so only crash-freedom and
    the model correspondence are required for a run that contains one. Non-forging datagrams (garbage,
    malformed fields, duplicates, far-away TSNs, stale acknowledgements) must in addition leave the
    association able to carry valid traffic afterwards."""
    r = _make(rng, w, dst)
    return r


def _make(rng, w, dst, inner=False):
    m = sim.install()
    ep = w.ep[dst]
    t = ep.t
    other = "B" if dst == "A" else "A"
    tag = t._local_verification_tag
    if not inner and rng.random() < 0.08:
        tag = rng.choice([0, tag ^ 1, rng.randrange(2**32)])
    last = t._last_received_tsn if t._last_received_tsn is not None else rng.randrange(2**32)
    sacked = t._last_sacked_tsn
    kind = rng.randrange(22)
    chunks = []
    forging = False
    if kind == 0:      # random bytes
        return bytes(rng.randrange(256) for _ in range(rng.choice([0, 1, 11, 12, 15, 16, 17, 40, 200]))), False
    if kind == 1:      # mutate a real datagram in flight (truncate / flip / extend) and fix the CRC
        q = w.net[dst] or w.net[other]
        if not q:
            return None, False
        d = bytearray(rng.choice(q))
        op = rng.randrange(4)
        if op == 0 and len(d) > 12:
            d = d[: rng.randrange(12, len(d))]
        elif op == 1:
            for _ in range(rng.choice([1, 2, 8])):
                i = rng.randrange(len(d))
                d[i] ^= 1 << rng.randrange(8)
        elif op == 2:
            d += bytes(rng.randrange(256) for _ in range(rng.choice([1, 3, 4, 16])))
        else:
            if len(d) > 16:
                i = rng.randrange(12, len(d))
                d[i] = rng.choice([0, 1, 255, d[i] ^ 0x80])
        if rng.random() < 0.85 and len(d) >= 12:
            body = bytes(d[12:])
            return crc_packet(m, int.from_bytes(d[0:2], "big"), int.from_bytes(d[2:4], "big"),
                              int.from_bytes(d[4:8], "big"), body), True
        return bytes(d), True
    if kind in (2, 3):  # DATA with odd TSN / stream / ssn / ppid / flags / size
        c = m.DataChunk()
        c.flags = rng.choice([0, 1, 2, 3, 4, 5, 6, 7, 0xFF, 8])
        if rng.random() < 0.25:
            c.tsn = near(rng, last)
            forging = True
        else:
            c.tsn = rng.choice([far(rng, last), behind(rng, last)])
            c.flags |= 4          # unordered: does not touch the stream's expected sequence number
        c.stream_id = rng.choice([0, 1, 2, 3, 65535, rng.randrange(65536)])
        c.stream_seq = rng.choice([0, 1, 2, 65535, 32768, rng.randrange(65536)])
        c.protocol = rng.choice([50, 51, 53, 56, 57, 0, 52, 2**32 - 1])
        c.user_data = rng.choice([b"", b"\x00", b"\xff\xfe", "é".encode(), b"\xc3", b"x" * 1200, bytes(rng.randrange(256) for _ in range(rng.randrange(0, 40)))])
        chunks.append(bytes(c))
    elif kind in (4, 5):  # DCEP messages
        c = m.DataChunk()
        if rng.random() < 0.2:
            c.flags = 3
            c.tsn = near(rng, last, 5)
            forging = True
        else:
            c.flags = 7
            c.tsn = far(rng, last)
        ids = list(t._data_channels.keys()) or [0]
        c.stream_id = rng.choice(ids + [rng.randrange(0, 20), 65535])
        c.stream_seq = rng.randrange(4)
        c.protocol = 50
        label = rng.choice([b"", b"abc", "é→".encode(), b"\xff\xfe\xfd", b"\xc3", b"\xed\xa0\x80", b"\xf4\x90\x80\x80", b"\xe0\x80\x80"])
        proto = rng.choice([b"", b"p", b"\x80"])
        ll = rng.choice([len(label), len(label) + 1, 0, 65535, max(0, len(label) - 1)])
        pl = rng.choice([len(proto), 0, 65535])
        body = struct.pack("!BBHLHH", rng.choice([3, 3, 3, 2, 0, 1, 255]), rng.choice([0, 1, 2, 3, 0x80, 0x81, 0x82, 0x83, 0xFF]),
                           rng.randrange(65536), rng.choice(U32), ll, pl) + label + proto
        c.user_data = rng.choice([body, body[:11], body[:12], body[:1], b"\x02", b"\x03", body + b"zz"])
        chunks.append(bytes(c))
    elif kind in (6, 7, 8):  # SACK
        c = m.SackChunk()
        if rng.random() < 0.25:
            c.cumulative_tsn = near(rng, sacked, 40)
            forging = True
        else:
            c.cumulative_tsn = rng.choice([sacked, sacked, behind(rng, sacked)])
        c.advertised_rwnd = rng.choice(U32)
        ng = rng.choice([0, 1, 2, 5, 250, 290])
        wide = rng.random() < 0.3      # many maximal blocks: the most expensive SACK a datagram can carry
        for _ in range(ng):
            a = rng.choice([0, 1, 2, 3, 10, 65535, rng.randrange(65536)])
            b = rng.choice([a, a + 1, a - 1, 0, 65535, a + 3, rng.randrange(65536)]) % 65536
            if wide:
                a, b = rng.choice([0, 1, 2]), 65535
            c.gaps.append((a, b))
        if wide and rng.random() < 0.5:
            # acknowledging beyond anything that was sent, or exactly half the number space away from the last
            # acknowledged TSN (neither ahead nor behind in serial arithmetic): such a SACK must be ignored - were it
            # accepted, the next SACK's gap blocks would be expanded over millions of TSNs
            c.cumulative_tsn = rng.choice([(t._local_tsn + rng.choice([0, 1, 5, 1000, 2**30, 2**31 - 2])) % 2**32,
                                           (sacked + 2**31) % 2**32])
            forging = False
        c.duplicates = [rng.choice(U32) for _ in range(rng.choice([0, 1, 3]))]
        chunks.append(bytes(c))
    elif kind == 9:    # FORWARD TSN
        c = m.ForwardTsnChunk()
        if rng.random() < 0.3:
            c.cumulative_tsn = near(rng, last)
            forging = True
        else:
            c.cumulative_tsn = behind(rng, last)
        c.streams = [(rng.choice([0, 1, 2, 3, 65535]), rng.choice([0, 1, 65535, 32767, 32768])) for _ in range(rng.choice([0, 1, 3]))]
        b = bytes(c)
        v = rng.randrange(5)
        if v in (1, 2, 3):
            # a body shorter than the cumulative TSN field is parsed as "cumulative TSN 0" (or a
            # truncated value): in effect a forged FORWARD TSN
            forging = True
        chunks.append([b, b[:6] + b"\x00\x00", raw_chunk(192, 0, b""), raw_chunk(192, 0, b"\x00\x01"),
                       raw_chunk(192, 0, struct.pack("!L", c.cumulative_tsn) + b"\x00\x01\x00")][v])
    elif kind == 10:   # RE-CONFIG
        forging = True
        ps = []
        for _ in range(rng.choice([1, 1, 2, 3])):
            pt = rng.choice([13, 16, 17, 14, 0, 65535])
            if pt == 13:
                v = struct.pack("!LLL", near(rng, t._reconfig_response_seq, 3), rng.choice(U32), rng.choice(U32))
                v += b"".join(struct.pack("!H", rng.choice(list(t._data_channels.keys()) + [0, 1, 2, 65535])) for _ in range(rng.choice([0, 1, 2, 135])))
            elif pt == 16:
                rs = t._reconfig_request.request_sequence if t._reconfig_request else rng.choice(U32)
                v = struct.pack("!LL", rng.choice([rs, rs, (rs + 1) % 2**32, rng.choice(U32)]), rng.choice([0, 1, 2, 2**32 - 1]))
            elif pt == 17:
                v = struct.pack("!LHH", rng.choice(U32), rng.choice([0, 1, 65535]), 0)
            else:
                v = bytes(rng.randrange(256) for _ in range(rng.randrange(0, 9)))
            v = rng.choice([v, v, v[:-1], v[:3], b"", v + b"\x00"])
            ps.append((pt, v))
        body = m.encode_params(ps)
        chunks.append(rng.choice([raw_chunk(130, 0, body), raw_chunk(130, 0, body[:-1] if body else b""), raw_chunk(130, 0, body + b"\x00\x01\x00\x00"), raw_chunk(130, 0, body + b"\x00\x01\x00\x03")]))
    elif kind == 11:   # INIT (possibly bundled)
        forging = True
        c = m.InitChunk()
        c.initiate_tag = rng.choice(U32)
        c.advertised_rwnd = rng.choice(U32)
        c.outbound_streams = rng.choice([0, 1, 65535])
        c.inbound_streams = rng.choice([0, 1, 65535])
        c.initial_tsn = rng.choice(U32)
        c.params = rng.choice([[], [(0xC000, b"")], [(0x8008, b"\xc0\x82")], [(7, b"x" * 24)], [(1, b"abc")]])
        b = bytes(c)
        chunks.append(rng.choice([b, b[:10] + b"\x00\x00", raw_chunk(1, 0, b""), raw_chunk(1, 0, b[4:12])]))
        if rng.random() < 0.3:
            chunks.append(bytes(m.CookieAckChunk()))
        tag = rng.choice([0, 0, tag])
    elif kind == 12:   # INIT ACK
        forging = True
        c = m.InitAckChunk()
        c.initiate_tag = rng.choice(U32)
        c.advertised_rwnd = rng.choice(U32)
        c.outbound_streams = rng.choice([0, 1, 65535])
        c.inbound_streams = rng.choice([0, 1, 65535])
        c.initial_tsn = rng.choice(U32)
        c.params = rng.choice([[], [(7, b"c" * 24)], [(7, b"")], [(0xC000, b""), (7, b"z" * 5)]])
        b = bytes(c)
        chunks.append(rng.choice([b, raw_chunk(2, 0, b""), raw_chunk(2, 0, b[4:19])]))
    elif kind == 13:   # COOKIE ECHO
        forging = True
        c = m.CookieEchoChunk()
        c.body = rng.choice([b"", b"x" * 24, b"y" * 23, bytes(rng.randrange(256) for _ in range(24))])
        chunks.append(bytes(c))
    elif kind == 14:   # plain control chunks
        cls = rng.choice([m.CookieAckChunk, m.ShutdownAckChunk, m.ShutdownCompleteChunk, m.AbortChunk, m.ErrorChunk, m.HeartbeatChunk, m.HeartbeatAckChunk])
        forging = cls not in (m.HeartbeatChunk, m.HeartbeatAckChunk)
        c = cls()
        if hasattr(c, "params") and rng.random() < 0.5:
            c.params = [(rng.choice([1, 3, 65535]), bytes(rng.randrange(256) for _ in range(rng.randrange(0, 9))))]
        chunks.append(bytes(c))
    elif kind == 15:   # SHUTDOWN
        forging = True
        c = m.ShutdownChunk()
        c.cumulative_tsn = rng.choice(U32)
        b = bytes(c)
        chunks.append(rng.choice([b, raw_chunk(7, 0, b""), raw_chunk(7, 0, b"\x00\x01")]))
    elif kind == 16:   # unknown / odd chunk types and length fields
        ty = rng.choice([15, 63, 64, 127, 128, 191, 193, 255, 0, 3])
        forging = ty in (0, 3)
        body = bytes(rng.randrange(256) for _ in range(rng.randrange(0, 20)))
        chunks.append(rng.choice([raw_chunk(ty, 0, body), raw_chunk(ty, 0, body, length=0), raw_chunk(ty, 0, body, length=3),
                                  raw_chunk(ty, 0, body, length=len(body) + 40), raw_chunk(ty, 0, body, length=4)]))
    elif kind == 17:   # parameter lists with hostile length fields
        ty = rng.choice([4, 5, 6, 9, 130])
        forging = ty in (6, 9)
        body = rng.choice([b"\x00\x01\x00\x00", b"\x00\x01\x00\x03", b"\x00\x01\x00\x04", b"\x00\x01\x00\x05ab", b"\x00\x01\xff\xff", b"\x00\x01\x00\x08abcd\x00\x02", b"\x00"])
        chunks.append(raw_chunk(ty, 0, body))
    elif kind == 18:   # short bodies of fixed-field chunks
        ty = rng.choice([0, 3, 192, 1, 2, 7])
        forging = True
        chunks.append(raw_chunk(ty, rng.choice([0, 3]), bytes(rng.randrange(256) for _ in range(rng.choice([1, 3, 4, 8, 11, 12, 15])))))
    elif kind == 19:   # bundle of several hostile chunks
        parts = []
        for _ in range(rng.choice([2, 3])):
            d, fg = _make(rng, w, dst, inner=True)
            if d and len(d) > 12:
                parts.append(d[12:])
                forging = forging or fg
        if not parts:
            return None, False
        return crc_packet(m, 5000, 5000, tag, b"".join(parts)), forging
    elif kind == 20:   # DATA far ahead of the cumulative TSN (16-bit gap offsets)
        c = m.DataChunk()
        c.flags = 3
        c.tsn = (last + rng.choice([65535, 65536, 65537, 70000, 2**31 - 1, 2**31])) % 2**32
        c.flags = 7
        c.stream_id = rng.randrange(4)
        c.stream_seq = rng.randrange(3)
        c.protocol = 53
        c.user_data = b"far"
        chunks.append(bytes(c))
    else:              # many duplicates / many gap-creating chunks in one packet
        base = far(rng, last)
        for k in range(rng.choice([2, 10, 60])):
            c = m.DataChunk()
            c.flags = 7
            c.tsn = (base + 2 * k) % 2**32 if rng.random() < 0.7 else last
            c.stream_id = 1
            c.stream_seq = k
            c.protocol = 53
            c.user_data = b"g"
            chunks.append(bytes(c))
    if tag != t._local_verification_tag and kind != 11:
        forging = False      # wrong tag: must be ignored altogether (an INIT legitimately carries tag 0)
    return crc_packet(m, 5000, 5000, tag, b"".join(chunks)), forging
