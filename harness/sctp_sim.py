"""Deterministic driver for REAL RTCSctpTransport endpoints (no sockets, no event loop, no wall clock).

Interception points (all installed from here, no source hooks):
  * aiortc.rtcsctptransport.asyncio  -> shim: ensure_future() appends the coroutine to the current
    endpoint's pending-task list; get_event_loop() returns a fake loop whose call_later() registers
    cancellable handles (the armed timers T1/T2/T3).
  * aiortc.rtcsctptransport.time     -> shim: time() returns the scripted clock.
  * aiortc.rtcsctptransport.random32 -> scripted values (verification tag, initial TSN).
  * the DTLS transport is a stub: _send_data() appends the datagram to the endpoint's outbox.

Every handler runs to completion (the stub never suspends), so a step is atomic; `Endpoint.reentrancy`
counts violations of that assumption (a coroutine that did not finish when driven).
"""
from __future__ import annotations

import types

from . import core

_CUR = None  # endpoint whose handler is currently running


class Handle:
    def __init__(self, ep, name, cb):
        self.ep, self.name, self.cb = ep, name, cb
        self.cancelled = False
        self.fired = False

    def cancel(self):
        if not self.cancelled and not self.fired:
            self.cancelled = True
            self.ep.log.append(("tc", self.name))

    def __bool__(self):
        return True


class FakeLoop:
    def call_later(self, delay, cb, *args):
        ep = _CUR
        name = cb.__name__.lstrip("_").split("_")[0]  # t1 / t2 / t3
        h = Handle(ep, name, cb)
        ep.timers.append(h)
        ep.log.append(("ts", name))
        return h

    def time(self):
        return Clock.time()


class Clock:
    """Scripted clock in ticks of 1/1024 s (exactly representable as float)."""
    ticks = 1024000

    @classmethod
    def time(cls):
        return cls.ticks / 1024.0


def _ensure_future(coro):
    ep = _CUR
    name = getattr(coro, "__name__", "task")
    if name == "_send_chunk":
        name = "resend"
    ep.tasks.append((name, coro))
    ep.log.append(("task", name.lstrip("_")))
    return None


_shim_asyncio = types.SimpleNamespace(
    ensure_future=_ensure_future,
    get_event_loop=lambda: FakeLoop(),
    TimerHandle=Handle,
)
_shim_time = types.SimpleNamespace(time=lambda: Clock.time())

_RANDOM = []


def _random32():
    if _RANDOM:
        return _RANDOM.pop(0)
    raise RuntimeError("random32 script exhausted")


_installed = False


def install():
    global _installed
    core.use_repo()
    import aiortc.rtcsctptransport as m

    if not _installed:
        m.asyncio = _shim_asyncio
        m.time = _shim_time
        m.random32 = _random32
        _installed = True
    return m


class DtlsStub:
    def __init__(self, ep, role):
        self.ep = ep
        self.state = "connected"
        self.transport = types.SimpleNamespace(role=role)
        self.registered = False

    def _register_data_receiver(self, r):
        self.registered = True

    def _unregister_data_receiver(self, r):
        self.registered = False

    async def _send_data(self, data):
        self.ep.outbox.append(bytes(data))
        self.ep.log.append(("tx", bytes(data)))


class Endpoint:
    """One real RTCSctpTransport under the fake runtime."""

    def __init__(self, name, role, tag, tsn, port=5000):
        global _CUR
        m = install()
        self.m = m
        self.name = name
        self.log = []          # low-level events of the current step
        self.outbox = []       # datagrams sent during the current step
        self.timers = []       # armed/cancelled/fired handles
        self.tasks = []        # pending (name, coroutine) in ensure_future order
        self.events = []       # application events of the current step
        self.channels = []     # every RTCDataChannel object seen on this side (creation/announce order)
        self.reentrancy = 0
        self.crashes = []
        self.reacted = []
        self.reactions = []    # armed one-shot application handlers: [kind, channel index, data] (see react())
        self.dtls = DtlsStub(self, role)
        _CUR = self
        _RANDOM[:] = [tag, tsn]
        self.t = m.RTCSctpTransport(self.dtls, port)
        self.t.on("datachannel", self._on_datachannel)

    # -- helpers -------------------------------------------------------------------------
    def _on_datachannel(self, ch):
        self._watch(ch)
        ev = ("chan", self.channels.index(ch), ch.id, ch.label, ch.protocol, ch.ordered,
              ch.maxRetransmits, ch.maxPacketLifeTime)
        self.events.append(ev)
        self.log.append(ev)
        self._react(4, self.channels.index(ch), ch)

    def _react(self, kind, i, ch):
        """An application event handler that calls `send()` from inside the event (one-shot, armed by react())."""
        for r in self.reactions:
            if r[0] == kind and (kind == 4 or r[1] == i):
                self.reactions.remove(r)
                try:
                    act = r[2]
                    if isinstance(act, tuple) and act and act[0] == "close":
                        # the handler closes a channel (not modelled by the automaton: oracle-only runs)
                        j = act[1] % len(self.channels)
                        self.channels[j].close()
                        self.events.append(("rclose", i, j))
                    elif isinstance(act, tuple) and act and act[0] == "create":
                        # the handler creates a channel (not modelled by the automaton: oracle-only runs)
                        chn = self.m.RTCDataChannel(self.t, self.m.RTCDataChannelParameters(**act[1]))
                        self._watch(chn)
                        self.events.append(("rcreate", i, self.channels.index(chn)))
                    else:
                        ch.send(act)
                        self.reacted.append((i, act))
                        self.events.append(("rsend", i, act))      # for the oracles only (not an output of the transport)
                except Exception as exc:  # noqa: BLE001 - stays inside the application's handler
                    ev = ("rexc", i, type(exc).__name__)
                    self.events.append(ev)
                    self.log.append(ev)
                return

    def _watch(self, ch):
        if ch in self.channels:
            return
        self.channels.append(ch)
        i = len(self.channels) - 1
        def rec(*ev):
            self.events.append(ev)
            self.log.append(ev)

        ch.on("open", lambda: (rec("open", i), self._react(0, i, ch)))
        ch.on("close", lambda: (rec("close", i), self._react(1, i, ch)))
        ch.on("bufferedamountlow", lambda: (rec("low", i), self._react(2, i, ch)))
        ch.on("message", lambda msg: (rec("message", i, msg), self._react(3, i, ch)))

    def _drive(self, coro):
        """Run a coroutine to completion; it must not suspend."""
        try:
            coro.send(None)
        except StopIteration:
            return
        # suspended: not atomic
        self.reentrancy += 1
        coro.close()

    def armed(self):
        return [h for h in self.timers if not h.cancelled and not h.fired]

    def begin(self):
        global _CUR
        _CUR = self
        self.log = []
        self.outbox = []
        self.events = []
        self.reacted = []      # (channel index, data) of send() calls accepted inside an event handler in this step

    def guard(self, fn, kind="crash"):
        """Run fn; record an escaping exception: `crash` for handlers (what would kill the DTLS pump
        or a task), `exc` for application calls (the exception is returned to the caller)."""
        try:
            fn()
        except Exception as exc:  # noqa
            name = type(exc).__name__
            if name == "error":
                name = "struct.error"
            if kind == "crash":
                self.crashes.append(name)
            self.log.append((kind, name))
            return name
        return None

    # -- inputs --------------------------------------------------------------------------
    def start(self, remote_port=5000):
        self.begin()
        caps = self.m.RTCSctpCapabilities(maxMessageSize=65536)
        return self.guard(lambda: self._drive(self.t.start(caps, remote_port)))

    def stop(self):
        self.begin()
        return self.guard(lambda: self._drive(self.t.stop()))

    def rx(self, data: bytes):
        import time as _time
        self.begin()
        t0 = _time.thread_time()
        r = self.guard(lambda: self._drive(self.t._handle_data(data)))
        self.last_rx_cpu = _time.thread_time() - t0
        return r

    def fire(self, name):
        self.begin()
        for h in self.timers:
            if h.name == name and not h.cancelled and not h.fired:
                h.fired = True
                return self.guard(h.cb)
        raise KeyError("timer not armed: " + name)

    def run_task(self):
        self.begin()
        name, coro = self.tasks.pop(0)
        return self.guard(lambda: self._drive(coro))

    def create(self, **params):
        self.begin()
        P = self.m.RTCDataChannelParameters(**params)
        box = []

        def mk():
            ch = self.m.RTCDataChannel(self.t, P)
            box.append(ch)

        exc = self.guard(mk, "exc")
        if box:
            self._watch(box[0])
        return exc

    def send(self, i, data):
        self.begin()
        return self.guard(lambda: self.channels[i].send(data), "exc")

    def close(self, i):
        self.begin()
        return self.guard(lambda: self.channels[i].close(), "exc")

    def react(self, kind, i, data):
        """Arm a one-shot handler: at the next event `kind` (0 open, 1 close, 2 bufferedamountlow, 3 message of
        channel i; 4 the transport's datachannel event) the application calls send(data) from inside the handler."""
        self.begin()
        self.reactions.append([kind, i, data])
        return None

    def set_threshold(self, i, v):
        self.begin()
        return self.guard(lambda: setattr(self.channels[i], "bufferedAmountLowThreshold", v), "exc")

    # -- observation -----------------------------------------------------------------------
    def public(self):
        return {
            "state": self.t.state,
            "channels": [(c.id, c.readyState, c.bufferedAmount) for c in self.channels],
        }

    def quiescent(self):
        t = self.t
        # a FORWARD TSN that the peer has not caught up with is still outstanding work (it is repeated on T3)
        return (not t._sent_queue and not t._outbound_queue and not t._data_channel_queue
                and not self.tasks and not t._reconfig_queue and t._reconfig_request is None
                and not getattr(t, "_forward_tsn_needed", False))


def parse_chunks(m, data: bytes):
    """Parse a datagram with the real parser; returns (sport, dport, tag, [chunk objects])."""
    return m.parse_packet(data)
