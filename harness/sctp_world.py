"""Two real SCTP endpoints + an adversarial network under a recorded, replayable schedule.

A *case* is {"tsnA","tagA","tsnB","tagB","ops":[...]}.  Ops (all indices are into the CURRENT lists,
an op that is not applicable in the current state is skipped, which keeps shrinking sound):
  ["start", ep]                       ep in "A" (client, ICE controlling) / "B" (server)
  ["deliver", dst, i]                 deliver the i-th datagram queued towards dst (removes it)
  ["drop", dst, i] / ["dup", dst, i]
  ["stash", dst, i] / ["unstash", dst, j]   the network holds back a copy of a datagram / releases it much later
  ["inject", dst, hex]                a datagram made up by the network (C05)
  ["fire", ep, "t1"|"t2"|"t3"]
  ["task", ep]                        run the oldest pending task
  ["create", ep, {label, protocol, ordered, maxRetransmits, maxPacketLifeTime, negotiated, id}]
  ["send", ep, ch, "s"|"b", size, salt]   message content is derived from (ep,ch,counter)
  ["close", ep, ch]
  ["threshold", ep, ch, value]
  ["react", ep, kind, ch, "s"|"b", size, salt]   arm a one-shot application handler that calls send() from INSIDE the next
                                      event of that kind (0 open, 1 close, 2 bufferedamountlow, 3 message of channel ch;
                                      4: the datachannel event, the send goes to the announced channel)
  ["react2", ep, kind, ch, action]    like react, but the handler calls close() on a channel (["close", j]) or creates a channel
                                      (["create", params]); not modelled by the automaton: oracle-only runs
  ["clock", ticks]                    advance the scripted clock (ticks of 1/1024 s)
  ["stop", ep]
  ["heal"]                            fault-free continuation until quiescent (C02)
"""
from __future__ import annotations

import json

from . import sctp_sim as sim


def message(kind, size, salt):
    """Deterministic message content; `salt` makes each message unique."""
    head = f"<{salt}>"
    if kind == "s":
        body = (head + "é→x" * size)[:size] if size else ""
        return body
    raw = (head.encode() + bytes((salt * 7 + i) % 251 for i in range(size)))[:size]
    return raw


class World:
    def __init__(self, case):
        self.case = case
        sim.Clock.ticks = 1024000
        self.ep = {
            "A": sim.Endpoint("A", "controlling", case["tagA"], case["tsnA"]),
            "B": sim.Endpoint("B", "controlled", case["tagB"], case["tsnB"]),
        }
        ssn = case.get("ssn")
        if ssn:
            # white-box shift of the origin of the 16-bit stream sequence numbers (both directions, every stream, also after
            # a stream reset): a stream without state starts at `ssn` instead of 0. Outside the automaton (its streams start
            # at 0): such runs are judged by the oracles only. Per-instance patches; a missing internal = no shift.
            class _Seq(dict):
                def get(self, k, default=None):
                    return dict.get(self, k, ssn if default == 0 else default)
            for n in "AB":
                t = self.ep[n].t
                if isinstance(getattr(t, "_outbound_stream_seq", None), dict) and hasattr(t, "_get_inbound_stream") \
                        and isinstance(getattr(t, "_inbound_streams", None), dict):
                    t._outbound_stream_seq = _Seq(t._outbound_stream_seq)
                    orig = t._get_inbound_stream

                    def get(sid, _orig=orig, _t=t):
                        new = sid not in _t._inbound_streams
                        st = _orig(sid)
                        if new and hasattr(st, "sequence_number"):
                            st.sequence_number = ssn
                        return st
                    t._get_inbound_stream = get
        self.net = {"A": [], "B": []}  # datagrams queued TOWARDS the endpoint
        self.stash = {"A": [], "B": []}  # copies held back by the network for a long time
        self.trace = {"A": [], "B": []}  # per endpoint: (input, outputs)
        self.sent = {"A": {}, "B": {}}    # ep -> channel index -> list of messages accepted by send()
        self.salt = 0
        self.steps = 0

    # ---------------------------------------------------------------------------------
    def _after(self, name, inp, exc):
        ep = self.ep[name]
        other = "B" if name == "A" else "A"
        for d in ep.outbox:
            self.net[other].append(d)
        for i, msg in ep.reacted:
            self.sent[name].setdefault(i, []).append(msg)
        self.trace[name].append({
            "now": sim.Clock.ticks,
            "in": inp,
            "exc": exc,
            "tx": list(ep.outbox),
            "log": list(ep.log),
            "events": list(ep.events),
            "public": ep.public(),
        })
        self.steps += 1

    oplog = None  # when a list: every op that was applied (also those issued by heal()) is appended

    def apply(self, op) -> bool:
        """Apply one op; False if it was not applicable (skipped)."""
        r = self._apply(op)
        if r and self.oplog is not None and op[0] != "heal":
            self.oplog.append(op)
        return r

    def _apply(self, op) -> bool:
        k = op[0]
        if k == "clock":
            sim.Clock.ticks += op[1]
            return True
        if k == "heal":
            self.heal()
            return True
        name = op[1]
        ep = self.ep[name]
        if k == "start":
            if ep.t.state != "new":
                return False
            exc = ep.start()
            self._after(name, ["start"], exc)
            return True
        if k == "stop":
            exc = ep.stop()
            self._after(name, ["stop"], exc)
            return True
        if k == "stash":      # the network keeps a copy of a datagram for much later (duplicate + long delay)
            q = self.net[name]
            if not q:
                return False
            self.stash[name].append(q[op[2] % len(q)])
            return True
        if k == "unstash":
            st = self.stash[name]
            if not st:
                return False
            self.net[name].append(st.pop(op[2] % len(st)))
            return True
        if k in ("deliver", "drop", "dup"):
            q = self.net[name]
            if not q:
                return False
            i = op[2] % len(q)
            if k == "drop":
                q.pop(i)
                return True
            if k == "dup":
                q.append(q[i])
                return True
            d = q.pop(i)
            if not ep.dtls.registered:
                return True  # no data receiver: DTLS drops it
            exc = ep.rx(d)
            self._after(name, ["rx", d], exc)
            self.trace[name][-1]["cpu"] = ep.last_rx_cpu
            return True
        if k == "inject":
            # a datagram made up by the network (hex), handed to the endpoint as it is
            if not ep.dtls.registered:
                return False
            d = bytes.fromhex(op[2])
            exc = ep.rx(d)
            self._after(name, ["rx", d], exc)
            self.trace[name][-1]["cpu"] = ep.last_rx_cpu
            return True
        if k == "fire":
            if not any(h.name == op[2] for h in ep.armed()):
                return False
            exc = ep.fire(op[2])
            self._after(name, ["fire", op[2]], exc)
            return True
        if k == "task":
            if not ep.tasks:
                return False
            tname = ep.tasks[0][0].lstrip("_")
            exc = ep.run_task()
            self._after(name, ["task", tname], exc)
            return True
        if k == "create":
            if ep.t.state == "closed":
                return False
            n0 = len(ep.channels)
            exc = ep.create(**op[2])
            self._after(name, ["create", op[2], len(ep.channels) > n0], exc)
            return True
        if k == "send":
            i = op[2]
            if i >= len(ep.channels):
                return False
            msg = message(op[3], op[4], op[5])
            exc = ep.send(i, msg)
            if exc is None:
                self.sent[name].setdefault(i, []).append(msg)
            self._after(name, ["send", i, op[3], op[4], op[5]], exc)
            return True
        if k == "close":
            i = op[2]
            if i >= len(ep.channels):
                return False
            exc = ep.close(i)
            self._after(name, ["close", i], exc)
            return True
        if k == "threshold":
            i = op[2]
            if i >= len(ep.channels):
                return False
            exc = ep.set_threshold(i, op[3])
            self._after(name, ["threshold", i, op[3]], exc)
            return True
        if k == "react":
            # ["react", ep, kind, ch, "s"|"b", size, salt]
            kind, i = op[2], op[3]
            if kind != 4 and i >= len(ep.channels):
                return False
            exc = ep.react(kind, 0 if kind == 4 else i, message(op[4], op[5], op[6]))
            self._after(name, ["react", kind, 0 if kind == 4 else i, op[4], op[5], op[6]], exc)
            return True
        if k == "react2":
            # ["react2", ep, kind, ch, ["close", j] | ["create", params]]: a handler that calls close() / creates a channel
            # from inside the event. NOT part of the automaton: runs that contain it are judged by the oracles only.
            kind, i = op[2], op[3]
            if kind != 4 and i >= len(ep.channels):
                return False
            act = op[4]
            exc = ep.react(kind, 0 if kind == 4 else i, (act[0], act[1]))
            self._after(name, ["react2", kind, 0 if kind == 4 else i, act], exc)
            return True
        raise ValueError("unknown op " + json.dumps(op))

    def run(self, ops=None):
        for op in (self.case["ops"] if ops is None else ops):
            self.apply(op)
        return self

    # ---------------------------------------------------------------------------------
    def heal(self, max_steps=200000):
        """Canonical fault-free continuation: run pending tasks, deliver in FIFO order, and when nothing
        else can happen fire the earliest armed timer. Returns True if quiescence was reached."""
        n = 0
        while n < max_steps:
            n += 1
            progressed = False
            for name in "AB":
                if self.ep[name].tasks:
                    self.apply(["task", name])
                    progressed = True
            if progressed:
                continue
            for name in "AB":
                if self.net[name]:
                    self.apply(["deliver", name, 0])
                    progressed = True
                    break
            if progressed:
                continue
            if all(self.ep[x].quiescent() for x in "AB"):
                return True
            fired = False
            for name in "AB":
                arm = self.ep[name].armed()
                if arm:
                    self.apply(["fire", name, arm[0].name])
                    fired = True
                    break
            if not fired:
                return False
        return False

    # ---------------------------------------------------------------------------------
    def deliveries(self, name):
        """channel index -> list of messages delivered to the application at endpoint `name`."""
        out = {}
        for st in self.trace[name]:
            for ev in st["events"]:
                if ev[0] == "message":
                    out.setdefault(ev[1], []).append(ev[2])
        return out


def arm_reaction(rng, w, name, do):
    """The application registers a handler that calls send() from inside an event (echo on message, greeting on open /
    datachannel, refill on bufferedamountlow, a send attempt on close)."""
    ep = w.ep[name]
    kind = rng.choice([0, 1, 2, 2, 3, 3, 3, 4])
    if kind != 4 and not ep.channels:
        kind = 4
    i = 0 if kind == 4 else rng.randrange(len(ep.channels))
    if kind == 2 and rng.random() < 0.7:
        do(["threshold", name, i, rng.choice([0, 1, 10, 100, 1200])])
    w.salt += 1
    return do(["react", name, kind, i, rng.choice("sb"), rng.choice([0, 1, 10, 100, 1200, 3000]), w.salt])


def arm_reaction2(rng, w, name, do):
    """A handler that calls close() on some channel or creates a channel from inside an event (oracle-only runs)."""
    ep = w.ep[name]
    kind = rng.choice([0, 0, 1, 1, 2, 3, 4])
    if kind != 4 and not ep.channels:
        kind = 4
    i = 0 if kind == 4 else rng.randrange(len(ep.channels))
    if rng.random() < 0.5:
        act = ["close", rng.randrange(8)]
    else:
        # (no negotiated channels here: they would have to be created on both sides)
        p = rng.choice([dict(label="h", ordered=True), dict(label="hid", id=rng.choice([50, 52] if name == "B" else [51, 53]), ordered=True),
                        dict(label="hpr", ordered=False, maxRetransmits=0)])
        act = ["create", p]
    return do(["react2", name, kind, i, act])


def random_ops(rng, case, n_steps, profile, world=None):
    """Drive a world with a random policy and return the list of ops that were applied.
    With `world` (whose `oplog` is a list) the policy continues an existing run."""
    w = world if world is not None else World(dict(case, ops=[]))
    if w.oplog is None:
        w.oplog = []
    ops = w.oplog

    def do(op):
        return w.apply(op)

    if world is None:
        do(["start", "A"])
        do(["start", "B"])
    loss = profile.get("loss", 0.1)
    dup = profile.get("dup", 0.03)
    reorder = profile.get("reorder", 0.2)
    hostile = profile.get("hostile", 0.0)
    for _ in range(n_steps):
        r = rng.random()
        name = rng.choice("AB")
        ep = w.ep[name]
        if profile.get("react") and rng.random() < profile["react"]:
            arm_reaction(rng, w, name, do)
            continue
        if hostile and rng.random() < hostile:
            from . import sctp_hostile
            d, forging = sctp_hostile.make(rng, w, name)
            tries = 0
            while d is not None and forging and not profile.get("forging", True) and tries < 20:
                d, forging = sctp_hostile.make(rng, w, name)
                tries += 1
            if d is not None and forging and not profile.get("forging", True):
                d = None
            if d is not None:
                do(["inject", name, d.hex(), bool(forging)])
            continue
        if r < 0.45:
            q = w.net[name]
            if not q:
                name = "B" if name == "A" else "A"
                q = w.net[name]
            if q:
                i = rng.randrange(len(q)) if rng.random() < reorder else 0
                x = rng.random()
                if rng.random() < profile.get("stash", 0.04):
                    do(["stash", name, i])
                if x < loss:
                    do(["drop", name, i])
                elif x < loss + dup:
                    do(["dup", name, i])
                else:
                    do(["deliver", name, i])
                continue
        if r < 0.47 and w.stash[name]:
            do(["unstash", name, rng.randrange(len(w.stash[name]))])
            continue
        if r < 0.70:
            if ep.tasks:
                do(["task", name])
                continue
        if r < 0.78:
            arm = ep.armed()
            if arm and rng.random() < profile.get("fire", 0.5):
                do(["fire", name, rng.choice(arm).name])
                continue
        if r < 0.84 and len(ep.channels) < profile.get("channels", 3):
            do(["create", name, rng.choice(profile["chan_params"])(rng, w, name)])
            continue
        if r < 0.97 and ep.channels:
            i = rng.randrange(len(ep.channels))
            kind = rng.choice("sb")
            size = rng.choice(profile.get("sizes", [0, 1, 10, 100, 1200, 1201, 2500, 5000]))
            w.salt += 1
            do(["send", name, i, kind, size, w.salt])
            continue
        if r < 0.975 and ep.channels and profile.get("close", True):
            do(["close", name, rng.randrange(len(ep.channels))])
            continue
        if r < 0.985:
            do(["clock", rng.choice([1, 10, 100, 1000, 3000, 70000])])
            continue
        # default: run a task or deliver
        if ep.tasks:
            do(["task", name])
    return ops
