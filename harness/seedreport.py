"""Markdown table of the seeded-breakage results (seeded/*/meta.json) for DESIGN.md §9."""
import json
import os

VERIF = os.path.dirname(os.path.dirname(os.path.abspath(__file__)))


def main():
    rows = []
    d = os.path.join(VERIF, "seeded")
    for name in sorted(os.listdir(d)):
        p = os.path.join(d, name, "meta.json")
        if not os.path.exists(p):
            continue
        m = json.load(open(p))
        readme = ""
        rp = os.path.join(d, name, "README.md")
        if os.path.exists(rp):
            txt = open(rp).read().strip().splitlines()
            readme = next((l for l in txt if l.strip() and not l.startswith("#")), "")[:170]
        how = "not caught"
        if m.get("obsolete"):
            how = "obsolete (no longer breaks the property after a later fix)"
        elif m.get("note", "").startswith("needs a DTLS transport"):
            how = "cannot manifest with the library's own transports (see meta.json)"
        elif m.get("caught"):
            how = "oracle: concrete failing input" if m.get("concrete_failing_input") else "model/implementation disagreement (no-failing-input-found)"
        rows.append((m["property"], name, readme.replace("|", "/"), how, str(m.get("replay_what") or "")[:140].replace("|", "/").replace("\n", " ")))
    print("| property | seeded change | what it does | caught by `./check` | first violation |")
    print("|---|---|---|---|---|")
    for r in rows:
        print("| " + " | ".join(r) + " |")
    n = len(rows)
    c = sum(1 for r in rows if r[3].startswith(("oracle", "model/")))
    x = sum(1 for r in rows if r[3].startswith(("obsolete", "cannot")))
    k = sum(1 for r in rows if r[3].startswith("oracle"))
    print(f"\n{c} of {n - x} applicable seeded changes are caught by the quick tier of the property they were written against "
          f"({k} with a concrete failing input; {x} not applicable).")


if __name__ == "__main__":
    main()
