"""Confirm a seeded breaking change and run our check against it.

    python -m harness.seedtest <dir with patch.diff, demo.py, README.md> <property id> [--name <slug>] [--tier quick]

Works in a scratch worktree of /repo (never in /repo itself): (1) the patch applies to /repo's HEAD,
(2) demo passes on the clean tree and fails with the patch, (3) the repo's own tests still pass with
the patch, (4) `VERIF_REPO=<worktree> ./check <prop>` reports a VIOLATION.  Writes
seeded/<prop>-<slug>/{patch.diff, demo.py, README.md, meta.json}.
"""
from __future__ import annotations

import argparse
import json
import os
import re
import shutil
import subprocess
import sys
import time

VERIF = os.path.dirname(os.path.dirname(os.path.abspath(__file__)))
WT = "/tmp/seedwt"


def sh(cmd, cwd=None, env=None, timeout=3000):
    e = dict(os.environ)
    if env:
        e.update(env)
    p = subprocess.run(cmd, shell=True, cwd=cwd, env=e, stdout=subprocess.PIPE, stderr=subprocess.STDOUT, text=True,
                       timeout=timeout)
    return p.returncode, p.stdout


def main():
    ap = argparse.ArgumentParser()
    ap.add_argument("src")
    ap.add_argument("prop")
    ap.add_argument("--name")
    ap.add_argument("--tier", default="quick")
    ap.add_argument("--skip-tests", action="store_true")
    ap.add_argument("--tests", default="tests", help="test files of the repo to run with the patch applied")
    ap.add_argument("--reuse-tests", action="store_true",
                    help="if seeded/<prop>-<slug>/meta.json already records a passing test run for this very patch, keep it")
    a = ap.parse_args()
    src = os.path.abspath(a.src)
    slug = a.name or os.path.basename(src.rstrip("/"))
    patch = os.path.join(src, "patch.diff")
    demo = next((os.path.join(src, f) for f in ("demo.py", "test_demo.py") if os.path.exists(os.path.join(src, f))), None)
    meta = {"property": a.prop, "source": src, "checked_at": time.strftime("%Y-%m-%d %H:%M:%S")}
    prior = None
    dst0 = os.path.join(VERIF, "seeded", f"{a.prop}-{slug}")
    if a.reuse_tests and os.path.exists(os.path.join(dst0, "meta.json")) and os.path.exists(os.path.join(dst0, "patch.diff")):
        with open(os.path.join(dst0, "meta.json")) as f:
            pm = json.load(f)
        with open(os.path.join(dst0, "patch.diff")) as f1, open(patch) as f2:
            same = f1.read() == f2.read()
        if same and pm.get("repo_tests_pass"):
            prior = {k: pm[k] for k in ("repo_tests_run", "repo_tests_tail", "repo_tests_pass", "note", "obsolete") if k in pm}

    sh(f"git -C /repo worktree remove --force {WT}")
    rc, out = sh(f"git -C /repo worktree add -q --detach {WT} HEAD")
    if rc:
        print(out)
        return 2
    try:
        env = {"PYTHONPATH": f"{WT}/src"}
        if demo:
            rc0, out0 = sh(f"/venv/bin/python {demo}", cwd=WT, env=env, timeout=900)
            meta["demo_clean_rc"] = rc0
        rc, out = sh(f"git apply --recount {patch}", cwd=WT)
        meta["patch_applies"] = rc == 0
        if rc:
            print("patch does not apply:", out[-500:])
        else:
            if demo:
                rc1, out1 = sh(f"/venv/bin/python {demo}", cwd=WT, env=env, timeout=900)
                meta["demo_patched_rc"] = rc1
                meta["demo_patched_tail"] = out1[-600:]
            if prior is not None:
                meta.update(prior)
            elif not a.skip_tests:
                rct, outt = sh(f"/venv/bin/python -m pytest -q -p no:cacheprovider -n 4 {a.tests} 2>&1 | tail -3", cwd=WT, env=env,
                               timeout=1800)
                meta["repo_tests_run"] = a.tests
                meta["repo_tests_tail"] = outt.strip()[-300:]
                meta["repo_tests_pass"] = bool(re.search(r"\b\d+ passed", outt)) and "failed" not in outt
            t0 = time.time()
            rcc, outc = sh(f"./check {a.prop} --tier {a.tier}", cwd=VERIF, env={"VERIF_REPO": WT}, timeout=3000)
            meta["check_cmd"] = f"VERIF_REPO=<worktree with patch> ./check {a.prop} --tier {a.tier}"
            meta["check_rc"] = rcc
            meta["check_wall_s"] = round(time.time() - t0, 1)
            vio = [l for l in outc.splitlines() if l.startswith("VIOLATION")]
            meta["check_violation_line"] = vio[0] if vio else None
            meta["check_summary"] = outc.strip().splitlines()[-1][:400] if outc.strip() else ""
            meta["caught"] = rcc == 1 and bool(vio)
            meta["concrete_failing_input"] = bool(vio) and "no-failing-input-found" not in vio[0]
            if vio:
                m = re.search(r"replay=(\S+)", vio[0])
                if m and os.path.exists(os.path.join(VERIF, m.group(1))):
                    with open(os.path.join(VERIF, m.group(1))) as f:
                        rp = json.load(f)
                    meta["replay_what"] = str(rp.get("what") or rp.get("broken") or rp.get("correspondence"))[:600]
    finally:
        sh(f"git -C /repo worktree remove --force {WT}")
        # restore the regenerated Gen files / build for the real tree
        sh("/venv/bin/python -m harness.gen", cwd=VERIF)
    dst = os.path.join(VERIF, "seeded", f"{a.prop}-{slug}")
    os.makedirs(dst, exist_ok=True)
    if not meta.get("patch_applies") and os.path.exists(os.path.join(dst, "meta.json")):
        # the repository moved on (a later fix: commit touches the same lines): keep the recorded run
        with open(os.path.join(dst, "meta.json")) as f:
            old = json.load(f)
        if old.get("patch_applies"):
            old["stale_since"] = meta["checked_at"] + ": the patch no longer applies to /repo's HEAD; results are those of the recorded run"
            with open(os.path.join(dst, "meta.json"), "w") as f:
                json.dump(old, f, indent=1)
            print(json.dumps({"property": a.prop, "patch_applies": False, "kept_recorded_run": True, "caught": old.get("caught"),
                              "concrete_failing_input": old.get("concrete_failing_input"), "repo_tests_pass": old.get("repo_tests_pass"),
                              "demo_clean_rc": old.get("demo_clean_rc"), "demo_patched_rc": old.get("demo_patched_rc"),
                              "check_violation_line": old.get("check_violation_line"), "replay_what": old.get("replay_what")}, indent=1))
            return 0
    for f in os.listdir(src):
        if (os.path.isfile(os.path.join(src, f)) and os.path.getsize(os.path.join(src, f)) < 200000
                and os.path.abspath(src) != os.path.abspath(dst)):
            shutil.copy(os.path.join(src, f), os.path.join(dst, f))
    with open(os.path.join(dst, "meta.json"), "w") as f:
        json.dump(meta, f, indent=1)
    print(json.dumps({k: meta.get(k) for k in ("property", "patch_applies", "demo_clean_rc", "demo_patched_rc", "repo_tests_pass",
                                               "caught", "concrete_failing_input", "check_violation_line", "replay_what")}, indent=1))
    return 0


if __name__ == "__main__":
    sys.exit(main())
