import Aiortc.Gen.Constants
import Aiortc.Gen.Serial
import Aiortc.Props.C17
