import Aiortc.Model.Close
import Aiortc.Drv.Util
/-! Driver for the close/shutdown model (C19): the lifecycle trace recorded on each of the two real peer connections is
replayed through `State.run`.

Request:  `close run <trace peer0>|<trace peer1>`      trace = `-` or `;`-joined tokens
  inputs      `cc` close() by the application, `cca` close() by the auto-close task, `nb`/`ns`/`ne` negotiation call
              begins / spawns `__connect` / ends, `at` new transport, `ax:k` new transceiver on transport k, `as:k` SCTP
              transport on k, `ys:k` SCTP moved to k, `cn` new channel, `ce:j:o|g|x` channel j opened / closing / closed
  transceiver `x:i:ss` sender started, `x:i:rs` receiver started, `x:i:f:p|s|r` first step of rtp / sender-rtcp /
              receiver-rtcp, `x:i:e:p|s|r` it set its exited event, `x:i:ds` decoder stopped by the peer, `x:i:mt` remote
              track exists, `x:i:as:k` moved to transport k, `x:i:c:p|s|r` cancelled by an application stop()
  transport   `t:k:is` `t:k:id:0|1` `t:k:ds` `t:k:du` `t:k:df` `t:k:pe` `t:k:mf` `t:k:me` `t:k:ns` (next step of a BUNDLE clean-up)
  connect     `kf:c` first step, `ke:c` finished, `ss` sctp.start()
  close       `c:er:i c:cr:i c:lr:i c:es:i c:cp:i c:cs:i c:ls:i c:ec c:lc c:ed:k c:cu:k c:ld:k c:ei:k c:ck:k c:li:k c:lx`
              `wr` a secondary close() returned
  observe     `em` connection event delivered, `oc:c` connect task c cancelled, `oa` auto-close task exists
Reply:    `<peer0>|<peer1>`, each `ok <summary>` or `rej@<n>:<token> <summary>` (n = index of the first token the model
          does not accept; the summary is that of the state reached). -/
namespace Aiortc.Drv.Close
open Aiortc.Model.Close Aiortc.Drv

def parseWhich? : String → Option Which
  | "p" => some .rtp | "s" => some .srtcp | "r" => some .rrtcp | _ => none

def parseChan? : String → Option Chan
  | "c" => some .connecting | "o" => some .opened | "g" => some .closing | "x" => some .closed | _ => none

def parseLabel? : List String → Option CLabel
  | ["er", i] => (parseNat? i).map .enterRcv
  | ["cr", i] => (parseNat? i).map .cancelRrtcp
  | ["lr", i] => (parseNat? i).map .leaveRcv
  | ["es", i] => (parseNat? i).map .enterSnd
  | ["cp", i] => (parseNat? i).map .cancelRtp
  | ["cs", i] => (parseNat? i).map .cancelSrtcp
  | ["ls", i] => (parseNat? i).map .leaveSnd
  | ["ec"] => some .enterSctp
  | ["lc"] => some .leaveSctp
  | ["ed", k] => (parseNat? k).map .enterDtls
  | ["cu", k] => (parseNat? k).map .cancelPump
  | ["ld", k] => (parseNat? k).map .leaveDtls
  | ["ei", k] => (parseNat? k).map .enterIce
  | ["ck", k] => (parseNat? k).map .connClosed
  | ["li", k] => (parseNat? k).map .leaveIce
  | ["lx"] => some .leaveClose
  | _ => none

def parseTrxAct? : List String → Option TrxAct
  | ["ss"] => some .sndStart
  | ["rs"] => some .rcvStart
  | ["f", w] => (parseWhich? w).map .first
  | ["e", w] => (parseWhich? w).map .exit
  | ["ds"] => some .decoderStop
  | ["mt"] => some .mkTrack
  | ["as", k] => (parseNat? k).map .assign
  | ["c", w] => (parseWhich? w).map .cancel
  | _ => none

def parseTptAct? : List String → Option TptAct
  | ["is"] => some .iceStart
  | ["id", b] => (parseBool? b).map .iceDone
  | ["ds"] => some .dtlsStart
  | ["du"] => some .dtlsUp
  | ["df"] => some .dtlsFail
  | ["pe"] => some .pumpExit
  | ["mf"] => some .monFirst
  | ["me"] => some .monExit
  | ["ns"] => some .nstep
  | _ => none

def parseAction? (tok : String) : Option Action :=
  match tok.splitOn ":" with
  | ["cc"] => some (.closeCall false)
  | ["cca"] => some (.closeCall true)
  | ["nb"] => some .negBegin
  | ["ns"] => some .negSpawn
  | ["ne"] => some .negEnd
  | ["at"] => some .addTpt
  | ["ax", k] => (parseNat? k).map .addTrx
  | ["as", k] => (parseNat? k).map .addSctp
  | ["ys", k] => (parseNat? k).map .assignSctp
  | ["cn"] => some .chanNew
  | ["ce", j, c] => match parseNat? j, parseChan? c with | some j, some c => some (.chanEv j c) | _, _ => none
  | "x" :: i :: rest => match parseNat? i, parseTrxAct? rest with | some i, some a => some (.trx i a) | _, _ => none
  | "t" :: k :: rest => match parseNat? k, parseTptAct? rest with | some k, some a => some (.tpt k a) | _, _ => none
  | ["kf", c] => (parseNat? c).map .connFirst
  | ["ke", c] => (parseNat? c).map .connExit
  | ["ss"] => some .sctpStart
  | "c" :: rest => (parseLabel? rest).map .close
  | ["wr"] => some .waiterReturn
  | ["em"] => some .emit
  | ["oc", c] => (parseNat? c).map .obsCancelConn
  | ["oa"] => some .obsAutoSpawn
  | _ => none

def showChan : Chan → String
  | .connecting => "c" | .opened => "o" | .closing => "g" | .closed => "x"

def aliveRuns (t : Trx) : Nat :=
  (if t.rtp.quiet then 0 else 1) + (if t.srtcp.quiet then 0 else 1) + (if t.rrtcp.quiet then 0 else 1)

def aliveTpt (t : Tpt) : Nat := (if t.pump = .live then 1 else 0) + (if t.monQuiet then 0 else 1)

def summary (s : State) : String :=
  let chans := match s.sctp with | some sc => sc.chans | none => []
  let live := (s.trxs.map aliveRuns).sum + (s.tpts.map aliveTpt).sum + (s.conns.filter (·.pc ≠ .done)).length
  let thr := (s.trxs.filter (·.decoder = .running)).length
  let trk := (s.trxs.filter (·.hasTrack)).map (·.trackEnd)
  "closed=" ++ showBool s.closed ++ " done=" ++ showBool s.closeDone ++ " sig=" ++ showBool s.sigClosed
    ++ " ice=" ++ showBool s.iceClosed ++ " conn=" ++ showBool s.connClosed ++ " lis=" ++ showBool s.listeners
    ++ " chans=" ++ showList showChan chans ++ " live=" ++ toString live ++ " thr=" ++ toString thr
    ++ " trk=" ++ showList showBool trk ++ " w=" ++ toString s.waiters

/-- replay; stops at the first token that does not parse or is not enabled -/
def replay : State → List String → Nat → String
  | s, [], _ => "ok " ++ summary s
  | s, tok :: rest, n =>
    match parseAction? tok with
    | none => "rej@" ++ toString n ++ ":" ++ tok ++ " " ++ summary s
    | some a =>
      match s.step a with
      | some s' => replay s' rest (n + 1)
      | none => "rej@" ++ toString n ++ ":" ++ tok ++ " " ++ summary s

def runPeer (tr : String) : String :=
  replay State.init (if tr = "-" then [] else tr.splitOn ";") 0

def handleTop : List String → String
  | ["run", traces] => "|".intercalate ((traces.splitOn "|").map runPeer)
  | _ => "bad-op"

end Aiortc.Drv.Close
