import Aiortc.Model.H264
import Aiortc.Model.Vp8
import Aiortc.Drv.Util
/-! Line-protocol handler for the H.264 / VP8 payload-format models (C16).

Byte strings are lowercase hex, "-" for the empty string.  A list of byte strings is joined with ","
and the empty list is "~".  Optional integers are decimal or "N". -/
namespace Aiortc.Drv.Codec
open Aiortc Aiortc.Drv Aiortc.Model

/-- Tail-recursive hex printer (payloads are up to 60 kB). -/
def toHexFast (bs : List Nat) : String :=
  if bs.isEmpty then "-" else
  String.ofList (bs.foldl (fun acc b => hexChar (b % 16) :: hexChar (b / 16 % 16) :: acc) []).reverse

def showBytesList (l : List Bytes) : String :=
  if l.isEmpty then "~" else ",".intercalate (l.map toHexFast)

def parseBytesList? (s : String) : Option (List Bytes) :=
  if s = "~" then some [] else (s.splitOn ",").mapM parseHex?

def parseOptNat? (s : String) : Option (Option Nat) :=
  if s = "N" then some none else (parseNat? s).map some

def showOptNat : Option Nat → String
  | none => "N"
  | some n => toString n

def showOptBytes : Option Bytes → String
  | none => "N"
  | some b => toHexFast b

def showDescr (d : Vp8.Descr) : String :=
  s!"{d.partition_start} {d.partition_id} {showOptNat d.picture_id} {showOptNat d.tl0picidx} " ++
  (match d.tid with | none => "N N" | some (a, b) => s!"{a} {b}") ++ s!" {showOptNat d.keyidx}"

def handleTop : List String → String
  | ["h264_parse", d] => match parseHex? d with
    | some d => (H264.parse d).tag fun r => showBool r.1 ++ " " ++ toHexFast r.2
    | none => "bad-op"
  | ["h264_depayload", d] => match parseHex? d with
    | some d => (H264.depayload d).tag toHexFast
    | none => "bad-op"
  | ["vp8_depayload", d] => match parseHex? d with
    | some d => (Vp8.depayload d).tag toHexFast
    | none => "bad-op"
  | ["h264_fua", d] => match parseHex? d with
    | some d => (H264.packetizeFuA d).tag showBytesList
    | none => "bad-op"
  | ["h264_stapa", d, it] => match parseHex? d, parseBytesList? it with
    | some d, some it => (H264.packetizeStapA d it).tag fun r =>
        toHexFast r.1 ++ " " ++ showOptBytes r.2.1 ++ " " ++ toString r.2.2.length
    | _, _ => "bad-op"
  | ["h264_packetize", l] => match parseBytesList? l with
    | some l => (H264.packetize l).tag showBytesList
    | none => "bad-op"
  | ["h264_split", d] => match parseHex? d with
    | some d => (H264.splitBitstream d).tag showBytesList
    | none => "bad-op"
  | ["h264_pack", d] => match parseHex? d with
    | some d => (H264.pack d).tag showBytesList
    | none => "bad-op"
  | ["vpx_bytes", ps, pid, pic, tl0, t0, t1, k] =>
    match parseNat? ps, parseNat? pid, parseOptNat? pic, parseOptNat? tl0, parseOptNat? t0, parseOptNat? t1,
        parseOptNat? k with
    | some ps, some pid, some pic, some tl0, some t0, some t1, some k =>
      let tid := match t0, t1 with
        | some a, some b => some (a, b)
        | _, _ => none
      (Vp8.Descr.toBytes ⟨ps, pid, pic, tl0, tid, k⟩).tag toHexFast
    | _, _, _, _, _, _, _ => "bad-op"
  | ["vpx_parse", d] => match parseHex? d with
    | some d => (Vp8.parse d).tag fun r => showDescr r.1 ++ " " ++ toHexFast r.2
    | none => "bad-op"
  | ["vp8_packetize", pic, d] => match parseNat? pic, parseHex? d with
    | some pic, some d => (Vp8.packetize d pic).tag showBytesList
    | _, _ => "bad-op"
  | _ => "bad-op"

end Aiortc.Drv.Codec
