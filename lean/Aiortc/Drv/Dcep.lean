import Aiortc.Model.Sctp.Dcep
import Aiortc.Drv.Util
/-! Line-protocol driver for the DCEP helpers of C13: `dcep utf8 <hex>` (what `bytes.decode("utf8")` accepts),
`dcep decode <hex>` (the OPEN parser), `dcep encode <label> <protocol> <ordered> <rtx|-> <life|->`. -/
namespace Aiortc.Drv.Dcep
open Aiortc Aiortc.Drv Aiortc.Sctp

def showOpt : Option Nat → String
  | none => "-"
  | some n => toString n

def parseOpt? (s : String) : Option (Option Nat) :=
  if s = "-" then some none else (parseNat? s).map some

def showOpen (p : OpenParams) : String :=
  s!"ok {toHex p.label} {toHex p.protocol} {showBool p.ordered} {showOpt p.maxRetransmits} {showOpt p.maxPacketLifeTime}"

def handleTop : List String → String
  | ["utf8", h] => match parseHex? h with
    | some b => showBool (utf8Valid b) | none => "bad-op"
  | ["cp", n] => match parseNat? n with
    | some n => toHex (encodeCp n) | none => "bad-op"
  | ["decode", h] => match parseHex? h with
    | some b => (match decodeOpen b with | none => "none" | some p => showOpen p)
    | none => "bad-op"
  | ["encode", l, p, o, r, t] =>
    match parseHex? l, parseHex? p, parseBool? o, parseOpt? r, parseOpt? t with
    | some l, some p, some o, some r, some t =>
      (encodeOpen { id := none, label := l, protocol := p, ordered := o, maxRetransmits := r,
                    maxPacketLifeTime := t }).tag toHex
    | _, _, _, _, _ => "bad-op"
  | _ => "bad-op"

end Aiortc.Drv.Dcep
