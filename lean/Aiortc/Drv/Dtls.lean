import Aiortc.Model.Dtls
import Aiortc.Drv.Util
/-! Line protocol for the DTLS model (see harness/props/C04.py for the encodings).

Encodings: Str = dot-separated decimal code points, `-` = empty; Bytes = hex, `-` = empty;
digests = `str=hex,…`; fingerprints = `str:str,…`. -/
namespace Aiortc.Drv.Dtls
open Aiortc Aiortc.Drv Aiortc.Model.Dtls

def parseStr? (s : String) : Option Str :=
  if s = "-" then some [] else (s.splitOn ".").mapM parseNat?

def parseFp? (s : String) : Option Fingerprint :=
  match s.splitOn ":" with
  | [a, v] => do let a ← parseStr? a; let v ← parseStr? v; pure ⟨a, v⟩
  | _ => none

def parseDigest? (s : String) : Option (Str × Bytes) :=
  match s.splitOn "=" with
  | [a, v] => do let a ← parseStr? a; let v ← parseHex? v; pure (a, v)
  | _ => none

def parseRole? : String → Option Role
  | "auto" => some .auto | "client" => some .client | "server" => some .server | _ => none

def parseProfile? (s : String) : Option Profile := TABLE.find? (fun p => p.name == s)

def showState : State → String
  | .new => "new" | .connecting => "connecting" | .connected => "connected"
  | .closed => "closed" | .failed => "failed"

def showRole : Role → String
  | .auto => "auto" | .client => "client" | .server => "server"

def showEff : Eff → String
  | .state s => "st:" ++ showState s
  | .role r => "role:" ++ showRole r
  | .exportLen n => "xl:" ++ toString n
  | .keys n tx rx => "keys:" ++ n ++ ":" ++ toHex tx ++ ":" ++ toHex rx
  | .deliverData d => "dd:" ++ toHex d
  | .deliverRtp d => "drtp:" ++ toHex d
  | .deliverRtcp d => "drtcp:" ++ toHex d
  | .sentData d => "sd:" ++ toHex d
  | .sentRtp d => "srtp:" ++ toHex d
  | .sentRtcp d => "srtcp:" ++ toHex d
  | .refused => "refused"
  | .raised k => "raised:" ++ k
  | .invalid => "invalid"
  | .oracleMissing => "oracle-missing"

def parseSsl? (s : String) : Option SslRecv :=
  if s = "N" then some .notAsked else if s = "Z" then some .zeroReturn else if s = "E" then some .error
  else if s.startsWith "D" then (parseHex? (s.drop 1).toString).map .data else none

def parseSrtp? (s : String) : Option Unprotect :=
  if s = "N" then some .notAsked else if s = "F" then some .fail
  else if s.startsWith "O" then (parseHex? (s.drop 1).toString).map .ok else none

def parseRecvIn? : List String → Option RecvIn
  | ["T"] => some .timeout
  | ["C"] => some .connError
  | ["K", d, ssl, srtp] => do
    let d ← parseHex? d; let ssl ← parseSsl? ssl; let srtp ← parseSrtp? srtp
    pure (.pkt d ssl srtp)
  | _ => none

def parseEv? (s : String) : Option Ev :=
  match s.splitOn "~" with
  | ["S", ice, fps] => do
    let ice ← parseBool? ice; let fps ← parseList? parseFp? fps; pure (.start fps ice)
  | "W" :: r => (parseRecvIn? r).map .hsWant
  | "P" :: r => (parseRecvIn? r).map .pump
  | ["E"] => some .hsError
  | ["O", dg, sel, mat] => do
    let dg ← parseList? parseDigest? dg; let mat ← parseHex? mat
    pure (.hsOk dg (if sel = "-" then "" else sel) mat)
  | ["D", d] => (parseHex? d).map (.sendData · none)
  | ["D", d, "F", k] => (parseHex? d).map (.sendData · (some k))
  | ["R", d] => (parseHex? d).map (.sendRtp · true)
  | ["R", d, "F"] => (parseHex? d).map (.sendRtp · false)
  | ["X"] => some .stop
  | _ => none

/-- `<profiles>/<hasDR>/<role>/<ev>;<ev>…` → effects joined by ',' followed by `final:<state>`. -/
def traceOne (spec : String) : String :=
  match spec.splitOn "/" with
  | [profiles, dr, role, evs] =>
    match parseList? parseProfile? profiles, parseBool? dr, parseRole? role,
          (if evs = "-" then some [] else (evs.splitOn ";").mapM parseEv?) with
    | some ps, some dr, some role, some evs =>
      let r := run (init ps dr role) evs
      ",".intercalate (r.2.map showEff ++ ["final:" ++ showState r.1.state])
    | _, _, _, _ => "bad-op"
  | _ => "bad-op"

def validateOne (dg fps : String) : String :=
  match parseList? parseDigest? dg, parseList? parseFp? fps with
  | some dg, some fps => showBool (acceptedReal dg fps)
  | _, _ => "bad-op"

/-- A sequence of validations in one process: the policy is a pure function of (digests, list), so the
model answers every element on its own — whatever the implementation remembers between them shows. -/
def strToString (s : Str) : String := String.ofList (s.map Char.ofNat)

/-- canonical form of what `getFingerprints()` returns: `alg=value` lower-cased, joined by ';' -/
def localOne (dg : String) : String :=
  match parseList? parseDigest? dg with
  | some dg => ";".intercalate ((localFingerprints dg).map fun f =>
      strToString (asciiLower f.algorithm) ++ "=" ++ strToString (asciiLower f.value))
  | none => "bad-op"

def validateSeq : List String → List String
  | "L" :: dg :: rest => localOne dg :: validateSeq rest
  | dg :: fps :: rest => validateOne dg fps :: validateSeq rest
  | [_] => ["bad-op"]
  | [] => []

def showPktOut : PktOut → String
  | .txRefused => "T" | .rxOld => "O" | .rxReplay => "R" | .authFail => "A" | .delivered => "D"

/-- `ssrc:index:altered` -/
def parsePkt? (s : String) : Option (Nat × Nat × Bool) :=
  match s.splitOn ":" with
  | [a, b, c] => do let a ← parseNat? a; let b ← parseNat? b; let c ← parseBool? c; pure (a, b, c)
  | _ => none

/-- Independent replay databases per SSRC. -/
def windowRun (wtx wrx : Nat) (rep : Bool) : List (Nat × Link) → List (Nat × Nat × Bool) → List String
  | _, [] => []
  | ls, (ssrc, i, a) :: ps =>
    let l := (ls.lookup ssrc).getD {}
    let r := l.send wtx wrx rep i a
    showPktOut r.2 :: windowRun wtx wrx rep ((ssrc, r.1) :: ls.filter (fun x => x.1 != ssrc)) ps

/-- `<record hex | F>@<n>.<n>…` : what was appended to the BIO in this step and the sizes passed to `bio_read`. -/
def parseStep? (s : String) : Option (Option Bytes × List Nat) :=
  match s.splitOn "@" with
  | [r, reads] => do
    let r ← if r = "F" then some none else (parseHex? r).map some
    let reads ← if reads = "" then some [] else (reads.splitOn ".").mapM parseNat?
    pure (r, reads)
  | _ => none

def showDgrams (ds : List Bytes) : String :=
  if ds.isEmpty then "none" else "+".intercalate (ds.map toHex)

def handleTop : List String → String
  | ["frame", pending, steps] =>
    match parseHex? pending, parseList? parseStep? steps with
    | some pending, some steps =>
      let r := sendReads pending steps
      showList showDgrams r.1 ++ " left:" ++ toHex r.2
    | _, _ => "bad-op"
  | ["validate", dg, fps] => validateOne dg fps
  | "validateseq" :: rest => " ".intercalate (validateSeq rest)
  | ["window", wtx, wrx, rep, pkts] =>
    match parseNat? wtx, parseNat? wrx, parseBool? rep, parseList? parsePkt? pkts with
    | some wtx, some wrx, some rep, some pkts =>
      showList id (windowRun (effWindow wtx) (effWindow wrx) rep [] pkts)
    | _, _, _, _ => "bad-op"
  | ["digest", b] =>
    match parseHex? b with
    | some b => showList toString (colonHex b)
    | none => "bad-op"
  | ["kas", k, s, src, idx] =>
    match parseNat? k, parseNat? s, parseHex? src, parseNat? idx with
    | some k, some s, some src, some idx => toHex (getKeyAndSalt k s src idx)
    | _, _, _, _ => "bad-op"
  | ["setup", role, profiles, sel, mat] =>
    match parseRole? role, parseList? parseProfile? profiles, parseHex? mat with
    | some role, some ps, some mat =>
      match setupSrtp role ps (if sel = "-" then "" else sel) mat with
      | none => "none"
      | some k => k.profile.name ++ " " ++ toString (exportLen k.profile) ++ " " ++ toHex k.tx ++ " " ++ toHex k.rx
    | _, _, _ => "bad-op"
  | "trace" :: specs => " | ".intercalate (specs.map traceOne)
  | _ => "bad-op"

end Aiortc.Drv.Dtls
