import Aiortc.Model.Jitter
import Aiortc.Drv.Util
/-!
Driver for the jitter-buffer model.

Request:  `jitter run <capacity> <prefetch> <is_video 0|1> <op>;<op>;…`   (ops: `-` for none)
  op = `a:<seq>:<ts>:<hex>`  JitterBuffer.add(packet)
       `r:<count>`           JitterBuffer.remove(count)
       `s:<count>`           JitterBuffer.smart_remove(count)
       `f`                   JitterBuffer._remove_frame(0)
Reply:    `ok <res>;<res>;…|<origin or n>|<slot>,<slot>,…`  or the `Outcome.tag` of the first exception
  res  = `<pli>/<ts>/<hex>` | `<pli>/n` (add), `r`, `s0|s1`, `f/<ts>/<hex>` | `f/n`
  slot = `n` | `<seq>.<ts>.<hex>`
-/
namespace Aiortc.Drv.Jitter
open Aiortc Aiortc.Drv Aiortc.Model.Jitter

inductive Op where
  | add (p : Packet)
  | remove (n : Nat)
  | smart (n : Int)
  | frame

def parseOp (s : String) : Option Op :=
  match s.splitOn ":" with
  | ["a", a, b, c] =>
    match parseInt? a, parseInt? b, parseHex? c with
    | some a, some b, some c => some (.add ⟨a, b, c⟩)
    | _, _, _ => none
  | ["r", n] => (parseNat? n).map .remove
  | ["s", n] => (parseInt? n).map .smart
  | ["f"] => some .frame
  | _ => none

def showFrame : Option Frame → String
  | none => "n"
  | some f => toString f.ts ++ "/" ++ toHex f.data

def showSlot : Option Packet → String
  | none => "n"
  | some p => toString p.seq ++ "." ++ toString p.ts ++ "." ++ toHex p.data

def showState (jb : JB) : String :=
  (match jb.origin with | none => "n" | some o => toString o) ++ "|" ++
    ",".intercalate (jb.packets.map showSlot)

def step (jb : JB) : Op → Outcome (JB × String)
  | .add p => match add jb p with
    | .ok o => .ok (o.jb, showBool o.pli ++ "/" ++ showFrame o.frame)
    | .valueError => .valueError | .crash k => .crash k | .hang => .hang
  | .remove n => match remove jb n with
    | .ok jb1 => .ok (jb1, "r")
    | .valueError => .valueError | .crash k => .crash k | .hang => .hang
  | .smart n => match smartRemove jb n with
    | .ok (jb1, b) => .ok (jb1, "s" ++ showBool b)
    | .valueError => .valueError | .crash k => .crash k | .hang => .hang
  | .frame => match removeFrame jb 0 with
    | .ok r => .ok (r.jb, "f/" ++ showFrame r.frame)
    | .valueError => .valueError | .crash k => .crash k | .hang => .hang

def runOps : JB → List Op → List String → Outcome (JB × List String)
  | jb, [], acc => .ok (jb, acc.reverse)
  | jb, op :: rest, acc => match step jb op with
    | .ok (jb1, s) => runOps jb1 rest (s :: acc)
    | .valueError => .valueError | .crash k => .crash k | .hang => .hang

def handleTop : List String → String
  | ["run", cap, pre, vid, ops] =>
    match parseNat? cap, parseInt? pre, parseBool? vid, parseList? parseOp (ops.replace ";" ",") with
    | some cap, some pre, some vid, some ops =>
      let r : Outcome (JB × List String) := match mk cap pre vid with
        | .ok jb => runOps jb ops []
        | .valueError => .valueError | .crash k => .crash k | .hang => .hang
      r.tag fun (jb, outs) => ";".intercalate outs ++ "|" ++ showState jb
    | _, _, _, _ => "bad-op"
  | _ => "bad-op"

end Aiortc.Drv.Jitter
