import Aiortc.Drv.Util
import Aiortc.Model.Jsep.Negotiate
/-! Line protocol for C03: `negotiate run <policyA> <policyB> <op;op;…>` runs a script of set-up operations and
complete offer/answer exchanges on a pair of modelled connections and prints, per exchange, the offer and the
answer (abstract descriptions) and at the end the public state of both connections.

ops (`p` = 0/1 peer):  `T:p:kind:dir:track`  addTransceiver      `K:p:kind`  addTrack      `D:p`  createDataChannel
`C:p:idx:i,j,…` setCodecPreferences (indices into get_capabilities(kind).codecs)   `R:p:idx:dir` direction setter
`N:p` exchange with `p` offering.  `runorig` uses the unpatched bundling rule. -/
namespace Aiortc.Drv.Negotiate
open Aiortc.Model.Negotiate
open Aiortc.Model.Jsep (Sig)
open Aiortc (Outcome)

def showOr {α} (f : α → String) : Option α → String
  | some a => f a
  | none => "-"

def joinOr (sep : String) (l : List String) : String := if l.isEmpty then "-" else sep.intercalate l

def showPVal : PVal → String
  | .inl i => "i" ++ toString i
  | .inr s => "s" ++ s

def showCodec (c : Codec) : String :=
  "~".intercalate [toString c.pt, c.mime, toString c.clockRate, showOr toString c.channels,
    joinOr "+" (c.fb.map (fun f => match f.2 with | some p => f.1 ++ "/" ++ p | none => f.1)),
    joinOr "&" (c.params.map (fun p => p.1 ++ "=" ++ showPVal p.2))]

def showExt (e : Ext) : String := toString e.id ++ "=" ++ e.uri

/-- class number of `x` by first appearance in `seen` -/
def classOf (seen : List Nat) (x : Nat) : List Nat × Nat :=
  match seen.idxOf? x with
  | some i => (seen, i)
  | none => (seen ++ [x], seen.length)

def showSecs : List Nat → List MSec → List String
  | _, [] => []
  | seen, m :: ms =>
    let (seen', c) := classOf seen m.transport
    let s := if m.kind.isMedia then
        ";".intercalate [m.kind.str, m.mid, m.direction.str, m.setup.setup, toString c,
          joinOr "," (m.codecs.map showCodec), joinOr "," (m.exts.map showExt)]
      else ";".intercalate [m.kind.str, m.mid, "-", m.setup.setup, toString c, "-", "-"]
    s :: showSecs seen' ms

def showDesc (d : Desc) : String :=
  (match d.type with | .offer => "offer" | .answer => "answer") ++ "{" ++ joinOr "," d.bundle ++ "}["
    ++ joinOr "|" (showSecs [] d.media) ++ "]"

def showSig : Sig → String
  | .stable => "stable" | .haveLocalOffer => "have-local-offer" | .haveRemoteOffer => "have-remote-offer"
  | .haveLocalPranswer => "have-local-pranswer" | .haveRemotePranswer => "have-remote-pranswer" | .closed => "closed"

def showIce (pc : Pc) (id : Nat) : String :=
  match pc.transports.find? (fun t => t.id == id) with
  | some t => (match t.ice with | some true => "controlling" | some false => "controlled" | none => "unset")
  | none => "?"

def showTransceivers (pc : Pc) : List Nat → List Transceiver → List String × List Nat
  | seen, [] => ([], seen)
  | seen, t :: ts =>
    let (seen', c) := classOf seen t.transport
    let s := ",".intercalate [t.kind.str, showOr id t.mid, t.direction.str, showOr Dir.str t.currentDirection,
      showOr Dir.str t.offerDirection, showOr toString t.mline, (pc.roleOf t.transport).str, showIce pc t.transport,
      toString c, showBool t.bundled, joinOr "+" (t.codecs.map (fun c => toString c.pt))]
    let (r, seen'') := showTransceivers pc seen' ts
    (s :: r, seen'')

def showState (pc : Pc) : String :=
  let (ts, seen) := showTransceivers pc [] pc.transceivers
  let s := match pc.sctp with
    | some s =>
      let (_, c) := classOf seen s.transport
      "S(" ++ ",".intercalate [showOr id s.mid, (pc.roleOf s.transport).str, showIce pc s.transport, toString c,
        showBool s.bundled, showOr toString pc.sctpMline] ++ ")"
    | none => "S-"
  ";".intercalate [showSig pc.sig, "live=" ++ toString (pc.transports.filter (·.live)).length,
    "idle=" ++ toString pc.idleTransports.length, "ready=" ++ showBool pc.connectReady,
    "T[" ++ joinOr "|" ts ++ "]", s]

def parseKind? : String → Option Kind
  | "audio" => some .audio | "video" => some .video | _ => none

def parsePolicy? : String → Option Policy
  | "balanced" => some .balanced | "max-compat" => some .maxCompat | "max-bundle" => some .maxBundle | _ => none

def errTag {α} : Outcome α → String
  | .ok _ => "ok" | .valueError => "ValueError" | .crash k => k | .hang => "hang"

/-- which call of an exchange fails first (the exchange itself only reports the exception kind) -/
def failingStep (step : Pc → Nat → List String → Pc) (o a : Pc) : String :=
  match o.createOffer with
  | .ok (o1, offer0) =>
    match o1.setLocal offer0 with
    | .ok o2 =>
      match o2.localDesc with
      | none => "setLocal(offer)"
      | some offer =>
        match a.setRemoteWith step offer with
        | .ok a1 =>
          match a1.createAnswer with
          | .ok answer0 =>
            match a1.setLocal answer0 with
            | .ok a2 =>
              match a2.localDesc with
              | none => "setLocal(answer)"
              | some answer =>
                match o2.setRemoteWith step answer with
                | .ok _ => "none"
                | _ => "setRemote(answer)"
            | _ => "setLocal(answer)"
          | _ => "createAnswer"
        | _ => "setRemote(offer)"
    | _ => "setLocal(offer)"
  | _ => "createOffer"

/-- apply one op to the pair; `none` = malformed request -/
def runOp (step : Pc → Nat → List String → Pc) (pcs : Pc × Pc) (op : String) : Option (Outcome (Pc × Pc) × Option String) :=
  let get (p : Nat) : Pc := if p == 0 then pcs.1 else pcs.2
  let put (p : Nat) (pc : Pc) : Pc × Pc := if p == 0 then (pc, pcs.2) else (pcs.1, pc)
  match op.splitOn ":" with
  | ["T", p, k, d, tr] =>
    match parseNat? p, parseKind? k, Dir.ofStr? d, parseBool? tr with
    | some p, some k, some d, some tr => some (.ok (put p ((get p).addTransceiver k d tr)), none)
    | _, _, _, _ => none
  | ["K", p, k] =>
    match parseNat? p, parseKind? k with
    | some p, some k => some (.ok (put p ((get p).addTrack k)), none)
    | _, _ => none
  | ["D", p] =>
    match parseNat? p with
    | some p => some (.ok (put p (get p).createDataChannel), none)
    | none => none
  | ["C", p, idx, caps] =>
    match parseNat? p, parseNat? idx, parseList? parseNat? caps with
    | some p, some idx, some is =>
      match (get p).transceivers[idx]? with
      | none => none
      | some t =>
        match is.mapM (fun i => (capsOf t.kind)[i]?) with
        | none => none
        | some cs =>
          match (get p).setCodecPreferences idx cs with
          | .ok pc => some (.ok (put p pc), none)
          | e => some (e.bind (fun _ => .ok pcs), none)
    | _, _, _ => none
  | ["R", p, idx, d] =>
    match parseNat? p, parseNat? idx, Dir.ofStr? d with
    | some p, some idx, some d =>
      match (get p).setDirection idx d with
      | .ok pc => some (.ok (put p pc), none)
      | e => some (e.bind (fun _ => .ok pcs), none)
    | _, _, _ => none
  | ["N", p] =>
    match parseNat? p with
    | some p =>
      let o := get p
      let a := get (1 - p)
      match negotiateWith step o a with
      | .ok ex =>
        let pcs' := if p == 0 then (ex.offerer, ex.answerer) else (ex.answerer, ex.offerer)
        some (.ok pcs', some ("N" ++ toString p ++ " " ++ showDesc ex.offer ++ " " ++ showDesc ex.answer))
      | e => some (e.bind (fun _ => .ok pcs), some ("N" ++ toString p ++ " ERR " ++ failingStep step o a ++ " " ++ errTag e))
    | none => none
  | _ => none

def runScript (step : Pc → Nat → List String → Pc) : Pc × Pc → List String → List String → Option (List String)
  | pcs, [], out => some (out ++ ["A=" ++ showState pcs.1, "B=" ++ showState pcs.2])
  | pcs, op :: ops, out =>
    match runOp step pcs op with
    | none => none
    | some (.ok pcs', o) => runScript step pcs' ops (out ++ o.toList)
    | some (e, o) => some (out ++ o.toList ++ ["STOP " ++ op ++ " " ++ errTag e])

def handleTop : List String → String
  | [cmd, pa, pb, script] =>
    match parsePolicy? pa, parsePolicy? pb with
    | some pa, some pb =>
      let step := if cmd == "runorig" then bundleStepOrig else bundleStep
      if cmd != "run" && cmd != "runorig" then "bad-op" else
      match runScript step (Pc.new pa, Pc.new pb) (if script == "-" then [] else script.splitOn ";") [] with
      | some out => " # ".intercalate out
      | none => "bad-op"
    | _, _ => "bad-op"
  | _ => "bad-op"

end Aiortc.Drv.Negotiate
