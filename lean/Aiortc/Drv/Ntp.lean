import Aiortc.Model.Ntp
import Aiortc.Drv.Util
/-!
Driver for `Model/Ntp.lean` (C18, the SR → LSR chain).  Requests:

* `ntp to <days> <seconds> <microseconds>` — `datetime_to_ntp(NTP_EPOCH + timedelta(...))`
* `ntp abs <ntp>` — the abs-send-time expression of `RTCRtpSender._run_rtp` on `current_ntp_time() = ntp`
* `ntp from <ntp>` — `datetime_from_ntp(ntp) - NTP_EPOCH` as `days seconds microseconds`
-/
namespace Aiortc.Drv.Ntp
open Aiortc Aiortc.Drv Aiortc.Model.Ntp

def handleTop : List String → String
  | ["to", d, s, m] =>
    match parseNat? d, parseNat? s, parseNat? m with
    | some d, some s, some m => if s < 86400 ∧ m < 1000000 then s!"ok {toNtp d s m}" else "bad-op"
    | _, _, _ => "bad-op"
  | ["from", n] =>
    match parseNat? n with
    | some n => let (d, s, m) := fromNtp n; s!"ok {d} {s} {m}"
    | none => "bad-op"
  | ["abs", n] =>
    match parseNat? n with
    | some n => s!"ok {absSendTime n}"
    | none => "bad-op"
  | _ => "bad-op"

end Aiortc.Drv.Ntp
