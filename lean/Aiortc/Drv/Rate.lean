import Aiortc.Model.Rate
import Aiortc.Drv.Util
/-! Driver for the C15 model (rate.py): whole-estimator histories, RateCounter op sequences,
AimdRateControl.update sequences, float literal bit patterns, REMB mantissa/exponent. -/
namespace Aiortc.Drv.Rate
open Aiortc Aiortc.Model.Rate Aiortc.Drv

def usageNum : Usage → Nat
  | .normal => 0 | .underusing => 1 | .overusing => 2
def stateNum : RcState → Nat
  | .hold => 0 | .increase => 1 | .decrease => 2
def usageOf? : String → Option Usage
  | "0" => some .normal | "1" => some .underusing | "2" => some .overusing | _ => none

def optInt : Option Int → String
  | none => "-" | some v => toString v

def hexNat (n : Nat) : String := String.ofList (Nat.toDigits 16 n)

def optBits : Option Float → Nat
  | none => 1 | some x => F.bits x

/-- rolling hash of a list of 64-bit patterns (same formula in harness/props/C15.py) -/
def mix (l : List Nat) : Nat := l.foldl (fun h b => (h * 1000003 + b + 1) % 2305843009213693951) 7

def aimdFloats (a : Aimd) : List Nat := [optBits a.avgMax, F.bits a.varMax]
def estFloats (e : Estimator) : List Nat :=
  [F.bits e.e00, F.bits e.e01, F.bits e.e10, F.bits e.e11, F.bits e.offset, F.bits e.prevOffset,
   F.bits e.slope, F.bits e.avgNoise, F.bits e.varNoise] ++ e.hist.map F.bits
def detFloats (d : Detector) : List Nat := [optBits d.overuseTime, F.bits d.prevOffset, F.bits d.threshold]

def aimdInts (a : Aimd) : String :=
  s!"{stateNum a.state},{a.current},{showBool a.nearMax},{showBool a.initialized},{a.latest},{optInt a.firstTime},{optInt a.lastChange}"

def showRet : Option (Int × List Int) → String
  | none => "-"
  | some (b, ss) => toString b ++ "/" ++ ".".intercalate (ss.map toString)

def rbeRecord (verbose : Bool) (s : Rbe) (ret : Option (Int × List Int)) : String :=
  let ints := s!"{usageNum s.det.hypothesis},{aimdInts s.aimd},{s.est.numDeltas},{s.det.overuseCounter},{s.counter.total.count},{s.counter.total.value},{optInt s.counter.originMs},{showBool s.counterInit},{optInt s.lastUpdate},{optInt s.det.lastUpdate}"
  let fl := aimdFloats s.aimd ++ detFloats s.det ++ estFloats s.est
  let f := if verbose then ".".intercalate (fl.map hexNat) else hexNat (mix fl)
  showRet ret ++ "|" ++ ints ++ "|" ++ f

def parsePacket? (s : String) : Option (Int × Int × Int × Int) :=
  match s.splitOn "," with
  | [a, b, c, d] => do
    let a ← parseInt? a; let b ← parseInt? b; let c ← parseInt? c; let d ← parseInt? d
    pure (a, b, c, d)
  | _ => none

def runEst (verbose : Bool) : List (Int × Int × Int × Int) → Rbe → List String → Outcome (List String)
  | [], _, acc => .ok acc.reverse
  | (now, abs, size, ssrc) :: rest, s, acc =>
    match s.add now abs size ssrc with
    | .ok (s', ret) => runEst verbose rest s' (rbeRecord verbose s' ret :: acc)
    | .valueError => .valueError
    | .crash k => .crash k
    | .hang => .hang

inductive COp where
  | add (v now : Int) | rate (now : Int) | reset

def parseCOp? (s : String) : Option COp :=
  match s.splitOn ":" with
  | ["a", v, n] => do let v ← parseInt? v; let n ← parseInt? n; pure (.add v n)
  | ["r", n] => do let n ← parseInt? n; pure (.rate n)
  | ["x"] => some .reset
  | _ => none

def counterRecord (c : RateCounter) (r : String) : String :=
  s!"{r}/{c.total.count}/{c.total.value}/{optInt c.originMs}/{c.originIndex}"

def runCounter : List COp → RateCounter → List String → Outcome (List String)
  | [], _, acc => .ok acc.reverse
  | .add v n :: rest, c, acc =>
    match c.add v n with
    | .ok c' => runCounter rest c' (counterRecord c' "a" :: acc)
    | .valueError => .valueError
    | .crash k => .crash k
    | .hang => .hang
  | .rate n :: rest, c, acc =>
    match c.rate n with
    | .ok (c', r) => runCounter rest c' (counterRecord c' (optInt r) :: acc)
    | .valueError => .valueError
    | .crash k => .crash k
    | .hang => .hang
  | .reset :: rest, c, acc => runCounter rest c.reset (counterRecord c.reset "x" :: acc)

def parseAOp? (s : String) : Option (Usage × Option Int × Int) :=
  match s.splitOn "," with
  | [u, e, n] => do
    let u ← usageOf? u
    let e ← if e = "-" then some none else (parseInt? e).map some
    let n ← parseInt? n
    pure (u, e, n)
  | _ => none

def runAimd : List (Usage × Option Int × Int) → Aimd → List String → Outcome (List String)
  | [], _, acc => .ok acc.reverse
  | (u, e, n) :: rest, a, acc =>
    match a.update u e n with
    | .ok (a', r) =>
      runAimd rest a' (s!"{optInt r}|{aimdInts a'}|{".".intercalate ((aimdFloats a').map hexNat)}" :: acc)
    | .valueError => .valueError
    | .crash k => .crash k
    | .hang => .hang

/-- the float literals of the model, in a fixed order (compared with Python's parse of the same literals) -/
def literals : List Float :=
  [0.4, 1.08, 1.5, 0.85, 0.05, 2.5, 0.0087, 0.039, 12.5, 100.0, 0.1, 1e-13, 1e-3, 50.0, 0.01, 0.002,
   30.0, 1000.0, 3.0, 0.5, timestampToMs, 1.0 / 64.0]

def join (l : List String) : String := ";".intercalate l

def handleTop : List String → String
  | ["est", pk] =>
    match (pk.splitOn ";").mapM parsePacket? with
    | some ps => (runEst false ps Rbe.new []).tag join
    | none => "bad-op"
  | ["estv", pk] =>
    match (pk.splitOn ";").mapM parsePacket? with
    | some ps => (runEst true ps Rbe.new []).tag join
    | none => "bad-op"
  | ["counter", w, sc, ops] =>
    match parseNat? w, parseInt? sc, (ops.splitOn ";").mapM parseCOp? with
    | some w, some sc, some ops => (runCounter ops (RateCounter.new w sc) []).tag join
    | _, _, _ => "bad-op"
  | ["aimd", ops] =>
    match (ops.splitOn ";").mapM parseAOp? with
    | some ops => (runAimd ops Aimd.new []).tag join
    | none => "bad-op"
  | ["consts"] => ".".intercalate (literals.map fun x => hexNat (F.bits x))
  | ["remb", b] =>
    match parseInt? b with
    | some b => match rembLoop 4096 b 0 with
      | some (m, e) => if e * 4 + m / 65536 < 256 then s!"{m},{e}" else "crash error"
      | none => "hang"
    | none => "bad-op"
  | ["fp", cur] =>
    match parseInt? cur with
    | some cur => (Aimd.framePackets cur).tag fun (_, p) => toString p
    | none => "bad-op"
  | ["hyp", m] =>
    match parseInt? m with
    | some m =>
      (Aimd.int15 m).tag toString ++ "," ++ (Aimd.round85 m).tag toString ++ "," ++
      (Aimd.multInc m (some 0) 500).tag toString ++ "," ++ (Aimd.scale1000 m).tag toString
    | none => "bad-op"
  | ["round", a, b] =>
    match parseInt? a, parseInt? b with
    | some a, some b => toString (roundDivHalfEven a b)
    | _, _ => "bad-op"
  | _ => "bad-op"

end Aiortc.Drv.Rate
