import Aiortc.Model.Router
import Aiortc.Model.RouterDelivery
import Aiortc.Drv.Util
/-! Driver for the `RtpRouter` model.

Request: `router run <op>;<op>;…`  (or `router run -` for the empty history), fields separated by `:`

```
rr:<r>:<ssrcs>:<pts>:<mid>     register_receiver   (<mid> = `n` for None, `m<text>` otherwise)
rs:<s>:<ssrc>                  register_sender
ur:<r>   us:<s>                unregister_receiver / unregister_sender
p:<ssrc>:<pt>                  route_rtp
sr:<ssrc>:<reports>  rrp:<ssrc>:<reports>  sdes:<chunks>  bye:<sources>
fb:<fmt>:<ssrc>:<media>        RtcpRtpfbPacket
ps:<fmt>:<ssrc>:<media>:<fci hex>   RtcpPsfbPacket
```
Reply: `<out>;<out>;…|<final state>`; sets and dicts are printed sorted. Also
`router remb <hex>` → `Outcome.tag` of `unpackRembFci`.

Transport level (Model/RouterDelivery.lean): `router deliver <rev> <scripts> <items>`
* `<rev>` = `0`/`1`: iteration order of a recipient set (as built / reversed)
* `<scripts>` = `-` or `;`-separated `R<id>@<nth>=<tableop>/<tableop>/…` (resp. `S<id>@…`): the table operations
  (`rr`/`rs`/`ur`/`us` as above) performed while that endpoint handles the `nth` packet handed to it
* `<items>` = `-` or `;`-separated table operations, `p:<ssrc>:<pt>` (one RTP datagram) and RTCP datagrams
  (`&`-separated RTCP packets)
Reply: one `<out>` per table operation / RTP datagram / RTCP *packet processed*, `;`-separated, `|<final state>`. -/
namespace Aiortc.Drv.Router
open Aiortc Aiortc.Drv Aiortc.Model.Router

def natList? (s : String) : Option (List Nat) := parseList? parseNat? s

def parseMid? (s : String) : Option (Option String) :=
  if s = "n" then some none
  else if s.startsWith "m" then some (some (s.drop 1).toString)
  else none

def parseOp? (s : String) : Option Op :=
  match s.splitOn ":" with
  | ["rr", r, ssrcs, pts, mid] => do
    let r ← parseNat? r; let ssrcs ← natList? ssrcs; let pts ← natList? pts; let mid ← parseMid? mid
    pure (.regReceiver r ssrcs pts mid)
  | ["rs", s, ssrc] => do pure (.regSender (← parseNat? s) (← parseNat? ssrc))
  | ["ur", r] => do pure (.unregReceiver (← parseNat? r))
  | ["us", s] => do pure (.unregSender (← parseNat? s))
  | ["p", ssrc, pt] => do pure (.rtp (← parseNat? ssrc) (← parseNat? pt))
  | ["sr", ssrc, reps] => do pure (.rtcp (.sr (← parseNat? ssrc) (← natList? reps)))
  | ["rrp", ssrc, reps] => do pure (.rtcp (.rr (← parseNat? ssrc) (← natList? reps)))
  | ["sdes", chunks] => do pure (.rtcp (.sdes (← natList? chunks)))
  | ["bye", sources] => do pure (.rtcp (.bye (← natList? sources)))
  | ["fb", fmt, ssrc, media] => do
    pure (.rtcp (.rtpfb (← parseNat? fmt) (← parseNat? ssrc) (← parseNat? media)))
  | ["ps", fmt, ssrc, media, fci] => do
    pure (.rtcp (.psfb (← parseNat? fmt) (← parseNat? ssrc) (← parseNat? media) (← parseHex? fci)))
  | _ => none

def sortNat (l : List Nat) : List Nat := l.mergeSort (fun a b => decide (a ≤ b))

def sortKey {β} (l : List (Nat × β)) : List (Nat × β) := l.mergeSort (fun a b => decide (a.1 ≤ b.1))

def showRecipients (l : List Recipient) : String :=
  let rs := sortNat (l.filterMap fun | .receiver r => some r | _ => none)
  let ss := sortNat (l.filterMap fun | .sender s => some s | _ => none)
  showList id (rs.map (fun r => "R" ++ toString r) ++ ss.map (fun s => "S" ++ toString s))

def showOut : Out → String
  | .unit => "-"
  | .rtp none => "N"
  | .rtp (some r) => "R" ++ toString r
  | .rtcp o => o.tag showRecipients

def showState (st : Router) : String :=
  "recv=" ++ showList toString (sortNat st.receivers)
  ++ " snd=" ++ showList (fun e => toString e.1 ++ ">" ++ toString e.2) (sortKey st.senders)
  ++ " mid=" ++ showList (fun (e : String × Nat) => e.1 ++ ">" ++ toString e.2)
        (st.midTable.mergeSort (fun a b => !(decide (b.1 < a.1))))
  ++ " ssrc=" ++ showList (fun e => toString e.1 ++ ">" ++ toString e.2) (sortKey st.ssrcTable)
  ++ " pt=" ++ showList (fun (e : Nat × List Nat) =>
        toString e.1 ++ ">" ++ "+".intercalate ((sortNat e.2).map toString)) (sortKey st.ptTable)

def toTableOp? : Op → Option TableOp
  | .regReceiver r ssrcs pts mid => some (.regReceiver r ssrcs pts mid)
  | .regSender s ssrc => some (.regSender s ssrc)
  | .unregReceiver r => some (.unregReceiver r)
  | .unregSender s => some (.unregSender s)
  | _ => none

def parseWho? (s : String) : Option Recipient :=
  if s.startsWith "R" then (parseNat? (s.drop 1).toString).map .receiver
  else if s.startsWith "S" then (parseNat? (s.drop 1).toString).map .sender
  else none

def parseScript? (s : String) : Option Script :=
  match s.splitOn "=" with
  | [lhs, rhs] =>
    match lhs.splitOn "@" with
    | [who, nth] => do
      let who ← parseWho? who
      let nth ← parseNat? nth
      let ops ← if rhs = "" then some [] else (rhs.splitOn "/").mapM (fun o => (parseOp? o).bind toTableOp?)
      pure ⟨who, nth, ops⟩
    | _ => none
  | _ => none

def parseItem? (s : String) : Option TOp :=
  match s.splitOn "&" with
  | [one] =>
    match parseOp? one with
    | some (.rtp ssrc pt) => some (.rtpData ssrc pt)
    | some (.rtcp p) => some (.rtcpData [p])
    | some op => (toTableOp? op).map .table
    | none => none
  | many => do
    let pkts ← many.mapM (fun o => match parseOp? o with | some (.rtcp p) => some p | _ => none)
    pure (.rtcpData pkts)

def showTOut : TOut → List String
  | .unit => ["-"]
  | .rtp none => ["N"]
  | .rtp (some r) => ["R" ++ toString r]
  | .rtcp outs => outs.map (fun o => o.tag showRecipients)

def handleTop : List String → String
  | ["deliver", rev, scripts, items] =>
    let sl := if scripts = "-" then some [] else (scripts.splitOn ";").mapM parseScript?
    let il := if items = "-" then some [] else (items.splitOn ";").mapM parseItem?
    match sl, il with
    | some sl, some il =>
      let order : List Recipient → List Recipient := if rev = "1" then List.reverse else id
      let (ts, outs) := trun sl order TState.fresh il
      ";".intercalate (outs.flatMap showTOut) ++ "|" ++ showState ts.router
    | _, _ => "bad-op"
  | ["run", ops] =>
    let opl := if ops = "-" then some [] else (ops.splitOn ";").mapM parseOp?
    match opl with
    | none => "bad-op"
    | some opl =>
      let (st, outs) := run Router.empty opl
      ";".intercalate (outs.map showOut) ++ "|" ++ showState st
  | ["remb", hex] =>
    match parseHex? hex with
    | none => "bad-op"
    | some d => (unpackRembFci d).tag (fun (b, l) => toString b ++ " " ++ showList toString l)
  | _ => "bad-op"

end Aiortc.Drv.Router
