import Aiortc.Model.Rtp.Fields
import Aiortc.Model.Rtp.Rtcp
import Aiortc.Model.Rtp.Packet
import Aiortc.Drv.Util
/-! Line-protocol driver for the RTP/RTCP codec model (C07). -/
namespace Aiortc.Drv.Rtp
open Aiortc Aiortc.Rtp Aiortc.Drv

def showNats (l : List Nat) : String := showList toString l

def showRi (r : ReceiverInfo) : String :=
  "/".intercalate [toString r.ssrc, toString r.fractionLost, toString r.packetsLost,
    toString r.highestSequence, toString r.jitter, toString r.lsr, toString r.dlsr]

def showRis (l : List ReceiverInfo) : String := if l.isEmpty then "-" else "|".intercalate (l.map showRi)

def showChunk (c : SourceInfo) : String :=
  ":".intercalate (toString c.ssrc :: c.items.map fun it => toString it.1 ++ "=" ++ toHex it.2)

def showRtcp : RtcpPacket → String
  | .bye s => "bye(" ++ showNats s ++ ")"
  | .psfb f s m fci => "psfb(" ++ ",".intercalate [toString f, toString s, toString m, toHex fci] ++ ")"
  | .rr s rs => "rr(" ++ toString s ++ ";" ++ showRis rs ++ ")"
  | .rtpfb f s m l => "rtpfb(" ++ ",".intercalate [toString f, toString s, toString m, showNats l] ++ ")"
  | .sdes cs => "sdes(" ++ (if cs.isEmpty then "-" else "|".intercalate (cs.map showChunk)) ++ ")"
  | .sr s i rs => "sr(" ++ toString s ++ "," ++ "/".intercalate [toString i.ntpTimestamp, toString i.rtpTimestamp,
      toString i.packetCount, toString i.octetCount] ++ ";" ++ showRis rs ++ ")"

def showRtcps (ps : List RtcpPacket) : String := if ps.isEmpty then "-" else " ".intercalate (ps.map showRtcp)

def showOpt {α} (f : α → String) : Option α → String
  | none => "N"
  | some a => f a

def showExt (e : HeaderExtensions) : String :=
  ";".intercalate [showOpt toString e.absSendTime,
    showOpt (fun a => showBool a.1 ++ "/" ++ toString a.2) e.audioLevel,
    showOpt toHex e.mid, showOpt toHex e.repairedRtpStreamId, showOpt toHex e.rtpStreamId,
    showOpt toString e.transmissionOffset, showOpt toString e.transportSequenceNumber]

def showRtp (p : RtpPacket) : String :=
  " ".intercalate [toString p.marker, toString p.payloadType, toString p.sequenceNumber, toString p.timestamp,
    toString p.ssrc, "csrc=" ++ showNats p.csrc, "ext=" ++ showExt p.extensions, "payload=" ++ toHex p.payload,
    "pad=" ++ toString p.paddingSize]

def parseOptNat? (s : String) : Option (Option Nat) :=
  if s = "N" then some none else (parseNat? s).map some

/-- ids: `abs,al,mid,rrid,rid,toff,tsn`, each a number or `N`. -/
def parseIds? (s : String) : Option ExtIds :=
  match (s.splitOn ",").mapM parseOptNat? with
  | some [a, b, c, d, e, f, g] =>
    some { absSendTime := a, audioLevel := b, mid := c, repairedRtpStreamId := d, rtpStreamId := e,
           transmissionOffset := f, transportSequenceNumber := g }
  | _ => none

/-- The `padding_size - 1` bytes before the trailing count byte of a parsed packet. -/
def padOf (data : Bytes) (p : RtpPacket) : Bytes :=
  (data.drop (data.length - p.paddingSize)).take (p.paddingSize - 1)

/-- `serialize` does not raise: packet in range, every configured id `< 256` (0 = not sent; duplicates allowed). -/
def serChecked (ids : ExtIds) (p : RtpPacket) (pad : Bytes) : String :=
  if p.WF ∧ (∀ i ∈ ids.toList.filterMap id, i < 256) ∧ pad.length = p.paddingSize - 1 then "ok " ++ toHex (serialize ids p pad) else "not-wf"

def handle : List String → String
  | ["clamp", a] => match parseInt? a with
    | some a => toString (Gen.clamp_packets_lost a) | _ => "bad-op"
  | ["packlost", a] => match parseInt? a with
    | some a => (packLost a).tag toHex | _ => "bad-op"
  | ["unpacklost", h] => match parseHex? h with
    | some d => (unpackLost d).tag toString | _ => "bad-op"
  | ["packremb", b, l] => match parseNat? b, parseList? parseNat? l with
    | some b, some l => if RembWF b l then "ok " ++ toHex (packRemb b l) else "crash struct.error"
    | _, _ => "bad-op"
  | ["unpackremb", h] => match parseHex? h with
    | some d => (unpackRemb d).tag fun r => toString r.1 ++ " " ++ showNats r.2
    | _ => "bad-op"
  | ["nackser", l] => match parseList? parseNat? l with
    | some l => if l.all (· < 65536) then "ok " ++ toHex (serLost l) else "not-wf"
    | _ => "bad-op"
  | ["nackparse", h] => match parseHex? h with
    | some d => "ok " ++ showNats (nackEntries d) | _ => "bad-op"
  | ["rtcpparse", h] => match parseHex? h with
    | some d => (parseCompound d).tag showRtcps | _ => "bad-op"
  | ["rtcpreser", h] => match parseHex? h with
    | some d => match parseCompound d with
      | .ok ps => if ps.all (fun p => decide p.WF) then "ok " ++ toHex (serCompound ps) else "not-wf"
      | o => o.tag showRtcps
    | _ => "bad-op"
  | ["hdrunpack", pr, h] => match parseNat? pr, parseHex? h with
    | some pr, some d => (unpackHeaderExtensions pr d).tag
        (showList fun x => toString x.1 ++ "=" ++ toHex x.2)
    | _, _ => "bad-op"
  | ["rtpparse", ids, h] => match parseIds? ids, parseHex? h with
    | some ids, some d => (parse ids d).tag showRtp | _, _ => "bad-op"
  | ["rtpreser", ids, h] => match parseIds? ids, parseHex? h with
    | some ids, some d => match parse ids d with
      | .ok p => serChecked ids p (padOf d p)
      | o => o.tag showRtp
    | _, _ => "bad-op"
  | ["rtxwrap", ids, h, pt, sq, ss] => match parseIds? ids, parseHex? h, parseNat? pt, parseNat? sq, parseNat? ss with
    | some ids, some d, some pt, some sq, some ss => match parse ids d with
      | .ok p => serChecked ids (wrapRtx p pt sq ss) []
      | o => o.tag showRtp
    | _, _, _, _, _ => "bad-op"
  | ["rtxunwrap", ids, h, pt, ss] => match parseIds? ids, parseHex? h, parseNat? pt, parseNat? ss with
    | some ids, some d, some pt, some ss => match parse ids d with
      | .ok p => match unwrapRtx p pt ss with
        | .ok q => serChecked ids q []
        | o => o.tag showRtp
      | o => o.tag showRtp
    | _, _, _, _ => "bad-op"
  | ["rtcp", h] => match parseHex? h with
    | some d => match parseCompound d with
      | .ok ps => "ok " ++ showRtcps ps ++ " => " ++
          (if ps.all (fun p => decide p.WF) then toHex (serCompound ps) else "not-wf")
      | o => o.tag showRtcps
    | _ => "bad-op"
  | ["rtp", ids, h] => match parseIds? ids, parseHex? h with
    | some ids, some d => match parse ids d with
      | .ok p => "ok " ++ showRtp p ++ " => " ++ serChecked ids p (padOf d p)
      | o => o.tag showRtp
    | _, _ => "bad-op"
  | _ => "bad-op"

/-- `multi op:a:b;op:c` evaluates several requests, replies joined by " ;; ". -/
def handleTop : List String → String
  | ["multi", reqs] => " ;; ".intercalate ((reqs.splitOn ";").map fun r => handle (r.splitOn ":"))
  | l => handle l

end Aiortc.Drv.Rtp
