import Aiortc.Model.RtpDispatch
import Aiortc.Drv.Util
/-! Driver for the media receive path model (C05, RTP/RTCP/codec part).

Request: `rtpdispatch run <hex>,<hex>,…` — the datagrams handed to `_recv_next` one after the other (`-` is the
empty datagram) in the fixed world of `harness/c05rtp.py`:

* header extension ids mid=1 abs-send-time=2 toffset=3 audio-level=4 transport-cc=5 rid=6 rrid=7
* receiver 0 (video): VP8=100, rtx(apt 100)=101, H264=102, rtx(apt 102)=103, rtx(apt 99)=104, rtx(no apt)=105,
  rtx(apt "100")=106; SSRC 1234, RTX SSRC 2345; RTCP SSRC 5000
* receiver 1 (audio): PCMU=0; SSRC 4000
* sender 0: SSRC 5000, RTX SSRC 5001, RTX payload type 101, RTX sequence number 7, history 65530..65535,0..3

`rtpdispatch runo <rtx0> <hex>,…` — the same with the sender's RTX sequence number starting at `rtx0`.

`rtpdispatch runpre <n> <rtx0> <hex>,…` — the first `n` datagrams arrive before the SRTP sessions exist (`hasSrtp = false`:
during the DTLS handshake), the rest afterwards.  `rtpdispatch demux0 <hex>` → branch of `_recv_next` without SRTP session.

Reply: `ok <trace>;<trace>;…`, one trace per datagram: the effects in program order joined with `+`
(`-` when nothing happened), in the notation of `World.feed` of the harness.

`rtpdispatch nack <max|N> <missing,…|-> <seq>` → `NackGenerator.add` alone: `<max> <sorted missing> <missed> <loop iterations>`;
`rtpdispatch nack-pinned …` the same for the pinned (unfixed) loop; `nack-pinned-result …` without the iteration count.
`rtpdispatch demux <hex>` → branch of `_recv_next`. -/
namespace Aiortc.Drv.RtpDispatch
open Aiortc Aiortc.Drv Aiortc.Rtp Aiortc.Model Aiortc.Model.RtpDispatch

def toHexFast (bs : List Nat) : String :=
  if bs.isEmpty then "-" else
  String.ofList (bs.foldl (fun acc b => hexChar (b % 16) :: hexChar (b / 16 % 16) :: acc) []).reverse

def worldIds : ExtIds :=
  { mid := some 1, absSendTime := some 2, transmissionOffset := some 3, audioLevel := some 4,
    transportSequenceNumber := some 5, rtpStreamId := some 6, repairedRtpStreamId := some 7 }

def jbOf (capacity : Nat) (prefetch : Int) (isVideo : Bool) : Jitter.JB :=
  match Jitter.mk capacity prefetch isVideo with
  | .ok jb => jb
  | _ => ⟨capacity, prefetch, isVideo, none, List.replicate capacity none⟩

def videoReceiver : Receiver :=
  { id := 0, isVideo := true,
    codecs := [(100, ⟨.vp8, 90000⟩), (101, ⟨.rtx (some 100), 90000⟩), (102, ⟨.h264, 90000⟩),
               (103, ⟨.rtx (some 102), 90000⟩), (104, ⟨.rtx (some 99), 90000⟩), (105, ⟨.rtx none, 90000⟩),
               (106, ⟨.rtx none, 90000⟩)],
    rtxSsrc := [(2345, 1234)], rtcpSsrc := some 5000, jb := jbOf 128 0 true }

def audioReceiver : Receiver :=
  { id := 1, isVideo := false, codecs := [(0, ⟨.other, 8000⟩)], rtxSsrc := [], rtcpSsrc := some 5000,
    jb := jbOf 16 4 false }

def histPacket (seq : Nat) : RtpPacket :=
  { marker := seq % 2, payloadType := 100, sequenceNumber := seq, timestamp := seq * 3, ssrc := 5000,
    payload := List.replicate 20 (seq % 256) }

def worldSender : Sender :=
  { id := 0, ssrc := 5000, rtxSsrc := 5001, rtxPayloadType := some 101, rtxSequenceNumber := 7,
    history := [65530, 65531, 65532, 65533, 65534, 65535, 0, 1, 2, 3].map fun s => (s % 128, histPacket s),
    hasEncoder := true }

def worldRouter : Router.Router :=
  let r := Router.registerReceiver Router.Router.empty 0 [1234] [100, 101, 102, 103, 104, 105, 106] (some "0")
  let r := Router.registerReceiver r 1 [4000] [0] (some "1")
  Router.registerSender r 0 5000

def world : Transport :=
  { ids := worldIds, router := worldRouter,
    receivers := fun i => if i = 0 then videoReceiver else audioReceiver,
    senders := fun _ => worldSender }

/-- The world with the sender's RTX sequence number starting at `rtx0` (what `random_sequence_number()` returned, or
where a long history of retransmissions has taken it). -/
def worldAt (rtx0 : Int) : Transport :=
  { world with senders := fun _ => { worldSender with rtxSequenceNumber := rtx0 } }

def recvTag (i : Nat) : String := if i = 0 then "v" else "a"

def codecName (receiver : Nat) : CodecKind → String
  | .vp8 => "VP8"
  | .h264 => "H264"
  | .rtx _ => "rtx"
  | .other => if receiver = 1 then "PCMU" else "other"

def showInts (l : List Int) : String := ".".intercalate (l.map toString)

def showEffect : Effect → Option String
  | .remb _ => none
  | .nack _ media lost => some s!"nack:{media}:{showInts lost}"
  | .pli _ media => some s!"pli:{media}"
  | .decode r c ts data => some s!"dec:{recvTag r}:{codecName r c}:{ts}:{toHexFast data}"
  | .lsr _ _ => none                 -- reported from the state difference, like the harness does
  | .stopDecoder _ => none
  | .retransmit _ p =>
    if p.ssrc = 5001 then
      some s!"rtx:{p.payloadType}:{p.sequenceNumber}:{beVal (p.payload.take 2)}:{p.payload.length - 2}"
    else some s!"rtp:{p.payloadType}:{p.sequenceNumber}:{p.payload.length}"
  | .keyframe _ => none
  | .bitrate _ v => some s!"br:{v}"
  | .rrStats _ lost jitter fraction => some s!"rr:{lost}:{jitter}:{fraction}"

def insertSorted (x : Int × Int) : List (Int × Int) → List (Int × Int)
  | [] => [x]
  | y :: ys => if x.1 ≤ y.1 then x :: y :: ys else y :: insertSorted x ys

/-- `lsr:<tag>:<ssrc>:<value>` for every key of `__lsr` that is new or changed, keys ascending. -/
def lsrDiff (tag : String) (before after : List (Int × Int)) : List String :=
  let sorted := after.foldl (fun acc x => insertSorted x acc) []
  sorted.filterMap fun (k, v) =>
    if Stats.lookup k before = some v then none else some s!"lsr:{tag}:{k}:{v}"

def snapshotDiff (t0 t1 : Transport) : List String :=
  lsrDiff "v" (t0.receivers 0).stats.lsr (t1.receivers 0).stats.lsr
  ++ lsrDiff "a" (t0.receivers 1).stats.lsr (t1.receivers 1).stats.lsr
  ++ (if (t0.receivers 0).decoderRunning ∧ !(t1.receivers 0).decoderRunning then ["stop:v"] else [])
  ++ (if (t0.receivers 1).decoderRunning ∧ !(t1.receivers 1).decoderRunning then ["stop:a"] else [])
  ++ (if (t1.senders 0).forceKeyframe then ["kf"] else [])

def showTrace (l : List String) : String := if l.isEmpty then "-" else "+".intercalate l

/-- One datagram: the harness clears `force_keyframe` before feeding. -/
def stepWorld (t : Transport) (data : Bytes) : Transport × String :=
  let s := t.senders 0
  let t := t.setSender 0 { s with forceKeyframe := false }
  match recvNext {} t data with
  | .ok (t1, effects, _) => (t1, showTrace (effects.filterMap showEffect ++ snapshotDiff t t1))
  | .valueError => (t, "EXC ValueError")
  | .crash k => (t, "EXC crash " ++ k)
  | .hang => (t, "EXC hang")

def runWorld (t : Transport) : List Bytes → List String → List String
  | [], acc => acc.reverse
  | d :: rest, acc => let (t1, s) := stepWorld t d; runWorld t1 rest (s :: acc)

/-- `runWorld` that also returns the final state. -/
def runWorldSt (t : Transport) : List Bytes → List String → Transport × List String
  | [], acc => (t, acc.reverse)
  | d :: rest, acc => let (t1, s) := stepWorld t d; runWorldSt t1 rest (s :: acc)

/-- The first `n` datagrams arrive while the SRTP sessions do not exist yet (`_do_handshake` reads them through the same
`_recv_next`), the rest after `_setup_srtp`. -/
def runWorldPre (t : Transport) (n : Nat) (ds : List Bytes) : List String :=
  let (t1, out1) := runWorldSt { t with hasSrtp := false } (ds.take n) []
  out1 ++ runWorld { t1 with hasSrtp := true } (ds.drop n) []

def parseDatagrams? (s : String) : Option (List Bytes) := (s.splitOn ",").mapM parseHex?

def showDemux : Demux → String
  | .empty => "empty" | .dtls => "dtls" | .rtcp => "rtcp" | .rtp => "rtp" | .ignored => "ignored"

def parseOptInt? (s : String) : Option (Option Int) :=
  if s = "N" then some none else (parseInt? s).map some

def showNack (o : Outcome (Nack × Bool × Nat)) : String :=
  o.tag fun r =>
    let m := match r.1.maxSeq with | none => "N" | some v => toString v
    s!"{m} {showInts (sortInts r.1.missing)} {showBool r.2.1} {r.2.2}"

def handleTop : List String → String
  | ["run", ds] => match parseDatagrams? ds with
    | some ds => "ok " ++ ";".intercalate (runWorld world ds [])
    | none => "bad-op"
  | ["runo", o, ds] => match parseInt? o, parseDatagrams? ds with
    | some o, some ds => "ok " ++ ";".intercalate (runWorld (worldAt o) ds [])
    | _, _ => "bad-op"
  | ["runpre", n, o, ds] => match parseInt? n, parseInt? o, parseDatagrams? ds with
    | some n, some o, some ds => "ok " ++ ";".intercalate (runWorldPre (worldAt o) n.toNat ds)
    | _, _, _ => "bad-op"
  | ["demux0", d] => match parseHex? d with
    | some d => showDemux (demux false d)
    | none => "bad-op"
  | ["demux", d] => match parseHex? d with
    | some d => showDemux (demux true d)
    | none => "bad-op"
  | ["nack", m, missing, seq] =>
    match parseOptInt? m, (if missing = "-" then some [] else parseList? parseInt? missing), parseInt? seq with
    | some m, some missing, some seq => showNack (Nack.add ⟨m, missing⟩ seq)
    | _, _, _ => "bad-op"
  | ["nack-pinned", m, missing, seq] =>
    match parseOptInt? m, (if missing = "-" then some [] else parseList? parseInt? missing), parseInt? seq with
    | some m, some missing, some seq => showNack (Nack.addUnfixed ⟨m, missing⟩ seq)
    | _, _, _ => "bad-op"
  | ["nack-pinned-result", m, missing, seq] =>
    match parseOptInt? m, (if missing = "-" then some [] else parseList? parseInt? missing), parseInt? seq with
    | some m, some missing, some seq =>
      (Nack.addUnfixed ⟨m, missing⟩ seq).tag fun r =>
        let mx := match r.1.maxSeq with | none => "N" | some v => toString v
        s!"{mx} {showInts (sortInts r.1.missing)} {showBool r.2.1}"
    | _, _, _ => "bad-op"
  | _ => "bad-op"

end Aiortc.Drv.RtpDispatch
