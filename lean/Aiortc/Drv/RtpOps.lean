import Aiortc.Model.Rtp.Ops
import Aiortc.Drv.Rtp
/-!
Line-protocol driver for histories of live RTP/RTCP objects (C07 round 3): `rtpops <step> <step> …`,
fields of a step separated by `@`, reply = the observations joined by " ;; ".

Values are written in the canonical `show…` formats of `Drv/Rtp.lean` (an RTP packet as its ten fields joined by
`!`, a compound as its packets joined by `!`).
-/
namespace Aiortc.Drv.RtpOps
open Aiortc Aiortc.Rtp Aiortc.Rtp.Ops Aiortc.Drv Aiortc.Drv.Rtp

def parseOpt? {α} (f : String → Option α) (s : String) : Option (Option α) :=
  if s = "N" then some none else (f s).map some

def parseAudio? (s : String) : Option (Bool × Nat) :=
  match s.splitOn "/" with
  | [v, l] => match parseBool? v, parseNat? l with
    | some v, some l => some (v, l)
    | _, _ => none
  | _ => none

/-- `abs;al;mid;rrid;rid;toff;tsn` as printed by `showExt`. -/
def parseExt? (s : String) : Option HeaderExtensions :=
  match s.splitOn ";" with
  | [a, b, c, d, e, f, g] =>
    match parseOpt? parseNat? a, parseOpt? parseAudio? b, parseOpt? parseHex? c, parseOpt? parseHex? d,
          parseOpt? parseHex? e, parseOpt? parseInt? f, parseOpt? parseNat? g with
    | some a, some b, some c, some d, some e, some f, some g =>
      some { absSendTime := a, audioLevel := b, mid := c, repairedRtpStreamId := d, rtpStreamId := e,
             transmissionOffset := f, transportSequenceNumber := g }
    | _, _, _, _, _, _, _ => none
  | _ => none

/-- `m!pt!seq!ts!ssrc!csrc!ext!payload!pad!padbytes` -/
def parseRtpVal? (s : String) : Option Val :=
  match s.splitOn "!" with
  | [m, pt, sq, ts, ss, cs, ex, pl, pd, pb] =>
    match parseNat? m, parseNat? pt, parseNat? sq, parseNat? ts, parseNat? ss, parseList? parseNat? cs,
          parseExt? ex, parseHex? pl, parseNat? pd, parseHex? pb with
    | some m, some pt, some sq, some ts, some ss, some cs, some ex, some pl, some pd, some pb =>
      some (.rtp { marker := m, payloadType := pt, sequenceNumber := sq, timestamp := ts, ssrc := ss, csrc := cs,
                   extensions := ex, payload := pl, paddingSize := pd } pb)
    | _, _, _, _, _, _, _, _, _, _ => none
  | _ => none

def parseRi? (s : String) : Option ReceiverInfo :=
  match s.splitOn "/" with
  | [a, b, c, d, e, f, g] =>
    match parseNat? a, parseNat? b, parseInt? c, parseNat? d, parseNat? e, parseNat? f, parseNat? g with
    | some a, some b, some c, some d, some e, some f, some g =>
      some { ssrc := a, fractionLost := b, packetsLost := c, highestSequence := d, jitter := e, lsr := f, dlsr := g }
    | _, _, _, _, _, _, _ => none
  | _ => none

def parseRis? (s : String) : Option (List ReceiverInfo) :=
  if s = "-" then some [] else (s.splitOn "|").mapM parseRi?

def parseItem? (s : String) : Option (Nat × Bytes) :=
  match s.splitOn "=" with
  | [t, v] => match parseNat? t, parseHex? v with
    | some t, some v => some (t, v)
    | _, _ => none
  | _ => none

def parseChunk? (s : String) : Option SourceInfo :=
  match s.splitOn ":" with
  | ssrc :: items => match parseNat? ssrc, items.mapM parseItem? with
    | some ssrc, some items => some { ssrc := ssrc, items := items }
    | _, _ => none
  | [] => none

/-- One packet as printed by `showRtcp`. -/
def parseRtcp1? (s : String) : Option RtcpPacket :=
  match s.splitOn "(" with
  | [name, rest] =>
    match rest.splitOn ")" with
    | [body, ""] =>
      if name = "bye" then (parseList? parseNat? body).map .bye
      else if name = "psfb" then
        match body.splitOn "," with
        | [f, ss, m, fci] => match parseNat? f, parseNat? ss, parseNat? m, parseHex? fci with
          | some f, some ss, some m, some fci => some (.psfb f ss m fci)
          | _, _, _, _ => none
        | _ => none
      else if name = "rr" then
        match body.splitOn ";" with
        | [ss, ris] => match parseNat? ss, parseRis? ris with
          | some ss, some ris => some (.rr ss ris)
          | _, _ => none
        | _ => none
      else if name = "rtpfb" then
        match body.splitOn "," with
        | f :: ss :: m :: lost => match parseNat? f, parseNat? ss, parseNat? m,
              (if lost = ["-"] then some [] else lost.mapM parseNat?) with
          | some f, some ss, some m, some lost => some (.rtpfb f ss m lost)
          | _, _, _, _ => none
        | _ => none
      else if name = "sdes" then
        (if body = "-" then some [] else (body.splitOn "|").mapM parseChunk?).map .sdes
      else if name = "sr" then
        match body.splitOn ";" with
        | [hd, ris] => match hd.splitOn ",", parseRis? ris with
          | [ss, info], some ris => match parseNat? ss, (info.splitOn "/").mapM parseNat? with
            | some ss, some [a, b, c, d] =>
              some (.sr ss { ntpTimestamp := a, rtpTimestamp := b, packetCount := c, octetCount := d } ris)
            | _, _ => none
          | _, _ => none
        | _ => none
      else none
    | _ => none
  | _ => none

def parseRtcpVal? (s : String) : Option Val :=
  (if s = "-" then some [] else (s.splitOn "!").mapM parseRtcp1?).map .rtcp

def uriOf? (s : String) : Option Uri :=
  match parseNat? s with
  | some 0 => some .absSendTime
  | some 1 => some .audioLevel
  | some 2 => some .mid
  | some 3 => some .repairedRtpStreamId
  | some 4 => some .rtpStreamId
  | some 5 => some .transmissionOffset
  | some 6 => some .transportSequenceNumber
  | some 7 => some .other
  | _ => none

def parseCfgEntry? (s : String) : Option (Uri × Nat) :=
  match s.splitOn "=" with
  | [u, i] => match uriOf? u, parseNat? i with
    | some u, some i => some (u, i)
    | _, _ => none
  | _ => none

def parseOp? (s : String) : Option Op :=
  match s.splitOn "@" with
  | ["mnew", m] => (parseNat? m).map .mnew
  | ["cfg", m, l] => match parseNat? m, parseList? parseCfgEntry? l with
    | some m, some l => some (.cfg m l)
    | _, _ => none
  | ["put", o, "rtp", v] => match parseNat? o, parseRtpVal? v with
    | some o, some v => some (.put o v)
    | _, _ => none
  | ["put", o, "rtcp", v] => match parseNat? o, parseRtcpVal? v with
    | some o, some v => some (.put o v)
    | _, _ => none
  | ["ser", o, m, b] => match parseNat? o, parseNat? m, parseNat? b with
    | some o, some m, some b => some (.ser o m b)
    | _, _, _ => none
  | ["raw", b, d] => match parseNat? b, parseHex? d with
    | some b, some d => some (.raw b d)
    | _, _ => none
  | ["prtp", b, m, o] => match parseNat? b, parseNat? m, parseNat? o with
    | some b, some m, some o => some (.parseRtp b m o)
    | _, _, _ => none
  | ["prtcp", b, o] => match parseNat? b, parseNat? o with
    | some b, some o => some (.parseRtcp b o)
    | _, _ => none
  | ["mset", m, e] => match parseNat? m, parseExt? e with
    | some m, some e => some (.mset m e)
    | _, _ => none
  | ["mget", m, pr, d] => match parseNat? m, parseNat? pr, parseHex? d with
    | some m, some pr, some d => some (.mget m pr d)
    | _, _, _ => none
  | _ => none

def showObs : Obs → String
  | .done => "."
  | .bytes (some bs) => "ok " ++ toHex bs
  | .bytes none => "not-wf"
  | .rtp r => r.tag showRtp
  | .rtcp r => r.tag showRtcps
  | .ext r => r.tag showExt
  | .block (some x) => "ok " ++ toString x.1 ++ " " ++ toHex x.2
  | .block none => "not-wf"

def handleTop (steps : List String) : String :=
  match steps.mapM parseOp? with
  | some ops => " ;; ".intercalate ((run Pool.empty ops).map showObs)
  | none => "bad-op"

end Aiortc.Drv.RtpOps
