import Aiortc.Model.Sctp.Endpoint
import Aiortc.Drv.Util
/-! Driver for the SCTP endpoint automaton and its parts (line protocol, see harness/props/sctp_common.py). -/
namespace Aiortc.Drv.Sctp
open Aiortc Aiortc.Drv Aiortc.Sctp

def optNat? (s : String) : Option (Option Nat) := if s = "-" then some none else (parseNat? s).map some
def optInt? (s : String) : Option (Option Int) := if s = "-" then some none else (parseInt? s).map some

def parseInput : List String → Option Input
  | ["start", rp] => do pure (.start (← parseNat? rp))
  | ["stop"] => some .stop
  | ["rx", d, c] => do pure (.rx (← parseHex? d) (← parseHex? c))
  | ["fire", t] => some (.fire t)
  | ["task"] => some .task
  | ["create", l, p, o, r, lt, n, id] => do
    pure (.create { label := ← parseHex? l, protocol := ← parseHex? p, ordered := ← parseBool? o
                    maxRetransmits := ← optNat? r, maxPacketLifeTime := ← optNat? lt
                    negotiated := ← parseBool? n, id := ← optInt? id })
  | ["send", ch, s, d] => do pure (.send (← parseNat? ch) (← parseBool? s) (← parseHex? d))
  | ["close", ch] => do pure (.close (← parseNat? ch))
  | ["threshold", ch, v] => do pure (.threshold (← parseNat? ch) (← parseInt? v))
  | ["react", k, ch, s, d] => do pure (.react (← parseNat? k) (← parseNat? ch) (← parseBool? s) (← parseHex? d))
  | _ => none

def showOptNat : Option Nat → String
  | some n => toString n
  | none => "-"

/-- The harness numbers only the channels an application can see (created locally or announced by a
`datachannel` event); channels created while nobody listens stay `silent` in the model. -/
def toModelIdx (e : Ep) (k : Nat) : Nat :=
  let rec go (cs : List Chan) (i k : Nat) : Nat :=
    match cs with
    | [] => i + k
    | c :: cs => if c.silent then go cs (i + 1) k else match k with
      | 0 => i
      | k + 1 => go cs (i + 1) k
  go e.chans 0 k

def toVisibleIdx (e : Ep) (i : Nat) : Nat := ((e.chans.take i).filter fun c => !c.silent).length

def mapInput (e : Ep) : Input → Input
  | .send ch s d => .send (toModelIdx e ch) s d
  | .close ch => .close (toModelIdx e ch)
  | .threshold ch v => .threshold (toModelIdx e ch) v
  | .react k ch s d => .react k (if k = 4 then 0 else toModelIdx e ch) s d
  | i => i

def showOut (e : Ep) : Out → String
  | .tx d => "tx:" ++ toHex d
  | .timerStart t => "ts:" ++ t
  | .timerCancel t => "tc:" ++ t
  | .task n => "task:" ++ n
  | .evOpen i => s!"open:{toVisibleIdx e i}"
  | .evClose i => s!"close:{toVisibleIdx e i}"
  | .evLow i => s!"low:{toVisibleIdx e i}"
  | .evMessage i isStr d => s!"msg:{toVisibleIdx e i}:{if isStr then "s" else "b"}:{toHex d}"
  | .evChannel i =>
    match e.chans[i]? with
    | some c => s!"chan:{toVisibleIdx e i}:{showOptNat c.id}:{toHex c.label}:{toHex c.protocol}:{showBool c.ordered}:{showOptNat c.maxRetransmits}:{showOptNat c.maxPacketLifeTime}"
    | none => s!"chan:{i}:?"
  | .rexc i k => s!"rexc:{toVisibleIdx e i}:{k}"
  | .exc k => "exc:" ++ k
  | .crash k => "crash:" ++ k

def readyName : Nat → String
  | 0 => "connecting" | 1 => "open" | 2 => "closing" | _ => "closed"

def showPublic (e : Ep) : String :=
  "st=" ++ e.state ++ ";" ++
    showList (fun c : Chan => s!"{showOptNat c.id}/{readyName c.ready}/{c.buffered}")
      (e.chans.filter fun c => !c.silent)

/-- `trace <isServer> <tag> <tsn> <step>|<step>|…`, step = `<now>;<op>;<args…>`. -/
def runTrace (isServer : Bool) (tag tsn : Nat) (steps : List String) : String :=
  let rec go (e : Ep) (acc : List String) : List String → List String
    | [] => acc.reverse
    | s :: rest =>
      match s.splitOn ";" with
      | nowS :: op =>
        match parseInt? nowS, parseInput op with
        | some now, some inp =>
          let (e', outs) := step e now (mapInput e inp)
          let line := ",".intercalate (outs.map (showOut e')) ++ "#" ++ showPublic e'
          go e' (line :: acc) rest
        | _, _ => ("bad-step" :: acc).reverse
      | _ => ("bad-step" :: acc).reverse
  "|".intercalate (go (Ep.init isServer tag tsn) [] steps)

def stepsOf (s : String) : List String := if s = "-" then [] else s.splitOn "|"

def handleTop : List String → String
  | ["pair", tagA, tsnA, stepsA, tagB, tsnB, stepsB] =>
    match parseNat? tagA, parseNat? tsnA, parseNat? tagB, parseNat? tsnB with
    | some ta, some na, some tb, some nb =>
      runTrace false ta na (stepsOf stepsA) ++ "&" ++ runTrace true tb nb (stepsOf stepsB)
    | _, _, _, _ => "bad-op"
  | ["trace", srv, tag, tsn, steps] =>
    match parseBool? srv, parseNat? tag, parseNat? tsn with
    | some s, some t, some n => runTrace s t n (steps.splitOn "|")
    | _, _, _ => "bad-op"
  | ["trace", srv, tag, tsn] =>
    match parseBool? srv, parseNat? tag, parseNat? tsn with
    | some s, some t, some n => runTrace s t n []
    | _, _, _ => "bad-op"
  | _ => "bad-op"

end Aiortc.Drv.Sctp
