import Aiortc.Model.Sctp.Forward
import Aiortc.Drv.Util
/-!
Line protocol for the function-level correspondences of C06 (`harness/props/C06.py`):

  sctppr fwd <last> <mis> <dups> <cum> <streams> <ins>      `_receive_forward_tsn_chunk`
  sctppr data <last> <mis> <dups> <chunk> <ins>             `_receive_data_chunk`
  sctppr abandon <now1000> <pos> <flight> <sentQ> <outQ>    `_maybe_abandon(self._sent_queue[pos])`
  sctppr advack <lastSacked> <advAck> <needed> <fstreams> <sentQ>   `_update_advanced_peer_ack_point`

Encodings: received chunk `tsn.sid.ssn.ppid.flags.hexdata`; stream `sid/seq/chunk;chunk;…`; streams joined
by `+`; FORWARD TSN stream list `sid.ssn,sid.ssn`; outbound chunk
`tsn.sid.ssn.flags.abandoned.retransmit.inflight.book.sentcount.maxrtx.expiry`.
-/
namespace Aiortc.Drv.SctpPr
open Aiortc.Sctp Aiortc.Gen

def splitOrEmpty (s : String) (sep : String) : List String := if s = "-" then [] else s.splitOn sep

def parseRChunk? (s : String) : Option RChunk :=
  match s.splitOn "." with
  | [tsn, sid, ssn, ppid, flags, d] => do
    let tsn ← parseInt? tsn; let sid ← parseNat? sid; let ssn ← parseInt? ssn
    let ppid ← parseNat? ppid; let flags ← parseNat? flags; let d ← parseHex? d
    pure { tsn := tsn, sid := sid, ssn := ssn, ppid := ppid, flags := flags, data := d }
  | _ => none

def showRChunk (c : RChunk) : String :=
  s!"{c.tsn}.{c.sid}.{c.ssn}.{c.ppid}.{c.flags}.{toHex c.data}"

def parseStream? (s : String) : Option (Nat × InStream) :=
  match s.splitOn "/" with
  | [sid, seq, chunks] => do
    let sid ← parseNat? sid; let seq ← parseInt? seq
    let cs ← (splitOrEmpty chunks ";").mapM parseRChunk?
    pure (sid, { reasm := cs, seq := seq })
  | _ => none

def showStream (p : Nat × InStream) : String :=
  s!"{p.1}/{p.2.seq}/" ++ (if p.2.reasm.isEmpty then "-" else ";".intercalate (p.2.reasm.map showRChunk))

def showStreams (ins : List (Nat × InStream)) : String :=
  if ins.isEmpty then "-" else "+".intercalate (ins.map showStream)

def parsePair? (s : String) : Option (Nat × Int) :=
  match s.splitOn "." with
  | [a, b] => do pure ((← parseNat? a), (← parseInt? b))
  | _ => none

def showPairs (l : List (Nat × Int)) : String := showList (fun p => s!"{p.1}.{p.2}") l

def showMsg (m : Msg) : String := s!"{m.sid}.{m.ppid}.{toHex m.data}"

def optInt? (s : String) : Option (Option Int) := if s = "n" then some none else (parseInt? s).map some
def showOptInt : Option Int → String
  | none => "n"
  | some v => toString v

def parseSChunk? (s : String) : Option SChunk :=
  match s.splitOn "." with
  | [tsn, sid, ssn, flags, ab, rt, inf, book, sc, mr, ex] => do
    let tsn ← parseInt? tsn; let sid ← parseNat? sid; let ssn ← parseInt? ssn; let flags ← parseNat? flags
    let ab ← parseBool? ab; let rt ← parseBool? rt; let inf ← parseBool? inf
    let book ← parseNat? book; let sc ← parseNat? sc; let mr ← optInt? mr; let ex ← optInt? ex
    pure { tsn := tsn, sid := sid, ssn := ssn, ppid := 53, flags := flags, data := [], abandoned := ab,
           retransmit := rt, inFlight := inf, bookSize := book, sentCount := sc, maxRetransmits := mr, expiry := ex }
  | _ => none

def showSChunk (c : SChunk) : String :=
  s!"{c.tsn}.{c.sid}.{c.ssn}.{c.flags}.{showBool c.abandoned}.{showBool c.retransmit}.{showBool c.inFlight}." ++
  s!"{c.bookSize}.{c.sentCount}.{showOptInt c.maxRetransmits}.{showOptInt c.expiry}"

def showQ (q : List SChunk) : String := if q.isEmpty then "-" else ";".intercalate (q.map showSChunk)

def baseTx : Tx := { cwnd := 0, ssthresh := 0, localTsn := 0, lastSacked := 0, advAck := 0 }

def handleTop : List String → String
  | ["fwd", last, mis, dups, cum, streams, ins] =>
    match parseInt? last, parseList? parseInt? mis, parseList? parseInt? dups, parseInt? cum,
          parseList? parsePair? streams, (splitOrEmpty ins "+").mapM parseStream? with
    | some last, some mis, some dups, some cum, some streams, some ins =>
      (rxFwd { last := last, mis := mis, dups := dups } ins cum streams).tag fun (rx, ins', freed, msgs) =>
        let delivered := (msgs.map (·.data.length)).sum
        s!"{rx.last} {showList toString rx.mis} {showList toString rx.dups} {freed + delivered} " ++
        s!"{showStreams ins'} {showList showMsg msgs}"
    | _, _, _, _, _, _ => "bad-args"
  | ["data", last, mis, dups, chunk, ins] =>
    match parseInt? last, parseList? parseInt? mis, parseList? parseInt? dups, parseRChunk? chunk,
          (splitOrEmpty ins "+").mapM parseStream? with
    | some last, some mis, some dups, some c, some ins =>
      (rxData { last := last, mis := mis, dups := dups } ins c).tag fun (rx, ins', msgs) =>
        s!"{rx.last} {showList toString rx.mis} {showList toString rx.dups} " ++
        s!"{showStreams ins'} {showList showMsg msgs}"
    | _, _, _, _, _ => "bad-args"
  | ["abandon", now1000, pos, flight, sentQ, outQ] =>
    match parseInt? now1000, parseNat? pos, parseNat? flight, (splitOrEmpty sentQ ";").mapM parseSChunk?,
          (splitOrEmpty outQ ";").mapM parseSChunk? with
    | some now, some pos, some flight, some sq, some oq =>
      let (r, t) := ({ baseTx with flight := flight, sentQ := sq, outQ := oq } : Tx).maybeAbandon pos now
      s!"ok {showBool r} {t.flight} {showQ t.sentQ} {showQ t.outQ}"
    | _, _, _, _, _ => "bad-args"
  | ["advack", lastSacked, advAck, needed, fstreams, sentQ] =>
    match parseInt? lastSacked, parseInt? advAck, parseBool? needed, parseList? parsePair? fstreams,
          (splitOrEmpty sentQ ";").mapM parseSChunk? with
    | some ls, some adv, some needed, some fs, some sq =>
      let t := ({ baseTx with lastSacked := ls, advAck := adv, forwardNeeded := needed, forwardStreams := fs,
                              sentQ := sq } : Tx).updateAdvAck
      let fwd := match t.forwardTsn with
        | none => "n"
        | some (c, s) => s!"{c}:{showPairs s}"
      s!"ok {t.advAck} {showBool t.forwardNeeded} {showPairs t.forwardStreams} {fwd} {showList (fun c => toString c.tsn) t.sentQ}"
    | _, _, _, _, _ => "bad-args"
  | _ => "bad-op"

end Aiortc.Drv.SctpPr
