import Aiortc.Model.Sctp.Recv
import Aiortc.Drv.Util
/-!
Driver for the pure C01 functions (function-level correspondence with the real code):
  sctprecv run <last_received_tsn> <chunk;chunk;…>     chunk = tsn,sid,ssn,ppid,flags,hexdata
  sctprecv send <local_tsn> <msg;msg;…>                msg   = sid,ppid,ordered,hexdata
  sctprecv enc <isStr> <hexdata>                       `_data_channel_send`
  sctprecv dec <ppid> <hexdata>                        `_data_channel_receive` (user branches)
-/
namespace Aiortc.Drv.SctpRecv
open Aiortc Aiortc.Sctp Aiortc.Drv

def parseChunk (s : String) : Option RChunk :=
  match s.splitOn "," with
  | [tsn, sid, ssn, ppid, flags, d] => do
    pure { tsn := ← parseInt? tsn, sid := ← parseNat? sid, ssn := ← parseInt? ssn, ppid := ← parseNat? ppid,
           flags := ← parseNat? flags, data := ← parseHex? d }
  | _ => none

def parseMsg (s : String) : Option SMsg :=
  match s.splitOn "," with
  | [sid, ppid, o, d] => do
    pure { sid := ← parseNat? sid, ppid := ← parseNat? ppid, ordered := ← parseBool? o, data := ← parseHex? d }
  | _ => none

def parseSemi? {α} (f : String → Option α) (s : String) : Option (List α) :=
  if s = "-" then some [] else (s.splitOn ";").mapM f

def showChunk (c : RChunk) : String := s!"{c.tsn},{c.sid},{c.ssn},{c.ppid},{c.flags},{toHex c.data}"
def showMsg (m : Msg) : String := s!"{m.sid}:{m.ppid}:{toHex m.data}"

def insInt (x : Int) : List Int → List Int
  | [] => [x]
  | y :: ys => if x < y then x :: y :: ys else y :: insInt x ys

/-- numeric sort (the set `_sack_misordered` is compared as a sorted list) -/
def sortInt (l : List Int) : List Int := l.foldr insInt []

def showStream (p : Nat × InStream) : String :=
  s!"{p.1}={p.2.seq}/" ++ (if p.2.reasm.isEmpty then "-" else "+".intercalate (p.2.reasm.map fun c => toString c.tsn))

def showState (r : Recv) : String :=
  s!"{r.rx.last};{showList toString (sortInt r.rx.mis)};{showList toString r.rx.dups};"
    ++ (if r.streams.isEmpty then "-" else "&".intercalate (r.streams.map showStream))

def runAll : Recv → List RChunk → List String → String
  | r, [], acc => "|".intercalate acc.reverse ++ "#" ++ showState r
  | r, c :: cs, acc =>
    match r.step c with
    | .ok (r1, msgs) => runAll r1 cs (showList showMsg msgs :: acc)
    | .valueError => "|".intercalate ("ValueError" :: acc).reverse
    | .crash k => "|".intercalate (("crash " ++ k) :: acc).reverse
    | .hang => "|".intercalate ("hang" :: acc).reverse

def parsePair (s : String) : Option (Nat × Int) :=
  match s.splitOn "=" with
  | [a, b] => do pure (← parseNat? a, ← parseInt? b)
  | _ => none

def handleTop : List String → String
  | ["run", last, seqs, chunks] =>
    -- `seqs`: preset `InboundStream.sequence_number` per stream id (streams that already exist)
    match parseInt? last, parseList? parsePair seqs, parseSemi? parseChunk chunks with
    | some l, some sq, some cs =>
      runAll { rx := { last := l, mis := [], dups := [] }
               streams := sq.map fun p => (p.1, { reasm := [], seq := p.2 }) } cs []
    | _, _, _ => "bad-op"
  | ["send", tsn, seqs, msgs] =>
    match parseNat? tsn, parseList? parsePair seqs, parseSemi? parseMsg msgs with
    | some t, some sq, some ms =>
      let tx := ({ (Ep.init false 1 t).tx with streamSeq := sq }).sendAll ms
      (if tx.outQ.isEmpty then "-" else ";".intercalate (tx.outQ.map fun c => showChunk c.toR))
        ++ s!"#{tx.localTsn}#" ++ showList (fun (p : Nat × Int) => s!"{p.1}={p.2}") tx.streamSeq
    | _, _, _ => "bad-op"
  | ["rt", isStr, d] =>
    -- `_data_channel_send` followed by `_data_channel_receive` of what it queued
    match parseBool? isStr, parseHex? d with
    | some s, some d =>
      let (p, u) := encodeUser s d
      s!"{p}:{toHex u}>" ++ (match decodeUser p u with
        | some (true, x) => "s:" ++ toHex x
        | some (false, x) => "b:" ++ toHex x
        | none => "-")
    | _, _ => "bad-op"
  | ["enc", isStr, d] =>
    match parseBool? isStr, parseHex? d with
    | some s, some d => let (p, u) := encodeUser s d; s!"{p}:{toHex u}"
    | _, _ => "bad-op"
  | ["dec", ppid, d] =>
    match parseNat? ppid, parseHex? d with
    | some p, some d =>
      match decodeUser p d with
      | some (true, x) => "s:" ++ toHex x
      | some (false, x) => "b:" ++ toHex x
      | none => "-"
    | _, _ => "bad-op"
  | _ => "bad-op"

end Aiortc.Drv.SctpRecv
