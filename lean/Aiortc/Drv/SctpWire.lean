import Aiortc.Model.Sctp.Wire
import Aiortc.Model.Sctp.WireOps
import Aiortc.Drv.Util
/-! Line-protocol driver for the SCTP wire model (C08).  Chunk syntax (one token, no spaces):
`<ClassName>:<flags>:<fields…>`; lists are comma separated (`-` = empty), pairs `a/b`, bytes hex (`-` = empty). -/
namespace Aiortc.Drv.SctpWire
open Aiortc Aiortc.Drv Aiortc.Sctp.Wire Aiortc.Sctp.WireOps

def showParams (ps : List Param) : String := showList (fun p => toString p.1 ++ "/" ++ toHex p.2) ps
def showPairs (l : List (Nat × Nat)) : String := showList (fun p => toString p.1 ++ "/" ++ toString p.2) l
def showNats (l : List Nat) : String := showList toString l

def showChunk (c : Chunk) : String :=
  let n := c.cls.name
  match c with
  | .plain _ f b => s!"{n}:{f}:{toHex b}"
  | .params _ f ps => s!"{n}:{f}:{showParams ps}"
  | .data f tsn sid sseq proto ud => s!"{n}:{f}:{tsn}:{sid}:{sseq}:{proto}:{toHex ud}"
  | .init _ f tag rwnd outs ins itsn ps => s!"{n}:{f}:{tag}:{rwnd}:{outs}:{ins}:{itsn}:{showParams ps}"
  | .sack f ctsn rwnd gaps dups => s!"{n}:{f}:{ctsn}:{rwnd}:{showPairs gaps}:{showNats dups}"
  | .shutdown f ctsn => s!"{n}:{f}:{ctsn}"
  | .forwardTsn f ctsn streams => s!"{n}:{f}:{ctsn}:{showPairs streams}"

def parsePair? (s : String) : Option (Nat × Nat) :=
  match s.splitOn "/" with
  | [a, b] => match parseNat? a, parseNat? b with
    | some a, some b => some (a, b) | _, _ => none
  | _ => none

def parseParam? (s : String) : Option Param :=
  match s.splitOn "/" with
  | [a, b] => match parseNat? a, parseHex? b with
    | some a, some b => some (a, b) | _, _ => none
  | _ => none

def parseChunk? (s : String) : Option Chunk :=
  match s.splitOn ":" with
  | name :: f :: rest =>
    match chunkClasses.find? (fun c => c.name == name), parseNat? f with
    | some cls, some f =>
      match cls, rest with
      | .plain k, [b] => (parseHex? b).map (.plain k f)
      | .params k, [ps] => (parseList? parseParam? ps).map (.params k f)
      | .data, [tsn, sid, sseq, proto, ud] =>
        match parseNat? tsn, parseNat? sid, parseNat? sseq, parseNat? proto, parseHex? ud with
        | some tsn, some sid, some sseq, some proto, some ud => some (.data f tsn sid sseq proto ud)
        | _, _, _, _, _ => none
      | .init k, [tag, rwnd, outs, ins, itsn, ps] =>
        match parseNat? tag, parseNat? rwnd, parseNat? outs, parseNat? ins, parseNat? itsn,
              parseList? parseParam? ps with
        | some tag, some rwnd, some outs, some ins, some itsn, some ps =>
          some (.init k f tag rwnd outs ins itsn ps)
        | _, _, _, _, _, _ => none
      | .sack, [ctsn, rwnd, gaps, dups] =>
        match parseNat? ctsn, parseNat? rwnd, parseList? parsePair? gaps, parseList? parseNat? dups with
        | some ctsn, some rwnd, some gaps, some dups => some (.sack f ctsn rwnd gaps dups)
        | _, _, _, _ => none
      | .shutdown, [ctsn] => (parseNat? ctsn).map (.shutdown f)
      | .forwardTsn, [ctsn, streams] =>
        match parseNat? ctsn, parseList? parsePair? streams with
        | some ctsn, some streams => some (.forwardTsn f ctsn streams)
        | _, _ => none
      | _, _ => none
    | _, _ => none
  | _ => none

def showParsed (r : Nat × Nat × Nat × List Chunk) : String :=
  s!"{r.1} {r.2.1} {r.2.2.1} " ++ (if r.2.2.2.isEmpty then "-" else "|".intercalate (r.2.2.2.map showChunk))

def showRc : RcParam → String
  | .resetOut a b c l => s!"out:{a}:{b}:{c}:{showNats l}"
  | .addOut a n => s!"add:{a}:{n}"
  | .resetResp a r => s!"resp:{a}:{r}"

def parseRc? (s : String) : Option RcParam :=
  match s.splitOn ":" with
  | ["out", a, b, c, l] =>
    match parseNat? a, parseNat? b, parseNat? c, parseList? parseNat? l with
    | some a, some b, some c, some l => some (.resetOut a b c l) | _, _, _, _ => none
  | ["add", a, n] => match parseNat? a, parseNat? n with
    | some a, some n => some (.addOut a n) | _, _ => none
  | ["resp", a, r] => match parseNat? a, parseNat? r with
    | some a, some r => some (.resetResp a r) | _, _ => none
  | _ => none

/-- serialise; parse what was serialised; re-serialise every parsed chunk with the parsed header. -/
def roundtrip (sp dp tag : Nat) (c : Chunk) : String :=
  match serializePacket sp dp tag c with
  | .ok bs =>
    let p := parsePacket bs
    let re := match p with
      | .ok (sp', dp', tag', cs) =>
        "+".intercalate (cs.map fun c' => (serializePacket sp' dp' tag' c').tag toHex)
      | _ => "none"
    s!"ok {toHex bs} => {p.tag showParsed} => {re}"
  | o => o.tag toHex


/-! ## operation sequences (`sctpwire ops <op> <op> …`, fields of an op separated by `@`)

`new@s@K@v` / `set@s@K@v` (K = `C` chunk, `R` RE-CONFIG parameter, `P` parameter list), `hostile@s@k`,
`ser@s@sp@dp@tag`, `bytes@s`, `parse@hex@base`, `decparams@hex@s`, `rcparse@t@hex@s`.
Reply: the observations of the steps joined by ` ; `. -/

def parseVal? (k v : String) : Option Val :=
  if k = "C" then (parseChunk? v).map .chunk
  else if k = "R" then (parseRc? v).map .rc
  else if k = "P" then (parseList? parseParam? v).map .plist
  else none

def parseOp? (s : String) : Option Op :=
  match s.splitOn "@" with
  | ["new", s, k, v] => match parseNat? s, parseVal? k v with
    | some s, some v => some (.new s v) | _, _ => none
  | ["set", s, k, v] => match parseNat? s, parseVal? k v with
    | some s, some v => some (.set s v) | _, _ => none
  | ["hostile", s, k] => match parseNat? s, parseNat? k with
    | some s, some k => some (.hostile s k) | _, _ => none
  | ["ser", s, sp, dp, tag] => match parseNat? s, parseNat? sp, parseNat? dp, parseNat? tag with
    | some s, some sp, some dp, some tag => some (.ser s sp dp tag) | _, _, _, _ => none
  | ["bytes", s] => (parseNat? s).map .bytes
  | ["parse", d, b] => match parseHex? d, parseNat? b with
    | some d, some b => some (.parse d b) | _, _ => none
  | ["decparams", d, s] => match parseHex? d, parseNat? s with
    | some d, some s => some (.decparams d s) | _, _ => none
  | ["rcparse", t, d, s] => match parseNat? t, parseHex? d, parseNat? s with
    | some t, some d, some s => some (.rcparse t d s) | _, _, _ => none
  | _ => none

def showObs : Obs → String
  | .done => "done"
  | .skip => "skip"
  | .bytes o => o.tag toHex
  | .parsed o => o.tag showParsed
  | .params o => o.tag showParams
  | .rc none => "none"
  | .rc (some o) => o.tag showRc

def runOps (toks : List String) : String :=
  match toks.mapM parseOp? with
  | some ops => " ; ".intercalate ((run Pool.empty ops).map showObs)
  | none => "bad-op"

def handleTop : List String → String
  | "ops" :: toks => runOps toks
  | ["crc", d] => match parseHex? d with
    | some d => toString (Crc32c.crc32c d) | none => "bad-op"
  | ["padl", n] => match parseNat? n with
    | some n => toString (padl n) | none => "bad-op"
  | ["roundtrip", sp, dp, tag, c] =>
    match parseNat? sp, parseNat? dp, parseNat? tag, parseChunk? c with
    | some sp, some dp, some tag, some c => roundtrip sp dp tag c
    | _, _, _, _ => "bad-op"
  | ["parse", d] => match parseHex? d with
    | some d => (parsePacket d).tag showParsed | none => "bad-op"
  | ["parse0", d] => match parseHex? d with
    | some d => (parsePacketOrig d).tag showParsed | none => "bad-op"
  | ["decparams", d] => match parseHex? d with
    | some d => (decodeParams d).tag showParams | none => "bad-op"
  | ["decparams0", d] => match parseHex? d with
    | some d => (decodeParamsOrig d).tag showParams | none => "bad-op"
  | ["encparams", ps] => match parseList? parseParam? ps with
    | some ps => if paramsInRange ps then "ok " ++ toHex (encodeParams ps) else "crash struct.error"
    | none => "bad-op"
  | ["rcparse", t, d] => match parseNat? t, parseHex? d with
    | some t, some d => match rcClassOf t with
      | some cls => (RcParam.parse cls d).tag showRc
      | none => "none"
    | _, _ => "bad-op"
  | ["rcparse0", t, d] => match parseNat? t, parseHex? d with
    | some t, some d => match rcClassOf t with
      | some cls => (RcParam.parseOrig cls d).tag showRc
      | none => "none"
    | _, _ => "bad-op"
  | ["rcser", p] => match parseRc? p with
    | some p => s!"{p.cls.ty} " ++ p.serialize.tag toHex | none => "bad-op"
  | _ => "bad-op"

end Aiortc.Drv.SctpWire
