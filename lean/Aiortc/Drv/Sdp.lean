import Aiortc.Model.Sdp.Ops
import Aiortc.Drv.Util
/-! Line-protocol driver for the SDP model (C09).

Strings travel percent-encoded: `'` followed by the characters; every character outside
`[A-Za-z0-9-_./:+=*@]` is written `%<hex code point>;`.  Canonical values: `~` = None, `T`/`F`,
decimal ints, `[a,b]` lists, `(f1 f2 …)` records (positional, see harness/props/C09.py `canon_*`). -/
namespace Aiortc.Drv.Sdp
open Aiortc Aiortc.Model.Sdp

def safeChar (c : Char) : Bool :=
  c.isAlphanum || c = '-' || c = '_' || c = '.' || c = '/' || c = ':' || c = '+' || c = '=' || c = '*' || c = '@'

def hexDigits (n : Nat) : List Char := Nat.toDigits 16 n

def encBody : Str → List Char
  | [] => []
  | c :: cs => if safeChar c then c :: encBody cs else ('%' :: hexDigits c.toNat) ++ ';' :: encBody cs

def enc (s : Str) : String := String.ofList ('\'' :: encBody s)

def hexVal (l : List Char) : Option Nat :=
  l.foldl (fun acc c => match acc, Aiortc.Drv.hexDigit? c with
    | some a, some d => some (a * 16 + d)
    | _, _ => none) (some 0)

partial def decBody : List Char → List Char → Option Str
  | [], acc => some acc.reverse
  | '%' :: cs, acc =>
    let h := cs.takeWhile (· ≠ ';')
    match hexVal h, cs.dropWhile (· ≠ ';') with
    | some n, ';' :: rest => decBody rest (Char.ofNat n :: acc)
    | _, _ => none
  | c :: cs, acc => decBody cs (c :: acc)

def dec (s : String) : Option Str :=
  match s.toList with
  | '\'' :: cs => decBody cs []
  | _ => none

def showOpt {α} (f : α → String) : Option α → String
  | some a => f a
  | none => "~"

def showL {α} (f : α → String) (l : List α) : String := "[" ++ ",".intercalate (l.map f) ++ "]"
def showB (b : Bool) : String := if b then "T" else "F"
def showI (i : Int) : String := toString i
def rec (l : List String) : String := "(" ++ " ".intercalate l ++ ")"

def showCand (c : Candidate) : String :=
  rec [enc c.foundation, showI c.component, enc c.protocol, showI c.priority, enc c.ip, showI c.port,
       enc c.typ, showOpt enc c.relatedAddress, showOpt showI c.relatedPort, showOpt enc c.tcpType]

def showPVal : PVal → String
  | .none => "~"
  | .int i => showI i
  | .str s => enc s

def showParams (p : Params) : String := showL (fun kv => rec [enc kv.1, showPVal kv.2]) p

def showCodec (c : Codec) : String :=
  rec [enc c.mimeType, showI c.clockRate, showOpt showI c.channels, showI c.payloadType,
       showL (fun f => rec [enc f.typ, showOpt enc f.parameter]) c.rtcpFeedback, showParams c.parameters]

def showGroup {α} (f : α → String) (g : Group α) : String := rec [enc g.semantic, showL f g.items]

def showSsrc (s : Ssrc) : String :=
  rec [showI s.ssrc, showOpt enc s.cname, showOpt enc s.msid, showOpt enc s.mslabel, showOpt enc s.label]

def showFmt : Fmt → String
  | .ints l => showL showI l
  | .strs l => showL enc l

def showMedia (m : Media) : String :=
  rec [enc m.kind, showI m.port, enc m.profile, showFmt m.fmt, showOpt enc m.host, showOpt enc m.direction,
       showOpt enc m.msid, showOpt showI m.rtcpPort, showOpt enc m.rtcpHost, showB m.rtcpMux,
       showL showSsrc m.ssrc, showL (showGroup showI) m.ssrcGroup,
       showL (fun h => rec [showI h.id, enc h.uri]) m.headerExtensions, showOpt enc m.muxId,
       showL showCodec m.codecs, showOpt showI m.maxMessageSize,
       showL (fun kv => rec [showI kv.1, enc kv.2]) m.sctpmap, showOpt showI m.sctpPort,
       showOpt (fun d => rec [showL (fun f => rec [enc f.algorithm, enc f.value]) d.fingerprints, showOpt enc d.role]) m.dtls,
       rec [showOpt enc m.ice.usernameFragment, showOpt enc m.ice.password, showB m.ice.iceLite],
       showL showCand m.candidates, showB m.candidatesComplete, showOpt enc m.iceOptions]

def showSession (s : Session) : String :=
  rec [showI s.version, showOpt enc s.origin, enc s.name, enc s.time, showOpt enc s.host,
       showL (showGroup enc) s.group, showL (showGroup enc) s.msidSemantic, showL showMedia s.media]

def withArg (a : String) (f : Str → String) : String :=
  match dec a with
  | some s => f s
  | none => "bad-arg"

/-! ### `ops`: step sequences on a pool of slots (Model/Sdp/Ops.lean). Tokens: `p <slot> <text>`, `c <slot> <line>`,
`t <slot> <line> <mid> <index>`, `h <slot>`, `a <slot> <text>`, `s <slot>`; reply: the observations joined by ` ## `. -/

def parseOps : List String → Option (List Ops.Op)
  | [] => some []
  | "p" :: i :: a :: rest => do
      let i ← i.toNat?; let t ← dec a; let ops ← parseOps rest; pure (.parse i t :: ops)
  | "a" :: i :: a :: rest => do
      let i ← i.toNat?; let t ← dec a; let ops ← parseOps rest; pure (.assign i t :: ops)
  | "c" :: i :: a :: rest => do
      let i ← i.toNat?; let t ← dec a; let ops ← parseOps rest; pure (.cparse i t :: ops)
  | "t" :: i :: a :: m :: x :: rest => do
      let i ← i.toNat?; let t ← dec a; let m ← dec m; let x ← Aiortc.Drv.parseInt? x
      let ops ← parseOps rest; pure (.trickle i t m x :: ops)
  | "h" :: i :: rest => do
      let i ← i.toNat?; let ops ← parseOps rest; pure (.hostile i :: ops)
  | "s" :: i :: rest => do
      let i ← i.toNat?; let ops ← parseOps rest; pure (.str i :: ops)
  | _ => none

def showMid : Option (Str × Int) → String
  | some (m, x) => " @" ++ enc m ++ " " ++ showI x
  | none => ""

def showCandBoth (r : Outcome Candidate) (mid : Option (Str × Int)) : String :=
  r.tag showCand ++ " || " ++ (r.bind fun c => .ok (candidateToSdp c)).tag enc ++
    (match r with | .ok _ => showMid mid | _ => "")

def showObs : Ops.Obs → String
  | .quiet => "-"
  | .undefined => "?"
  | .both a b => a.tag showSession ++ " || " ++ b.tag enc
  | .cboth a mid => showCandBoth a mid
  | .text t mid => t.tag enc ++ showMid mid

def opsPool : Ops.Pool := List.replicate 4 Ops.Val.none

def handleTop : List String → String
  | "ops" :: toks => match parseOps toks with
      | some ops => " ## ".intercalate ((Ops.run opsPool ops).map showObs)
      | none => "bad-arg"
  | ["both", a] => withArg a fun t =>
      (parse t).tag showSession ++ " || " ++ (roundTrip t).tag enc
  | ["parse", a] => withArg a fun t => (parse t).tag showSession
  | ["rt", a] => withArg a fun t => (roundTrip t).tag enc
  | ["cand", a] => withArg a fun t =>
      let r := candidateFromSdp t
      r.tag showCand ++ " || " ++ (r.bind fun c => .ok (candidateToSdp c)).tag enc
  | ["params", a] => withArg a fun t =>
      let r := parametersFromSdp t
      r.tag showParams ++ " || " ++ (r.bind fun p => .ok (parametersToSdp p)).tag enc
  | ["ip", a] => withArg a fun t => "ok " ++ enc (ipaddressToSdp t) ++ " " ++ showOpt toString (ipVersion t) ++ " || " ++ (ipaddressFromSdp t).tag enc
  | ["group", a] => withArg a fun t =>
      let r := parseGroupStr [] (some t)
      r.tag (showL (showGroup enc)) ++ " || " ++
        (r.bind fun gs => .ok (gs.map (groupToStr id))).tag (showL enc) ++ " || " ++
        (parseGroupInt [] (some t)).tag (showL (showGroup showI))
  | ["lex", "split", a] => withArg a fun t => showL enc (splitWs t)
  | ["lex", "lines", a] => withArg a fun t => showL enc (splitlines t)
  | ["lex", "strip", a] => withArg a fun t => enc (strip t)
  | ["lex", "int", a] => withArg a fun t =>
      match pyInt t with
      | some i => "ok " ++ showI i ++ " " ++ enc (showInt i)
      | none => "ValueError"
  | _ => "bad-op"

end Aiortc.Drv.Sdp
