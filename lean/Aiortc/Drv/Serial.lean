import Aiortc.Gen.Serial
import Aiortc.Gen.Sctp
import Aiortc.Gen.Rtp
import Aiortc.Drv.Util
/-! Driver for the regenerated serial-number functions (self-check of the translator). -/
namespace Aiortc.Drv.Serial
open Aiortc.Gen Aiortc.Drv

def handle : List String → String
  | ["uint16_add", a, b] => match parseInt? a, parseInt? b with
    | some a, some b => toString (uint16_add a b) | _, _ => "bad-op"
  | ["uint16_gt", a, b] => match parseInt? a, parseInt? b with
    | some a, some b => showBool (uint16_gt a b) | _, _ => "bad-op"
  | ["uint16_gte", a, b] => match parseInt? a, parseInt? b with
    | some a, some b => showBool (uint16_gte a b) | _, _ => "bad-op"
  | ["uint32_add", a, b] => match parseInt? a, parseInt? b with
    | some a, some b => toString (uint32_add a b) | _, _ => "bad-op"
  | ["uint32_gt", a, b] => match parseInt? a, parseInt? b with
    | some a, some b => showBool (uint32_gt a b) | _, _ => "bad-op"
  | ["uint32_gte", a, b] => match parseInt? a, parseInt? b with
    | some a, some b => showBool (uint32_gte a b) | _, _ => "bad-op"
  | ["sctp_padl", a] => match parseInt? a with
    | some a => toString (sctp_padl a) | _ => "bad-op"
  | ["rtp_padl", a] => match parseInt? a with
    | some a => toString (rtp_padl a) | _ => "bad-op"
  | ["tsn_plus_one", a] => match parseInt? a with
    | some a => toString (tsn_plus_one a) | _ => "bad-op"
  | ["tsn_minus_one", a] => match parseInt? a with
    | some a => toString (tsn_minus_one a) | _ => "bad-op"
  | ["clamp_packets_lost", a] => match parseInt? a with
    | some a => toString (clamp_packets_lost a) | _ => "bad-op"
  | _ => "bad-op"

/-- `multi f:a:b;g:c` evaluates several requests, replies joined by ';'. -/
def handleTop : List String → String
  | ["multi", reqs] => ";".intercalate ((reqs.splitOn ";").map fun r => handle (r.splitOn ":"))
  | l => handle l

end Aiortc.Drv.Serial
