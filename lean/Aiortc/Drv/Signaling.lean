import Aiortc.Model.Jsep.Signaling
import Aiortc.Model.Jsep.Inherit
import Aiortc.Model.Jsep.Segments
import Aiortc.Drv.Util
/-! Driver for the JSEP signalling model (C14): a pair of modelled peer connections is driven with a
call trace; after every call the result class and the public state of both peers are printed.

Request:  `signaling run <step>;<step>;…`   step = `<peer>:<op>[:<arg>]`   (one pair: peers 0, 1)
          `signaling runn <n> <step>;…`    n connections in one process (n = 4: two pairs, peers 0,1 and 2,3)
  ops: `co:<km>` createOffer (km = media sections the real createOffer produced, `-` if unknown),
       `ca` createAnswer, `sl:<desc>` setLocalDescription(desc), `si:<km>` setLocalDescription(),
       `sr:<desc>` setRemoteDescription(desc), `cl` close
       `par:<sched>~<call>~<call>` two calls in flight on the peer; call = one of the above without the peer;
       sched = string over `a` (next segment of the first call) / `b` (of the second); what is still pending at the
       end runs to completion, first call first (Model/Jsep/Segments.lean: `race`)
  desc = `<id>/<type>/<sess>/<media>`: the description as its text has it (Model/Jsep/Inherit.lean: `RawDesc`);
         sess = `<ufrag><pwd><setup>` of the session part, media = `-` or `+`-joined `<kind>.<mid>.<ufrag><pwd><mux><setup>`
         with the section's OWN lines; ufrag/pwd: `-` no line, `0` empty value, `1` present; setup: `-` no line,
         `a` actpass, `d` active/passive; mux `0`/`1`.  The model resolves session level vs media level itself.
  km   = `-` or `+`-joined `<kind>.<mid>`
Reply:    `;`-joined `<res>|<obs peer0>|<obs peer1>[|<obs peer2>|…]`, obs = `<state>,<local>,<remote>,<events>`. -/
namespace Aiortc.Drv.Signaling
open Aiortc.Model.Jsep Aiortc.Drv

def parseKind? : String → Option Kind
  | "audio" => some .audio | "video" => some .video | "application" => some .application | _ => none

/-- the harness sends the type string it handed to `RTCSessionDescription` ("bogus" for the bad one) -/
def parseType? (s : String) : Option DType := some (DType.ofString s)

/-- an `a=setup` line of one level: `-` none, `a` actpass, `d` active / passive -/
def parseSetup? : Char → Option (Option Role)
  | '-' => some none | 'a' => some (some .auto) | 'd' => some (some .definite) | _ => none

def parseBit? : Char → Option Bool
  | '0' => some false | '1' => some true | _ => none

/-- an `a=ice-ufrag` / `a=ice-pwd` line of one level: `-` none, `0` empty value, `1` present -/
def parseTri? : Char → Option (Option Bool)
  | '-' => some none | '0' => some (some false) | '1' => some (some true) | _ => none

def parseLevel? (u p r : Char) : Option Level :=
  match parseTri? u, parseTri? p, parseSetup? r with
  | some ufrag, some pwd, some setup => some { ufrag, pwd, setup }
  | _, _, _ => none

def parseMedia? (s : String) : Option RawMedia :=
  match s.splitOn "." with
  | [k, mid, fl] =>
    match parseKind? k, fl.toList with
    | some kind, [u, p, x, r] =>
      match parseLevel? u p r, parseBit? x with
      | some own, some mux => some { kind, mid, own, mux }
      | _, _ => none
    | _, _ => none
  | _ => none

def parsePlus? {α} (f : String → Option α) (s : String) : Option (List α) :=
  if s = "-" then some [] else (s.splitOn "+").mapM f

def parseRawDesc? (s : String) : Option RawDesc :=
  match s.splitOn "/" with
  | [i, t, lv, m] =>
    match lv.toList with
    | [u, p, r] =>
      match parseNat? i, parseType? t, parseLevel? u p r, parsePlus? parseMedia? m with
      | some id, some type, some sess, some media => some { id, type, sess, media }
      | _, _, _, _ => none
    | _ => none
  | _ => none

/-- what `SessionDescription.parse` hands to the connection -/
def parseDesc? (s : String) : Option Desc := (parseRawDesc? s).map RawDesc.resolve

def parseKm? (s : String) : Option (Kind × String) :=
  match s.splitOn "." with
  | [k, mid] => (parseKind? k).map fun kind => (kind, mid)
  | _ => none

def parseCall? : List String → Option Call
  | ["co", km] => (parsePlus? parseKm? km).map .createOffer
  | ["ca"] => some .createAnswer
  | ["sl", d] => (parseDesc? d).map .setLocal
  | ["si", km] => (parsePlus? parseKm? km).map .setLocalImplicit
  | ["sr", d] => (parseDesc? d).map .setRemote
  | ["cl"] => some .close
  | _ => none

def showKind : Kind → String
  | .audio => "audio" | .video => "video" | .application => "application"

def showType : DType → String
  | .offer => "offer" | .pranswer => "pranswer" | .answer => "answer"
  | .rollback => "rollback" | .invalid => "invalid"

def showRole : Role → String
  | .missing => "n" | .auto => "a" | .definite => "d"

def showPlus {α} (f : α → String) (l : List α) : String :=
  if l.isEmpty then "-" else "+".intercalate (l.map f)

def showMediaFull (m : Media) : String :=
  showKind m.kind ++ "." ++ m.mid ++ "." ++ showBool m.ufrag ++ showBool m.pwd ++ showBool m.mux ++ showRole m.role

def showKey (m : Media) : String := showKind m.kind ++ "." ++ m.mid

def showSig : Sig → String
  | .stable => "stable" | .haveLocalOffer => "have-local-offer" | .haveRemoteOffer => "have-remote-offer"
  | .haveLocalPranswer => "have-local-pranswer" | .haveRemotePranswer => "have-remote-pranswer"
  | .closed => "closed"

def showSlot : Option Desc → String
  | none => "-"
  | some d => toString d.id ++ "/" ++ showType d.type ++ "/" ++ showPlus showKey d.media

def showRes : Res → String
  | .ok => "ok"
  | .created d => "created=" ++ showType d.type ++ "/" ++ showPlus showMediaFull d.media
  | .invalidState => "InvalidStateError"
  | .valueError => "ValueError"
  | .crash k => "crash=" ++ k

def showObs (pc : Pc) : String :=
  showSig pc.sig ++ "," ++ showSlot pc.localDescription ++ "," ++ showSlot pc.remoteDescription ++ ","
    ++ toString pc.events

def parseSched? (s : String) : Option (List Nat) :=
  s.toList.mapM fun c => if c = 'a' then some 0 else if c = 'b' then some 1 else none

def showFlight : Flight → String
  | .finished r => showRes r
  | _ => "unfinished"

/-- one step on one peer: a call awaited on its own, or two calls in flight (`par:<sched>~<call>~<call>`) -/
def stepPeer (pc : Pc) (s : String) : Option (String × Pc) :=
  if s.startsWith "par:" then
    match (s.drop 4).toString.splitOn "~" with
    | [sched, a, b] =>
      match parseSched? sched, parseCall? (a.splitOn ":"), parseCall? (b.splitOn ":") with
      | some sc, some ca, some cb =>
        let r := race pc ca cb sc
        some ("&".intercalate (r.1.map showFlight), r.2)
      | _, _, _ => none
    | _ => none
  else
    (parseCall? (s.splitOn ":")).map fun c => let r := step pc c; (showRes r.1, r.2)

/-- Any number of connections living in one process (`run`: one pair; `runn 4`: two pairs).  A step names its peer by one
digit; a call is applied to that connection alone (`Model/Jsep/System.lean: stepAt`), all connections are printed. -/
def runPeers : List Pc → List String → List String → Option (List String)
  | _, [], acc => some acc.reverse
  | pcs, s :: rest, acc =>
    match s.toList with
    | d :: ':' :: _ =>
      if d.isDigit then
        let i := d.toNat - '0'.toNat
        match pcs[i]? with
        | some pc =>
          match stepPeer pc (s.drop 2).toString with
          | some (res, pc') =>
            let pcs' := pcs.set i pc'
            runPeers pcs' rest ((res ++ String.join (pcs'.map fun q => "|" ++ showObs q)) :: acc)
          | none => none
        | none => none
      else none
    | _ => none

def runFrom (n : Nat) (steps : String) : String :=
  match runPeers (List.replicate n Pc.init) (if steps = "-" then [] else steps.splitOn ";") [] with
  | some out => if out.isEmpty then "-" else ";".intercalate out
  | none => "bad-op"

def handleTop : List String → String
  | ["run", steps] => runFrom 2 steps
  | ["runn", n, steps] =>
    match parseNat? n with
    | some k => if 2 ≤ k ∧ k ≤ 10 then runFrom k steps else "bad-op"
    | none => "bad-op"
  | _ => "bad-op"

end Aiortc.Drv.Signaling
