import Aiortc.Model.Jsep.Signaling
import Aiortc.Drv.Util
/-! Driver for the JSEP signalling model (C14): a pair of modelled peer connections is driven with a
call trace; after every call the result class and the public state of both peers are printed.

Request:  `signaling run <step>;<step>;…`   step = `<peer>:<op>[:<arg>]`
  ops: `co:<km>` createOffer (km = media sections the real createOffer produced, `-` if unknown),
       `ca` createAnswer, `sl:<desc>` setLocalDescription(desc), `si:<km>` setLocalDescription(),
       `sr:<desc>` setRemoteDescription(desc), `cl` close
  desc = `<id>/<type>/<media>`; media = `-` or `+`-joined `<kind>.<mid>.<ufrag><pwd><mux><role>`
  km   = `-` or `+`-joined `<kind>.<mid>`
Reply:    `;`-joined `<res>|<obs peer0>|<obs peer1>`, obs = `<state>,<local>,<remote>,<events>`. -/
namespace Aiortc.Drv.Signaling
open Aiortc.Model.Jsep Aiortc.Drv

def parseKind? : String → Option Kind
  | "audio" => some .audio | "video" => some .video | "application" => some .application | _ => none

/-- the harness sends the type string it handed to `RTCSessionDescription` ("bogus" for the bad one) -/
def parseType? (s : String) : Option DType := some (DType.ofString s)

def parseRole? : Char → Option Role
  | 'n' => some .missing | 'a' => some .auto | 'd' => some .definite | _ => none

def parseBit? : Char → Option Bool
  | '0' => some false | '1' => some true | _ => none

def parseMedia? (s : String) : Option Media :=
  match s.splitOn "." with
  | [k, mid, fl] =>
    match parseKind? k, fl.toList with
    | some kind, [u, p, x, r] =>
      match parseBit? u, parseBit? p, parseBit? x, parseRole? r with
      | some u, some p, some x, some r => some { kind, mid, ufrag := u, pwd := p, mux := x, role := r }
      | _, _, _, _ => none
    | _, _ => none
  | _ => none

def parsePlus? {α} (f : String → Option α) (s : String) : Option (List α) :=
  if s = "-" then some [] else (s.splitOn "+").mapM f

def parseDesc? (s : String) : Option Desc :=
  match s.splitOn "/" with
  | [i, t, m] =>
    match parseNat? i, parseType? t, parsePlus? parseMedia? m with
    | some id, some type, some media => some { id, type, media }
    | _, _, _ => none
  | _ => none

def parseKm? (s : String) : Option (Kind × String) :=
  match s.splitOn "." with
  | [k, mid] => (parseKind? k).map fun kind => (kind, mid)
  | _ => none

def parseCall? : List String → Option Call
  | ["co", km] => (parsePlus? parseKm? km).map .createOffer
  | ["ca"] => some .createAnswer
  | ["sl", d] => (parseDesc? d).map .setLocal
  | ["si", km] => (parsePlus? parseKm? km).map .setLocalImplicit
  | ["sr", d] => (parseDesc? d).map .setRemote
  | ["cl"] => some .close
  | _ => none

def showKind : Kind → String
  | .audio => "audio" | .video => "video" | .application => "application"

def showType : DType → String
  | .offer => "offer" | .pranswer => "pranswer" | .answer => "answer"
  | .rollback => "rollback" | .invalid => "invalid"

def showRole : Role → String
  | .missing => "n" | .auto => "a" | .definite => "d"

def showPlus {α} (f : α → String) (l : List α) : String :=
  if l.isEmpty then "-" else "+".intercalate (l.map f)

def showMediaFull (m : Media) : String :=
  showKind m.kind ++ "." ++ m.mid ++ "." ++ showBool m.ufrag ++ showBool m.pwd ++ showBool m.mux ++ showRole m.role

def showKey (m : Media) : String := showKind m.kind ++ "." ++ m.mid

def showSig : Sig → String
  | .stable => "stable" | .haveLocalOffer => "have-local-offer" | .haveRemoteOffer => "have-remote-offer"
  | .haveLocalPranswer => "have-local-pranswer" | .haveRemotePranswer => "have-remote-pranswer"
  | .closed => "closed"

def showSlot : Option Desc → String
  | none => "-"
  | some d => toString d.id ++ "/" ++ showType d.type ++ "/" ++ showPlus showKey d.media

def showRes : Res → String
  | .ok => "ok"
  | .created d => "created=" ++ showType d.type ++ "/" ++ showPlus showMediaFull d.media
  | .invalidState => "InvalidStateError"
  | .valueError => "ValueError"
  | .crash k => "crash=" ++ k

def showObs (pc : Pc) : String :=
  showSig pc.sig ++ "," ++ showSlot pc.localDescription ++ "," ++ showSlot pc.remoteDescription ++ ","
    ++ toString pc.events

def runPair : Pc → Pc → List String → List String → Option (List String)
  | _, _, [], acc => some acc.reverse
  | p0, p1, s :: rest, acc =>
    match s.splitOn ":" with
    | peer :: op =>
      match parseCall? op with
      | none => none
      | some c =>
        if peer = "0" then
          let r := step p0 c
          runPair r.2 p1 rest ((showRes r.1 ++ "|" ++ showObs r.2 ++ "|" ++ showObs p1) :: acc)
        else if peer = "1" then
          let r := step p1 c
          runPair p0 r.2 rest ((showRes r.1 ++ "|" ++ showObs p0 ++ "|" ++ showObs r.2) :: acc)
        else none
    | _ => none

def handleTop : List String → String
  | ["run", steps] =>
    match runPair Pc.init Pc.init (if steps = "-" then [] else steps.splitOn ";") [] with
    | some out => if out.isEmpty then "-" else ";".intercalate out
    | none => "bad-op"
  | _ => "bad-op"

end Aiortc.Drv.Signaling
