import Aiortc.Model.Stats
import Aiortc.Drv.Util
/-!
Driver for `Model/Stats.lean` (C18).  Requests:

* `stats run <ev;ev;…>` — a `StreamStatistics` object.  Events (`:`-separated fields):
  `a:seq:ts:arrival` (add), `b:n:seq:dseq:ts:dts:arr:darr` (n adds, i-th packet
  `((seq+i·dseq) mod 2^16, (ts+i·dts) mod 2^32, arr+i·darr)`), `f` (read `fraction_lost`),
  `g` (read `packets_received/packets_expected/packets_lost/jitter/max_seq/cycles/base_seq`).
  Reply `ok <out;out;…>` (one `out` per `f`/`g`) or `crash <kind>`.
* `stats recv <rtcp_ssrc|-> <ev;ev;…>` — an `RTCRtpReceiver`.  Events: `p:ssrc:seq:ts:arrival`,
  `b:ssrc:n:seq:dseq:ts:dts:arr:darr`, `s:ssrc:ntp` (sender report), `r:<num/den,…|->` (one
  iteration of `_run_rtcp`; replies hex of the datagram or `none`), `g` (getStats:
  `received/lost/jitter` or `none`).
* `stats info ssrc fl pl hs jit lsr dlsr` — `bytes(RtcpReceiverInfo(...))`.
* `stats ppl n` — `pack_packets_lost(n)`.
-/
namespace Aiortc.Drv.Stats
open Aiortc Aiortc.Drv Aiortc.Model.Stats

def showOpt (o : Option Int) : String :=
  match o with
  | some v => toString v
  | none => "None"

/-- Fold a list of fallible steps, collecting outputs. -/
def foldEv {σ} (step : σ → List String → Option (Outcome (σ × Option String))) :
    σ → List (List String) → List String → Option (Outcome (List String))
  | _, [], acc => some (.ok acc.reverse)
  | s, e :: rest, acc =>
    match step s e with
    | none => none
    | some (.ok (s', o)) => foldEv step s' rest (match o with | some x => x :: acc | none => acc)
    | some .valueError => some .valueError
    | some (.crash k) => some (.crash k)
    | some .hang => some .hang

def burst (addf : σ → Int → Int → Int → Outcome σ) : Nat → σ → Int → Int → Int → Int → Int → Int → Outcome σ
  | 0, s, _, _, _, _, _, _ => .ok s
  | n + 1, s, seq, dseq, ts, dts, arr, darr =>
    match addf s (seq % 65536) (ts % 4294967296) arr with
    | .ok s' => burst addf n s' (seq + dseq) dseq (ts + dts) dts (arr + darr) darr
    | .valueError => .valueError
    | .crash k => .crash k
    | .hang => .hang

def lift {σ} (o : Outcome σ) : Outcome (σ × Option String) :=
  match o with
  | .ok s => .ok (s, none)
  | .valueError => .valueError
  | .crash k => .crash k
  | .hang => .hang

def statsStep (s : Stats) : List String → Option (Outcome (Stats × Option String))
  | ["a", seq, ts, arr] => do
    let seq ← parseInt? seq; let ts ← parseInt? ts; let arr ← parseInt? arr
    pure (lift (add s seq ts arr))
  | ["b", n, seq, dseq, ts, dts, arr, darr] => do
    let n ← parseNat? n; let seq ← parseInt? seq; let dseq ← parseInt? dseq
    let ts ← parseInt? ts; let dts ← parseInt? dts; let arr ← parseInt? arr; let darr ← parseInt? darr
    pure (lift (burst add n s seq dseq ts dts arr darr))
  | ["f"] =>
    some (match fractionLost s with
      | .ok (v, s') => .ok (s', some (toString v))
      | .valueError => .valueError
      | .crash k => .crash k
      | .hang => .hang)
  | ["g"] =>
    some (match packetsExpected s, packetsLost s with
      | .ok e, .ok l =>
        .ok (s, some ("/".intercalate [toString s.received, toString e, toString l, toString (jitter s),
                        showOpt s.maxSeq, toString s.cycles, showOpt s.baseSeq]))
      | .crash k, _ => .crash k
      | _, .crash k => .crash k
      | _, _ => .hang)
  | _ => none

def parseRatio? (s : String) : Option (Int × Int) :=
  match s.splitOn "/" with
  | [a, b] => do
    let a ← parseInt? a; let b ← parseInt? b
    pure (a, b)
  | _ => none

def recvStep (rtcpSsrc : Option Int) (r : Receiver) : List String → Option (Outcome (Receiver × Option String))
  | ["p", ssrc, seq, ts, arr] => do
    let ssrc ← parseInt? ssrc; let seq ← parseInt? seq; let ts ← parseInt? ts; let arr ← parseInt? arr
    pure (lift (r.rtp ssrc seq ts arr))
  | ["b", ssrc, n, seq, dseq, ts, dts, arr, darr] => do
    let ssrc ← parseInt? ssrc
    let n ← parseNat? n; let seq ← parseInt? seq; let dseq ← parseInt? dseq
    let ts ← parseInt? ts; let dts ← parseInt? dts; let arr ← parseInt? arr; let darr ← parseInt? darr
    pure (lift (burst (fun r a b c => Receiver.rtp r ssrc a b c) n r seq dseq ts dts arr darr))
  | ["s", ssrc, ntp] => do
    let ssrc ← parseInt? ssrc; let ntp ← parseInt? ntp
    pure (.ok (r.sr ssrc ntp, none))
  | ["r", delays] => do
    let ds ← parseList? parseRatio? delays
    pure (match r.runRtcp rtcpSsrc ds with
      | .ok (some b, r') => .ok (r', some (toHex b))
      | .ok (none, r') => .ok (r', some "none")
      | .valueError => .valueError
      | .crash k => .crash k
      | .hang => .hang)
  | ["g"] =>
    some (match r.getStats with
      | .ok (some (a, b, c)) => .ok (r, some ("/".intercalate [toString a, toString b, toString c]))
      | .ok none => .ok (r, some "none")
      | .valueError => .valueError
      | .crash k => .crash k
      | .hang => .hang)
  | _ => none

def events (s : String) : List (List String) :=
  if s = "-" then [] else (s.splitOn ";").map (·.splitOn ":")

def reply (o : Option (Outcome (List String))) : String :=
  match o with
  | none => "bad-op"
  | some o => o.tag (fun l => if l.isEmpty then "-" else ";".intercalate l)

def handleTop : List String → String
  | ["run", evs] => reply (foldEv statsStep Aiortc.Model.Stats.init (events evs) [])
  | ["recv", ssrc, evs] =>
    let rs : Option (Option Int) := if ssrc = "-" then some none else (parseInt? ssrc).map some
    match rs with
    | some rs => reply (foldEv (recvStep rs) Receiver.init (events evs) [])
    | none => "bad-op"
  | ["info", a, b, c, d, e, f, g] =>
    match parseInt? a, parseInt? b, parseInt? c, parseInt? d, parseInt? e, parseInt? f, parseInt? g with
    | some a, some b, some c, some d, some e, some f, some g =>
      (RrInfo.bytes ⟨a, b, c, d, e, f, g⟩).tag toHex
    | _, _, _, _, _, _, _ => "bad-op"
  | ["ppl", n] =>
    match parseInt? n with
    | some n => (Outcome.ofStruct (packPacketsLost? n)).tag toHex
    | none => "bad-op"
  | _ => "bad-op"

end Aiortc.Drv.Stats
