/-! Line-protocol helpers for the model driver (no Mathlib). -/
namespace Aiortc.Drv

/-- Parse a decimal integer with optional leading '-'. -/
def parseInt? (s : String) : Option Int := s.toInt?

def parseNat? (s : String) : Option Nat := s.toNat?

def hexDigit? (c : Char) : Option Nat :=
  if '0' ≤ c ∧ c ≤ '9' then some (c.toNat - '0'.toNat)
  else if 'a' ≤ c ∧ c ≤ 'f' then some (c.toNat - 'a'.toNat + 10)
  else if 'A' ≤ c ∧ c ≤ 'F' then some (c.toNat - 'A'.toNat + 10)
  else none

def parseHexAux : List Char → List Nat → Option (List Nat)
  | [], acc => some acc.reverse
  | [_], _ => none
  | a :: b :: rest, acc =>
    match hexDigit? a, hexDigit? b with
    | some x, some y => parseHexAux rest ((x * 16 + y) :: acc)
    | _, _ => none

/-- Bytes are written as lowercase hex, the empty string as "-". Bytes are `Nat`s < 256. -/
def parseHex? (s : String) : Option (List Nat) :=
  if s = "-" then some [] else parseHexAux s.toList []

def hexChar (n : Nat) : Char :=
  if n < 10 then Char.ofNat (n + '0'.toNat) else Char.ofNat (n - 10 + 'a'.toNat)

def toHex (bs : List Nat) : String :=
  if bs.isEmpty then "-" else
  String.ofList (bs.foldr (fun b acc => hexChar (b / 16 % 16) :: hexChar (b % 16) :: acc) [])

/-- Comma-separated list; "-" is the empty list. -/
def parseList? {α} (f : String → Option α) (s : String) : Option (List α) :=
  if s = "-" then some [] else (s.splitOn ",").mapM f

def showList {α} (f : α → String) (l : List α) : String :=
  if l.isEmpty then "-" else ",".intercalate (l.map f)

def showBool (b : Bool) : String := if b then "1" else "0"

def parseBool? (s : String) : Option Bool :=
  if s = "1" then some true else if s = "0" then some false else none

end Aiortc.Drv
