import Aiortc.Model.Video.Sender
import Aiortc.Model.Video.Receiver
import Aiortc.Drv.Util
/-!
Driver for the C11 models (Model/Video/*).

Requests (fields are single tokens; `-` = empty list, `n` = None):
* `video nack <seq>,<seq>,…`
    reply `ok <missed>/<max_seq>/<sorted missing '.'-joined or ->;…`   (one entry per `add`)
* `video tsmap <t>,<t>,…`                      reply `ok <mapped>,<mapped>,…`
* `video sender <ssrc> <rtx_ssrc> <sendcodecs> <ts_origin> <seq0> <rtx_seq0> <op>;<op>;…`
    sendcodecs = `,`-joined `<pt>:<r|m>:<apt|n>` = `parameters.codecs` of `send` (rtx or media; first = sending codec)
    op = `f:<enc_ts>:<hex>/<hex>/…`  one `_run_rtp` iteration with these payloads
         `k:<s>.<s>.…`               `_handle_rtcp_packet(NACK lost=[…])`
         `r:<s>`                     `_retransmit(s)`
    reply `ok <pkts>;<pkts>;…`, pkts = `-` or `,`-joined `<pt>.<seq>.<ts>.<ssrc>.<marker>.<hex>`
* `video pair <the 7 sender fields> <the 5 recv fields>`   reply `ok <sender reply>#<recv reply>`
* `video recv <codecs> <rtxmap> <rtcp_ssrc|n> <decoder 0|1> <pkt>;<pkt>;…`
    codecs = `,`-joined `<pt>:<vp8|h264|rtx|other>:<apt|n>`; rtxmap = `-` or `,`-joined `<rtx_ssrc>:<ssrc>`
    pkt = `<pt>.<seq>.<ts>.<ssrc>.<marker>.<hex>`
    reply `ok <res>;…`, res = `<fb>|<item>`; fb = `-` or `+`-joined `N<ssrc>:<lost '.'-joined>` / `P<ssrc>`;
    item = `n` or `<pt>/<ts>/<hex>`
-/
namespace Aiortc.Drv.Video
open Aiortc Aiortc.Drv Aiortc.Rtp Aiortc.Model.Video

def splitList (sep : String) (s : String) : List String := if s = "-" then [] else s.splitOn sep

def showInts (sep : String) (l : List Int) : String := if l.isEmpty then "-" else sep.intercalate (l.map toString)

def showOptInt : Option Int → String
  | none => "n"
  | some v => toString v

def parseOptNat? (s : String) : Option (Option Nat) := if s = "n" then some none else (parseNat? s).map some

/-! ### nack -/

def nackRun : NackGen → List Int → List String → Outcome (List String)
  | _, [], acc => .ok acc.reverse
  | g, x :: xs, acc =>
    match g.add x with
    | .ok (g1, missed) =>
      nackRun g1 xs ((showBool missed ++ "/" ++ showOptInt g1.maxSeq ++ "/" ++ showInts "." (sortInts g1.missing)) :: acc)
    | .valueError => .valueError | .crash k => .crash k | .hang => .hang

/-! ### tsmap -/

def tsRun : TsMap → List Int → List Int → Outcome (List Int)
  | _, [], acc => .ok acc.reverse
  | m, t :: ts, acc =>
    match m.map t with
    | .ok (m1, v) => tsRun m1 ts (v :: acc)
    | .valueError => .valueError | .crash k => .crash k | .hang => .hang

/-! ### sender -/

inductive SOp where
  | frame (encTs : Int) (payloads : List Bytes)
  | nack (lost : List Int)
  | retx (s : Int)

def parseSOp (s : String) : Option SOp :=
  match s.splitOn ":" with
  | ["f", t, pls] =>
    match parseInt? t, (splitList "/" pls).mapM parseHex? with
    | some t, some pls => some (.frame t pls)
    | _, _ => none
  | ["k", l] => ((splitList "." l).mapM parseInt?).map .nack
  | ["r", x] => (parseInt? x).map .retx
  | _ => none

def showPkt (p : RtpPacket) : String :=
  ".".intercalate [toString p.payloadType, toString p.sequenceNumber, toString p.timestamp, toString p.ssrc,
    toString p.marker, toHex p.payload]

def showPkts (l : List RtpPacket) : String := if l.isEmpty then "-" else ",".intercalate (l.map showPkt)

def senderStep (cfg : SenderCfg) (s : Sender) : SOp → Sender × List RtpPacket
  | .frame t pls => if pls.isEmpty then (s, []) else sendFrame cfg s t pls
  | .nack l => handleNack cfg s l
  | .retx x => retransmit cfg s x

def senderRun (cfg : SenderCfg) : Sender → List SOp → List String → List String
  | _, [], acc => acc.reverse
  | s, op :: ops, acc =>
    let r := senderStep cfg s op
    senderRun cfg r.1 ops (showPkts r.2 :: acc)

/-! ### receiver -/

def parseCodec (s : String) : Option (Nat × Codec) :=
  match s.splitOn ":" with
  | [pt, nm, apt] =>
    let name : Option CodecName :=
      if nm = "vp8" then some .vp8 else if nm = "h264" then some .h264 else if nm = "rtx" then some .rtx
      else if nm = "other" then some .other else none
    match parseNat? pt, name, parseOptNat? apt with
    | some pt, some name, some apt => some (pt, ⟨name, apt⟩)
    | _, _, _ => none
  | _ => none

def parsePair (s : String) : Option (Nat × Nat) :=
  match s.splitOn ":" with
  | [a, b] => match parseNat? a, parseNat? b with
    | some a, some b => some (a, b)
    | _, _ => none
  | _ => none

def parsePkt (s : String) : Option RtpPacket :=
  match s.splitOn "." with
  | [pt, seq, ts, ssrc, m, pl] =>
    match parseNat? pt, parseNat? seq, parseNat? ts, parseNat? ssrc, parseNat? m, parseHex? pl with
    | some pt, some seq, some ts, some ssrc, some m, some pl =>
      some { marker := m, payloadType := pt, sequenceNumber := seq, timestamp := ts, ssrc := ssrc, payload := pl }
    | _, _, _, _, _, _ => none
  | _ => none

def showFb : Fb → String
  | .nack ssrc lost => "N" ++ toString ssrc ++ ":" ++ showInts "." lost
  | .pli ssrc => "P" ++ toString ssrc

def showItem : Option QItem → String
  | none => "n"
  | some q => toString q.pt ++ "/" ++ toString q.ts ++ "/" ++ toHex q.data

def recvRun (cfg : RecvCfg) : Receiver → List RtpPacket → List String → Outcome (List String)
  | _, [], acc => .ok acc.reverse
  | r, p :: ps, acc =>
    match handleRtp cfg r p with
    | .ok o =>
      recvRun cfg o.r ps (((if o.fb.isEmpty then "-" else "+".intercalate (o.fb.map showFb)) ++ "|" ++ showItem o.item) :: acc)
    | .valueError => .valueError | .crash k => .crash k | .hang => .hang

def parseSendCodec (s : String) : Option SendCodec :=
  match s.splitOn ":" with
  | [pt, k, apt] =>
    match parseNat? pt, (if k = "r" then some true else if k = "m" then some false else none), parseOptNat? apt with
    | some pt, some k, some apt => some ⟨pt, k, apt⟩
    | _, _, _ => none
  | _ => none

/-- `codecs` = `,`-joined `<pt>:<r|m>:<apt|n>` (the list handed to `send`; the sending codec is the first). -/
def senderReq (ssrc rtxSsrc codecs tsO seq0 rtxSeq0 ops : String) : Option (Outcome String) :=
  match parseNat? ssrc, parseNat? rtxSsrc, (splitList "," codecs).mapM parseSendCodec, parseInt? tsO, parseInt? seq0,
    parseInt? rtxSeq0, (splitList ";" ops).mapM parseSOp with
  | some ssrc, some rtxSsrc, some codecs, some tsO, some seq0, some rtxSeq0, some ops =>
    some (match SenderCfg.ofCodecs ssrc rtxSsrc codecs tsO with
      | .ok cfg => .ok (";".intercalate (senderRun cfg ⟨seq0, rtxSeq0, []⟩ ops []))
      | .valueError => .valueError | .crash k => .crash k | .hang => .hang)
  | _, _, _, _, _, _, _ => none

def recvReq (codecs rtxmap rtcpSsrc dec pkts : String) : Option (Outcome String) :=
  match (splitList "," codecs).mapM parseCodec, (splitList "," rtxmap).mapM parsePair, parseOptNat? rtcpSsrc,
    parseBool? dec, (splitList ";" pkts).mapM parsePkt with
  | some codecs, some rtxmap, some rtcpSsrc, some dec, some pkts =>
    let r : Outcome (List String) := match Receiver.init with
      | .ok r0 => recvRun ⟨codecs, rtxmap, rtcpSsrc, dec⟩ r0 pkts []
      | .valueError => .valueError | .crash k => .crash k | .hang => .hang
    some (match r with
      | .ok outs => .ok (";".intercalate outs)
      | .valueError => .valueError | .crash k => .crash k | .hang => .hang)
  | _, _, _, _, _ => none

def handleTop : List String → String
  | ["nack", seqs] =>
    match (splitList "," seqs).mapM parseInt? with
    | some l => (nackRun NackGen.init l []).tag fun outs => ";".intercalate outs
    | none => "bad-op"
  | ["tsmap", ts] =>
    match (splitList "," ts).mapM parseInt? with
    | some l => (tsRun TsMap.init l []).tag fun outs => showInts "," outs
    | none => "bad-op"
  | ["sender", ssrc, rtxSsrc, codecs, tsO, seq0, rtxSeq0, ops] =>
    match senderReq ssrc rtxSsrc codecs tsO seq0 rtxSeq0 ops with
    | some r => r.tag id
    | none => "bad-op"
  | ["recv", codecs, rtxmap, rtcpSsrc, dec, pkts] =>
    match recvReq codecs rtxmap rtcpSsrc dec pkts with
    | some r => r.tag id
    | none => "bad-op"
  | ["pair", ssrc, rtxSsrc, scodecs, tsO, seq0, rtxSeq0, ops, codecs, rtxmap, rtcpSsrc, dec, pkts] =>
    match senderReq ssrc rtxSsrc scodecs tsO seq0 rtxSeq0 ops, recvReq codecs rtxmap rtcpSsrc dec pkts with
    | some (.ok s), some r => r.tag fun x => s ++ "#" ++ x
    | some s, some _ => s.tag id
    | _, _ => "bad-op"
  | _ => "bad-op"

end Aiortc.Drv.Video
