import Aiortc.Model.Bytes
/-! Round-trip lemmas for the big-endian helpers. -/
namespace Aiortc

theorem isBytes_nil : IsBytes [] := by intro b h; cases h
theorem isBytes_cons {a : Nat} {l : Bytes} : IsBytes (a :: l) ↔ a < 256 ∧ IsBytes l := by
  unfold IsBytes; simp
theorem isBytes_append {l m : Bytes} : IsBytes (l ++ m) ↔ IsBytes l ∧ IsBytes m := by
  unfold IsBytes; simp only [List.mem_append]; constructor
  · intro h; exact ⟨fun b hb => h b (Or.inl hb), fun b hb => h b (Or.inr hb)⟩
  · rintro ⟨h1, h2⟩ b (hb | hb); exact h1 b hb; exact h2 b hb

theorem isBytes_take {l : Bytes} (n : Nat) (h : IsBytes l) : IsBytes (l.take n) :=
  fun b hb => h b (List.mem_of_mem_take hb)
theorem isBytes_drop {l : Bytes} (n : Nat) (h : IsBytes l) : IsBytes (l.drop n) :=
  fun b hb => h b (List.mem_of_mem_drop hb)
theorem isBytes_replicate_zero (n : Nat) : IsBytes (zeros n) := by
  intro b hb; unfold zeros at hb; rw [List.mem_replicate] at hb; omega

theorem isBytes_u8 (n : Nat) : IsBytes (u8 n) := by
  unfold u8 IsBytes; simp; omega
theorem isBytes_u16be (n : Nat) : IsBytes (u16be n) := by
  unfold u16be IsBytes; simp; omega
theorem isBytes_u24be (n : Nat) : IsBytes (u24be n) := by
  unfold u24be IsBytes; simp; omega
theorem isBytes_u32be (n : Nat) : IsBytes (u32be n) := by
  unfold u32be IsBytes; simp; omega

@[simp] theorem length_u8 (n : Nat) : (u8 n).length = 1 := rfl
@[simp] theorem length_u16be (n : Nat) : (u16be n).length = 2 := rfl
@[simp] theorem length_u24be (n : Nat) : (u24be n).length = 3 := rfl
@[simp] theorem length_u32be (n : Nat) : (u32be n).length = 4 := rfl
@[simp] theorem length_u64be (n : Nat) : (u64be n).length = 8 := rfl

theorem unpackU8_u8 (n : Nat) (h : n < 256) : unpackU8? (u8 n) = some n := by
  unfold u8 unpackU8?; simp; omega
theorem unpackU16_u16be (n : Nat) (h : n < 65536) : unpackU16? (u16be n) = some n := by
  unfold u16be unpackU16?; simp; omega
theorem unpackU24_u24be (n : Nat) (h : n < 16777216) : unpackU24? (u24be n) = some n := by
  unfold u24be unpackU24?; simp; omega
theorem unpackU32_u32be (n : Nat) (h : n < 4294967296) : unpackU32? (u32be n) = some n := by
  unfold u32be unpackU32?; simp; omega

/-- The other direction: re-packing an unpacked field gives the same bytes. -/
theorem u16be_unpack (a b : Nat) (ha : a < 256) (hb : b < 256) : u16be (a * 256 + b) = [a, b] := by
  unfold u16be; simp; omega
theorem u24be_unpack (a b c : Nat) (ha : a < 256) (hb : b < 256) (hc : c < 256) :
    u24be ((a * 256 + b) * 256 + c) = [a, b, c] := by
  unfold u24be; simp; omega
theorem u32be_unpack (a b c d : Nat) (ha : a < 256) (hb : b < 256) (hc : c < 256) (hd : d < 256) :
    u32be (((a * 256 + b) * 256 + c) * 256 + d) = [a, b, c, d] := by
  unfold u32be; simp; omega

theorem unpackU16_lt (l : Bytes) (h : IsBytes l) (n : Nat) (hn : unpackU16? l = some n) : n < 65536 := by
  match l, hn with
  | [a, b], hn =>
    simp [unpackU16?] at hn
    have := h a (by simp); have := h b (by simp); omega
theorem unpackU32_lt (l : Bytes) (h : IsBytes l) (n : Nat) (hn : unpackU32? l = some n) :
    n < 4294967296 := by
  match l, hn with
  | [a, b, c, d], hn =>
    simp [unpackU32?] at hn
    have := h a (by simp); have := h b (by simp); have := h c (by simp); have := h d (by simp)
    omega

theorem slice_length_le {α} (d : List α) (i j : Nat) : (slice d i j).length ≤ j - i := by
  unfold slice; simp; omega

end Aiortc
