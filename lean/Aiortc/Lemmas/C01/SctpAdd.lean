import Aiortc.Lemmas.C01.SctpMark
/-!
# `InboundStream.add_chunk`

* window-free facts used by the end-to-end proof: no `AssertionError` when the TSN is new, nothing but
  the new chunk enters the queue, duplicate-freeness is kept (`addChunk_spec`);
* inside a window of fewer than 2^31 TSNs the queue stays sorted in serial TSN order and the new
  chunk is really inserted (`addChunk_sorted`).
-/
namespace Aiortc.Sctp
open Aiortc.Gen

theorem insertLoop_spec (c : RChunk) : ∀ (l : List RChunk), (∀ r ∈ l, r.tsn ≠ c.tsn) →
    ∃ l', insertLoop c l = some l' ∧ (∀ x, x ∈ l' → x = c ∨ x ∈ l)
      ∧ (l.Nodup → c ∉ l → l'.Nodup) := by
  intro l
  induction l with
  | nil => intro _; exact ⟨[], rfl, by simp, by simp⟩
  | cons r rs ih =>
    intro h
    have hr := h r (by simp)
    obtain ⟨l', h1, h2, h3⟩ := ih (fun x hx => h x (by simp [hx]))
    unfold insertLoop
    rw [if_neg hr]
    split
    · refine ⟨c :: r :: rs, rfl, ?_, ?_⟩
      · intro x hx
        rcases List.mem_cons.1 hx with e | e
        · exact Or.inl e
        · exact Or.inr e
      · intro hnd hc; exact List.nodup_cons.2 ⟨hc, hnd⟩
    · refine ⟨r :: l', by rw [h1]; rfl, ?_, ?_⟩
      · intro x hx
        rcases List.mem_cons.1 hx with e | e
        · exact Or.inr (by simp [e])
        · rcases h2 x e with e' | e'
          · exact Or.inl e'
          · exact Or.inr (by simp [e'])
      · intro hnd hc
        rw [List.nodup_cons] at hnd
        simp only [List.mem_cons, not_or] at hc
        refine List.nodup_cons.2 ⟨?_, h3 hnd.2 hc.2⟩
        intro hm
        rcases h2 r hm with e | e
        · exact hc.1 e.symm
        · exact hnd.1 e

/-- `add_chunk(c)` when no queued chunk has `c`'s TSN: no `AssertionError`, the stream sequence number
is untouched, every queued chunk is `c` or was queued before, and duplicate-freeness is kept. -/
theorem addChunk_spec (s : InStream) (c : RChunk) (h : ∀ r ∈ s.reasm, r.tsn ≠ c.tsn) :
    ∃ s1, s.addChunk c = .ok s1 ∧ s1.seq = s.seq ∧ (∀ x, x ∈ s1.reasm → x = c ∨ x ∈ s.reasm)
      ∧ (s.reasm.Nodup → c ∉ s.reasm → s1.reasm.Nodup) := by
  unfold InStream.addChunk
  split
  · exact ⟨_, rfl, rfl, by simp, by simp⟩
  · split
    · refine ⟨_, rfl, rfl, ?_, ?_⟩
      · intro x hx
        simp only [List.mem_append, List.mem_singleton] at hx
        rcases hx with e | e
        · exact Or.inr e
        · exact Or.inl e
      · intro hnd hc
        simp only []
        rw [List.nodup_append]
        refine ⟨hnd, by simp, ?_⟩
        intro a ha b hb
        simp only [List.mem_singleton] at hb
        subst hb; intro e; exact hc (e ▸ ha)
    · obtain ⟨l', h1, h2, h3⟩ := insertLoop_spec c s.reasm h
      rw [h1]
      exact ⟨_, rfl, rfl, h2, h3⟩

/-! ## sortedness (serial TSN order) -/

theorem insNat_append_of_lt (k : Nat) : ∀ (J : List Nat), (∀ x ∈ J, x < k) → insNat k J = J ++ [k] := by
  intro J
  induction J with
  | nil => intro _; rfl
  | cons x xs ih =>
    intro h
    have hx := h x (by simp)
    unfold insNat
    rw [if_neg (by omega)]
    rw [ih (fun y hy => h y (by simp [hy]))]; rfl

theorem insertLoop_sorted (t0 : Int) (c : RChunk) (k : Nat) (hc : c.tsn = tsnN t0 k) :
    ∀ (l : List RChunk) (J : List Nat), l.map (·.tsn) = J.map (tsnN t0) → k ∉ J →
    (∀ x ∈ J, (x : Int) - k < 2147483648 ∧ (k : Int) - x < 2147483648) → (∃ x ∈ J, k < x) →
    ∃ l', insertLoop c l = some l' ∧ l'.map (·.tsn) = (insNat k J).map (tsnN t0) ∧ l'.Perm (c :: l) := by
  intro l
  induction l with
  | nil =>
    intro J hmap _ _ hex
    cases J with
    | nil => obtain ⟨x, hx, _⟩ := hex; simp at hx
    | cons a b => simp at hmap
  | cons r rs ih =>
    intro J hmap hk hw hex
    cases J with
    | nil => simp at hmap
    | cons x xs =>
      simp only [List.map_cons, List.cons.injEq] at hmap
      have hwx := hw x (by simp)
      have hxk : x ≠ k := fun e => hk (by simp [e])
      have hne : r.tsn ≠ c.tsn := by
        rw [hmap.1, hc]; unfold tsnN
        intro e
        have := tsnOf_inj t0 (x : Int) (k : Int) (by omega) e
        omega
      have hgt : uint32_gt r.tsn c.tsn = decide (k < x) := by
        rw [hmap.1, hc]; unfold tsnN
        rw [uint32_gt_tsnOf t0 _ _ (by omega)]
        by_cases h : k < x
        · simp [h]
        · simp [h]
      unfold insertLoop
      rw [if_neg hne, hgt]
      unfold insNat
      by_cases hlt : k < x
      · simp only [hlt, decide_true, if_true]
        refine ⟨_, rfl, ?_, List.Perm.refl _⟩
        simp [hc, hmap.1, hmap.2]
      · simp only [hlt, decide_false, Bool.false_eq_true, if_false]
        obtain ⟨l', h1, h2, h3⟩ := ih xs hmap.2 (fun h => hk (by simp [h]))
          (fun y hy => hw y (by simp [hy])) (by
            obtain ⟨y, hy, hky⟩ := hex
            rcases List.mem_cons.1 hy with e | e
            · subst e; exact absurd hky hlt
            · exact ⟨y, e, hky⟩)
        refine ⟨r :: l', by rw [h1]; rfl, by simp [hmap.1, h2], ?_⟩
        exact (List.Perm.cons r h3).trans (List.Perm.swap c r rs)

/-- `add_chunk` keeps the reassembly queue sorted by sender index (i.e. in serial TSN order) and
duplicate-free, and really inserts the chunk, when all TSNs involved lie in a window of fewer than
2^31. `J` are the sender indices of the queued chunks. -/
theorem addChunk_sorted (t0 : Int) (s : InStream) (c : RChunk) (J : List Nat) (k : Nat)
    (hJ : J.Pairwise (· < ·)) (hmap : s.reasm.map (·.tsn) = J.map (tsnN t0)) (hk : k ∉ J)
    (hc : c.tsn = tsnN t0 k)
    (hw : ∀ x ∈ J, (x : Int) - k < 2147483648 ∧ (k : Int) - x < 2147483648) :
    ∃ s1, s.addChunk c = .ok s1 ∧ s1.seq = s.seq ∧ s1.reasm.map (·.tsn) = (insNat k J).map (tsnN t0)
      ∧ (insNat k J).Pairwise (· < ·) ∧ s1.reasm.Perm (c :: s.reasm) := by
  have hsorted := insNat_sorted k J hJ hk
  unfold InStream.addChunk
  split
  · rename_i hlast
    have hnil : s.reasm = [] := by simpa using hlast
    rw [hnil] at hmap
    have hJn : J = [] := by
      cases J with
      | nil => rfl
      | cons a b => simp at hmap
    subst hJn
    refine ⟨_, rfl, rfl, by simp [insNat, hc], hsorted, by rw [hnil]⟩
  · rename_i lst hlast
    -- the last queued chunk has the largest index
    have hmaplast : (J.map (tsnN t0)).getLast? = some lst.tsn := by
      rw [← hmap, List.getLast?_map, hlast]; rfl
    rw [List.getLast?_map] at hmaplast
    cases hJl : J.getLast? with
    | none => rw [hJl] at hmaplast; simp at hmaplast
    | some jl =>
      rw [hJl] at hmaplast
      simp only [Option.map_some, Option.some.injEq] at hmaplast
      have hjlmem : jl ∈ J := List.mem_of_getLast? hJl
      have hwl := hw jl hjlmem
      have hgt : uint32_gt c.tsn lst.tsn = decide (jl < k) := by
        rw [← hmaplast, hc]; unfold tsnN
        rw [uint32_gt_tsnOf t0 _ _ (by omega)]
        by_cases h : jl < k
        · simp [h]
        · simp [h]
      -- every index is ≤ the last one
      have hmax : ∀ x ∈ J, x ≤ jl := by
        intro x hx
        obtain ⟨pre, hpre⟩ : ∃ pre, J = pre ++ [jl] := List.getLast?_eq_some_iff.1 hJl
        rw [hpre] at hx hJ
        rcases List.mem_append.1 hx with e | e
        · have := (List.pairwise_append.1 hJ).2.2 x e jl (by simp); omega
        · simp only [List.mem_singleton] at e; omega
      rw [hgt]
      by_cases hlt : jl < k
      · simp only [hlt, decide_true, if_true]
        have happ : insNat k J = J ++ [k] := insNat_append_of_lt k J (fun x hx => by
          have := hmax x hx; omega)
        refine ⟨_, rfl, rfl, ?_, hsorted, ?_⟩
        · simp only [List.map_append, hmap, happ, List.map_cons, List.map_nil, hc]
        · exact List.perm_append_singleton c s.reasm
      · simp only [hlt, decide_false, Bool.false_eq_true, if_false]
        have hjk : jl ≠ k := fun e => hk (e ▸ hjlmem)
        obtain ⟨l', h1, h2, h3⟩ := insertLoop_sorted t0 c k hc s.reasm J hmap hk hw
          ⟨jl, hjlmem, by omega⟩
        rw [h1]
        exact ⟨_, rfl, rfl, h2, hsorted, h3⟩

end Aiortc.Sctp
