import Aiortc.Lemmas.C01.SctpInv
/-!
# End-to-end invariant of the pure receiver over an arbitrary arrival list

`Inv t0 ms arr r out`: after the fragments `arr` (any list of valid (message, fragment) pairs: loss,
duplication, reordering, delay) were fed to `Recv.step`, the receiver is in state `r` and has delivered
`out`.  `run_inv` establishes it for every arrival list, under
* `startOf ms ms.length < 2^31`  — fewer than 2^31 DATA chunks are sent during the association, and
* `SsnWin`                        — an ordered message arrives only while fewer than 2^15 messages lie
  between it and the next message its stream expects.
-/
namespace Aiortc.Sctp
open Aiortc.Gen

structure Inv (t0 : Int) (ms : List SMsg) (arr : List (Nat × Nat)) (r : Recv) (out : List Msg) : Prop where
  rx : RxInv t0 (arr.map (flat ms)) r.rx
  ex : ∃ dl, GInv ms arr dl out ∧ (∀ s, SInv t0 ms arr s (getS r.streams s).reasm dl out)
    ∧ (∀ s, OrdOnly ms s → OInv ms s (getS r.streams s).seq dl out)

theorem Inv.init (t0 : Int) (ms : List SMsg) : Inv t0 ms [] (Recv.init t0) [] := by
  refine ⟨RxInv.init t0 [], [], ⟨rfl, by simp, by simp, by simp⟩, ?_, ?_⟩
  · intro s; exact ⟨by simp [getS, Recv.init, dictGet], by simp [getS, Recv.init, dictGet]⟩
  · intro s _
    refine ⟨0, ?_, Nat.zero_le _, by simp, ?_⟩
    · simp [getS, Recv.init, dictGet, ssnOf]
    · intro j _ _; simp

theorem step_inv (t0 : Int) (ms : List SMsg) (hN : startOf ms ms.length < 2147483648)
    (arr : List (Nat × Nat)) (r : Recv) (out : List Msg) (p : Nat × Nat)
    (harr : ∀ q ∈ arr, ValidFrag ms q) (hp : ValidFrag ms p) (hinv : Inv t0 ms arr r out)
    (hssn : (msgAt ms p.1).ordered = true →
      ordBefore ms p.1 (msgAt ms p.1).sid < cnt out (msgAt ms p.1).sid + 32768) :
    ∃ r' o', r.step (F t0 ms p) = .ok (r', o') ∧ Inv t0 ms (arr ++ [p]) r' (out ++ o') := by
  obtain ⟨hrx, dl, hg, hS, hO⟩ := hinv
  have hN32 : startOf ms ms.length < 4294967296 := by omega
  have hkN := flat_lt_total ms p hp
  have hksN : ∀ x ∈ arr.map (flat ms), x < startOf ms ms.length := by
    intro x hx
    obtain ⟨q, hq, rfl⟩ := List.mem_map.1 hx
    exact flat_lt_total ms q (harr q hq)
  have hwin : ∀ n, IsCum (arr.map (flat ms)) n → InWindow n (flat ms p) := by
    intro n hcum
    have hn : n ≤ startOf ms ms.length := by
      rcases Nat.lt_or_ge (startOf ms ms.length) n with h | h
      · have := hksN _ (hcum.1 _ h); omega
      · exact h
    unfold InWindow; omega
  have hmr := markReceived_spec t0 (arr.map (flat ms)) r.rx (flat ms p) hrx hwin
  have htsn : (F t0 ms p).tsn = tsnN t0 (flat ms p) := fragOf_tsnN t0 ms p
  have hmem_iff : flat ms p ∈ arr.map (flat ms) ↔ p ∈ arr := by
    constructor
    · intro h
      obtain ⟨q, hq, e⟩ := List.mem_map.1 h
      rw [← flat_inj ms q p (harr q hq) hp e]; exact hq
    · exact List.mem_map_of_mem
  have hsub : ∀ q ∈ arr, q ∈ arr ++ [p] := fun q hq => List.mem_append_left _ hq
  unfold Recv.step
  rw [htsn]
  generalize markReceived r.rx (tsnN t0 (flat ms p)) = mr at hmr
  obtain ⟨dup, rx'⟩ := mr
  obtain ⟨hdup, hrx'⟩ := hmr
  simp only at hdup hrx' ⊢
  rw [← List.map_singleton (f := flat ms), ← List.map_append] at hrx'
  by_cases hk : flat ms p ∈ arr.map (flat ms)
  · -- duplicate TSN: nothing happens
    simp only [hdup, hk, decide_true, if_true]
    refine ⟨_, _, rfl, ?_⟩
    rw [List.append_nil]
    exact ⟨hrx', dl, hg.mono hsub, fun s => (hS s).mono hsub, hO⟩
  · have hpa : p ∉ arr := fun h => hk (hmem_iff.2 h)
    have hSs : SInv t0 ms arr (F t0 ms p).sid ((dictGet r.streams (F t0 ms p).sid).getD {}).reasm dl out :=
      hS _
    have hfresh : ∀ x ∈ ((dictGet r.streams (F t0 ms p).sid).getD {}).reasm, x.tsn ≠ (F t0 ms p).tsn := by
      intro x hx e
      obtain ⟨q, hqA, hqv, hqe, _⟩ := hSs.mem x hx
      rw [hqe] at e
      exact hpa (frag_tsn_inj t0 ms hN32 q p hqv hp e ▸ hqA)
    -- the "still waiting in the reassembly queue" guard of the handler never fires here
    have hguard : (((dictGet r.streams (F t0 ms p).sid).getD {}).reasm.any
        fun x => x.tsn == tsnN t0 (flat ms p)) = false := by
      rw [List.any_eq_false]
      intro x hx
      have := hfresh x hx
      rw [htsn] at this
      simpa using this
    simp only [hdup, hk, decide_false, Bool.false_eq_true, if_false, hguard]
    obtain ⟨s1, hadd, hseq1, hmem1, hnd1⟩ := addChunk_spec _ (F t0 ms p) hfresh
    obtain ⟨msgs, s2, hpop, hsteps⟩ := popMessages_ok s1
    rw [hadd]; simp only []
    rw [hpop]; simp only []
    refine ⟨_, _, rfl, ?_⟩
    -- the stream after add_chunk
    have hS1 : SInv t0 ms (arr ++ [p]) (F t0 ms p).sid s1.reasm dl out := by
      refine ⟨hnd1 hSs.nodup (fun hc => hfresh _ hc rfl), ?_⟩
      intro x hx
      rcases hmem1 x hx with e | h
      · refine ⟨p, List.mem_append_right _ (by simp), hp, e, rfl, ?_, hssn⟩
        intro hdl
        exact hpa (hg.arrived p.1 hdl p.2 hp.2)
      · obtain ⟨q, hqA, rest⟩ := hSs.mem x h
        exact ⟨q, hsub q hqA, rest⟩
    obtain ⟨js, hjs, hmsgs, hg2, hs2, ho2⟩ := pops_inv t0 ms hN32 hsteps dl out (hg.mono hsub) hS1
    refine ⟨hrx', dl ++ js, hg2, ?_, ?_⟩
    · intro s
      by_cases hs : s = (F t0 ms p).sid
      · subst hs; simp only []; rw [getS_set_same]; exact hs2
      · simp only []; rw [getS_set_other _ _ _ _ hs, hmsgs]
        exact ((hS s).mono hsub).frame js (fun j hj e => hs ((hjs j hj).symm.trans e).symm)
    · intro s ho
      by_cases hs : s = (F t0 ms p).sid
      · subst hs; simp only []; rw [getS_set_same]
        apply ho2 ho
        rw [hseq1]; exact hO _ ho
      · simp only []; rw [getS_set_other _ _ _ _ hs, hmsgs]
        exact (hO s ho).frame js (fun j hj e => hs ((hjs j hj).symm.trans e).symm)

/-! ## the whole run -/

theorem Recv.run_snoc : ∀ (l : List RChunk) (r r1 r2 : Recv) (o1 o2 : List Msg) (c : RChunk),
    Recv.run r l = .ok (r1, o1) → r1.step c = .ok (r2, o2) → Recv.run r (l ++ [c]) = .ok (r2, o1 ++ o2) := by
  intro l
  induction l with
  | nil =>
    intro r r1 r2 o1 o2 c h1 h2
    simp only [Recv.run, Outcome.ok.injEq, Prod.mk.injEq] at h1
    obtain ⟨rfl, rfl⟩ := h1
    simp [Recv.run, h2]
  | cons a t ih =>
    intro r r1 r2 o1 o2 c h1 h2
    simp only [List.cons_append, Recv.run] at h1 ⊢
    cases hs : r.step a with
    | ok v =>
      obtain ⟨ra, oa⟩ := v
      rw [hs] at h1; simp only at h1 ⊢
      cases ht : Recv.run ra t with
      | ok w =>
        obtain ⟨rb, ob⟩ := w
        rw [ht] at h1; simp only [Outcome.ok.injEq, Prod.mk.injEq] at h1
        obtain ⟨rfl, rfl⟩ := h1
        rw [ih ra rb r2 ob o2 c ht h2]
        simp
      | valueError => rw [ht] at h1; cases h1
      | crash k => rw [ht] at h1; cases h1
      | hang => rw [ht] at h1; cases h1
    | valueError => rw [hs] at h1; cases h1
    | crash k => rw [hs] at h1; cases h1
    | hang => rw [hs] at h1; cases h1

theorem list_snoc_induction {α : Type} {P : List α → Prop} (h0 : P [])
    (hs : ∀ l a, P l → P (l ++ [a])) : ∀ l, P l := by
  intro l
  have : ∀ l' : List α, P l'.reverse := by
    intro l'
    induction l' with
    | nil => simpa using h0
    | cons a t ih => rw [List.reverse_cons]; exact hs _ _ ih
  simpa using this l.reverse

/-- SSN window hypothesis: whenever a fragment of an ordered message arrives, fewer than 2^15 messages lie
between the number of messages already delivered on its stream and the message's position in the stream. -/
def SsnWin (t0 : Int) (ms : List SMsg) (arr : List (Nat × Nat)) : Prop :=
  ∀ pre p, (pre ++ [p]) <+: arr → (msgAt ms p.1).ordered = true →
    ∀ r out, Recv.run (Recv.init t0) (pre.map (F t0 ms)) = .ok (r, out) →
      ordBefore ms p.1 (msgAt ms p.1).sid < cnt out (msgAt ms p.1).sid + 32768

theorem run_inv (t0 : Int) (ms : List SMsg) (hN : startOf ms ms.length < 2147483648) :
    ∀ arr : List (Nat × Nat), (∀ q ∈ arr, ValidFrag ms q) → SsnWin t0 ms arr →
    ∃ r out, Recv.run (Recv.init t0) (arr.map (F t0 ms)) = .ok (r, out) ∧ Inv t0 ms arr r out := by
  intro arr
  induction arr using list_snoc_induction with
  | h0 => intro _ _; exact ⟨_, _, rfl, Inv.init t0 ms⟩
  | hs l a ih =>
    intro hv hw
    have hv' : ∀ q ∈ l, ValidFrag ms q := fun q hq => hv q (List.mem_append_left _ hq)
    have hw' : SsnWin t0 ms l := by
      intro pre p hpre
      exact hw pre p (List.IsPrefix.trans hpre (List.prefix_append l [a]))
    obtain ⟨r, out, hrun, hinv⟩ := ih hv' hw'
    obtain ⟨r', o', hstep, hinv'⟩ := step_inv t0 ms hN l r out a hv' (hv a (by simp)) hinv
      (fun ho => hw l a (List.prefix_refl _) ho r out hrun)
    refine ⟨r', out ++ o', ?_, hinv'⟩
    rw [List.map_append, List.map_singleton]
    exact Recv.run_snoc _ _ _ _ _ _ _ hrun hstep

end Aiortc.Sctp
