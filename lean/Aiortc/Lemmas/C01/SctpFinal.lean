import Aiortc.Lemmas.C01.SctpE2E
/-!
# Glue lemmas for `Props/C01.lean`

* every list of chunks taken from the sender's output is `ps.map (F t0 ms)` for valid pairs `ps`;
* the SSN window hypothesis holds whenever no stream carries more than 2^15 ordered messages;
* `markAll`: `_mark_received` over a whole arrival list.
-/
namespace Aiortc.Sctp
open Aiortc.Gen

theorem allFrags_length (t0 : Int) (ms : List SMsg) : (allFrags t0 ms).length = startOf ms ms.length := by
  induction ms using list_snoc_induction with
  | h0 => simp [allFrags, startOf]
  | hs l a ih =>
    rw [allFrags_append, List.length_append, ih, List.length_map, List.length_range]
    have h1 := startOf_succ (l ++ [a]) l.length (by simp)
    rw [msgAt_append_right, startOf_append _ _ _ (Nat.le_refl _)] at h1
    rw [show (l ++ [a]).length = l.length + 1 by simp, h1]

/-- Any list of chunks each of which was produced by the sender is the image of a list of valid
(message, fragment) pairs. -/
theorem arrivals_are_frags (t0 : Int) (ms : List SMsg) : ∀ cs : List RChunk, (∀ c ∈ cs, c ∈ allFrags t0 ms) →
    ∃ ps : List (Nat × Nat), (∀ q ∈ ps, ValidFrag ms q) ∧ cs = ps.map (F t0 ms) := by
  intro cs
  induction cs with
  | nil => intro _; exact ⟨[], by simp, rfl⟩
  | cons c t ih =>
    intro h
    obtain ⟨ps, hv, e⟩ := ih (fun x hx => h x (by simp [hx]))
    obtain ⟨p, hp, hc⟩ := (mem_allFrags t0 ms c).1 (h c (by simp))
    refine ⟨p :: ps, ?_, by rw [List.map_cons, ← e, hc]; rfl⟩
    intro q hq
    rcases List.mem_cons.1 hq with e' | e'
    · rw [e']; exact hp
    · exact hv q e'

theorem ordBefore_le_total (ms : List SMsg) (j s : Nat) : ordBefore ms j s ≤ ordBefore ms ms.length s := by
  unfold ordBefore
  rw [List.take_of_length_le (Nat.le_refl _)]
  exact List.Sublist.length_le ((List.take_sublist j ms).filter _)

/-- If no stream carries more than 2^15 ordered messages during the association, the SSN window
hypothesis holds for every arrival list. -/
theorem SsnWin_of_few (t0 : Int) (ms : List SMsg) (h : ∀ s, ordBefore ms ms.length s ≤ 32768)
    (arr : List (Nat × Nat)) (hv : ∀ q ∈ arr, ValidFrag ms q) : SsnWin t0 ms arr := by
  intro pre p hpre ho r out _
  have hp : ValidFrag ms p := hv p (by
    obtain ⟨t, ht⟩ := hpre
    rw [← ht]; simp)
  have h1 := ordBefore_strict ms (msgAt ms p.1).sid p.1 ms.length hp.1 (Nat.le_refl _) ho rfl
  have h2 := h (msgAt ms p.1).sid
  omega

/-- Deliveries only grow: the run over `a ++ b` is the run over `a` followed by the run over `b`. -/
theorem Recv.run_append_inv : ∀ (a b : List RChunk) (r r2 : Recv) (out : List Msg),
    Recv.run r (a ++ b) = .ok (r2, out) →
    ∃ r1 o1 o2, Recv.run r a = .ok (r1, o1) ∧ Recv.run r1 b = .ok (r2, o2) ∧ out = o1 ++ o2 := by
  intro a
  induction a with
  | nil => intro b r r2 out h; exact ⟨r, [], out, rfl, h, rfl⟩
  | cons c t ih =>
    intro b r r2 out h
    simp only [List.cons_append, Recv.run] at h ⊢
    cases hs : r.step c with
    | ok v =>
      obtain ⟨ra, oa⟩ := v
      rw [hs] at h; simp only at h ⊢
      cases ht : Recv.run ra (t ++ b) with
      | ok w =>
        obtain ⟨rb, ob⟩ := w
        rw [ht] at h; simp only [Outcome.ok.injEq, Prod.mk.injEq] at h
        obtain ⟨rfl, rfl⟩ := h
        obtain ⟨r1, o1, o2, h1, h2, h3⟩ := ih b ra rb ob ht
        rw [h1]
        exact ⟨r1, oa ++ o1, o2, rfl, h2, by rw [h3, List.append_assoc]⟩
      | valueError => rw [ht] at h; cases h
      | crash k => rw [ht] at h; cases h
      | hang => rw [ht] at h; cases h
    | valueError => rw [hs] at h; cases h
    | crash k => rw [hs] at h; cases h
    | hang => rw [hs] at h; cases h

theorem SsnWin.prefix {t0 : Int} {ms : List SMsg} {arr pre : List (Nat × Nat)} (h : SsnWin t0 ms arr)
    (hp : pre <+: arr) : SsnWin t0 ms pre := by
  intro q p hq
  exact h q p (List.IsPrefix.trans hq hp)

/-- The sliding TSN window hypothesis of DESIGN.md (not what the end-to-end theorems are proved under, see
`Props/C01.lean`): each arriving chunk is within 2^31 of the first missing TSN and of every chunk the receiver
still holds in the reassembly queue of its stream. -/
def TsnWin (t0 : Int) (ms : List SMsg) (arr : List (Nat × Nat)) : Prop :=
  ∀ pre p, (pre ++ [p]) <+: arr →
    (∀ n, IsCum (pre.map (flat ms)) n → InWindow n (flat ms p)) ∧
    ∀ r out, Recv.run (Recv.init t0) (pre.map (F t0 ms)) = .ok (r, out) →
      ∀ q ∈ pre, F t0 ms q ∈ (getS r.streams (F t0 ms q).sid).reasm →
        (flat ms q : Int) - flat ms p < 2147483648 ∧ (flat ms p : Int) - flat ms q < 2147483648

/-- Fewer than 2^31 chunks in the whole association imply the sliding window hypothesis. -/
theorem TsnWin_of_few (t0 : Int) (ms : List SMsg) (hN : startOf ms ms.length < 2147483648)
    (arr : List (Nat × Nat)) (hv : ∀ q ∈ arr, ValidFrag ms q) : TsnWin t0 ms arr := by
  intro pre p hpre
  obtain ⟨suf, hsuf⟩ := hpre
  have hvp : ∀ q ∈ pre ++ [p], ValidFrag ms q := fun q hq => hv q (by rw [← hsuf]; exact List.mem_append_left _ hq)
  have hp := flat_lt_total ms p (hvp p (by simp))
  refine ⟨?_, ?_⟩
  · intro n hcum
    have hn : n ≤ startOf ms ms.length := by
      rcases Nat.lt_or_ge (startOf ms ms.length) n with h | h
      · obtain ⟨q, hq, e⟩ := List.mem_map.1 (hcum.1 _ h)
        have := flat_lt_total ms q (hvp q (List.mem_append_left _ hq)); omega
      · exact h
    unfold InWindow; omega
  · intro r out _ q hq _
    have := flat_lt_total ms q (hvp q (List.mem_append_left _ hq))
    omega

/-! ## `_mark_received` over an arrival list -/

/-- Feed a list of TSNs to `_mark_received`; the returned flags are its results (`true` = duplicate). -/
def markAll : Rx → List Int → List Bool × Rx
  | r, [] => ([], r)
  | r, t :: ts =>
    let (d, r1) := markReceived r t
    let (ds, r2) := markAll r1 ts
    (d :: ds, r2)

/-- `true` at position `i` iff `ks[i]` occurs in `seen` or earlier in `ks`. -/
def seenFlags : List Nat → List Nat → List Bool
  | _, [] => []
  | seen, k :: ks => decide (k ∈ seen) :: seenFlags (seen ++ [k]) ks

/-- Sliding-window hypothesis over an arrival list: each arriving index is within 2^31 of the first index
that has not arrived yet. -/
def Windowed (seen ks : List Nat) : Prop :=
  ∀ pre k, (pre ++ [k]) <+: ks → ∀ n, IsCum (seen ++ pre) n → InWindow n k

theorem markAll_spec (t0 : Int) : ∀ (ks seen : List Nat) (r : Rx), RxInv t0 seen r → Windowed seen ks →
    (markAll r (ks.map (tsnN t0))).1 = seenFlags seen ks
      ∧ RxInv t0 (seen ++ ks) (markAll r (ks.map (tsnN t0))).2 := by
  intro ks
  induction ks with
  | nil => intro seen r h _; simpa [markAll, seenFlags] using h
  | cons k t ih =>
    intro seen r hinv hw
    have h1 := markReceived_spec t0 seen r k hinv (fun n hn => hw [] k (by simp) n (by simpa using hn))
    have hw' : Windowed (seen ++ [k]) t := by
      intro pre k' hpre n hn
      refine hw (k :: pre) k' ?_ n (by simpa [List.append_assoc] using hn)
      simpa using hpre
    have h2 := ih (seen ++ [k]) (markReceived r (tsnN t0 k)).2 h1.2 hw'
    simp only [List.map_cons, markAll, seenFlags]
    refine ⟨?_, ?_⟩
    · rw [h1.1, h2.1]
    · have := h2.2; rw [List.append_assoc] at this; simpa using this

/-- Without wrap-around (every index below 2^31 - 1) the sliding-window hypothesis holds. -/
theorem Windowed_of_small (seen ks : List Nat) (h : ∀ k ∈ seen ++ ks, k < 2147483647) : Windowed seen ks := by
  intro pre k hpre n hn
  obtain ⟨t, ht⟩ := hpre
  have hk : k < 2147483647 := h k (by rw [← ht]; simp)
  have hn' : n ≤ 2147483647 := by
    rcases Nat.lt_or_ge 2147483647 n with h' | h'
    · have hm := hn.1 2147483647 h'
      have : (2147483647 : Nat) ∈ seen ++ ks := by
        rcases List.mem_append.1 hm with a | a
        · exact List.mem_append_left _ a
        · exact List.mem_append_right _ (by rw [← ht]; simp [a])
      have := h _ this; omega
    · exact h'
  unfold InWindow; omega

/-! ## sub-multiset from a duplicate-free index list -/

theorem count_map_filter_ne {β : Type} [DecidableEq β] (f : Nat → β) (m : β) (n : Nat) :
    ∀ dl : List Nat, dl.Nodup →
    (dl.map f).count m ≤ ((dl.filter (fun x => x != n)).map f).count m + (if f n = m then 1 else 0) := by
  intro dl
  induction dl with
  | nil => intro _; simp
  | cons a t ih =>
    intro hnd
    rw [List.nodup_cons] at hnd
    have := ih hnd.2
    by_cases han : a = n
    · subst han
      have hfil : t.filter (fun x => x != a) = t := by
        rw [List.filter_eq_self]; intro x hx; simpa using fun (e : x = a) => hnd.1 (e ▸ hx)
      simp only [List.map_cons, List.count_cons, List.filter_cons, bne_self_eq_false, Bool.false_eq_true,
        if_false, hfil, beq_iff_eq]
      omega
    · have : (a != n) = true := by simpa using han
      simp only [List.map_cons, List.count_cons, List.filter_cons, this, if_true, beq_iff_eq]
      omega

theorem count_map_le_range {β : Type} [DecidableEq β] (f : Nat → β) (m : β) : ∀ (n : Nat) (dl : List Nat),
    dl.Nodup → (∀ j ∈ dl, j < n) → (dl.map f).count m ≤ ((List.range n).map f).count m := by
  intro n
  induction n with
  | zero =>
    intro dl _ h
    cases dl with
    | nil => simp
    | cons a t => have := h a (by simp); omega
  | succ n ih =>
    intro dl hnd h
    have h1 := count_map_filter_ne f m n dl hnd
    have h2 := ih (dl.filter (fun x => x != n)) (hnd.filter _) (by
      intro j hj
      have hj' := List.mem_filter.1 hj
      have := h j hj'.1
      have : j ≠ n := by simpa using hj'.2
      omega)
    rw [List.range_succ, List.map_append, List.count_append]
    simp only [List.map_cons, List.map_nil, List.count_cons, List.count_nil, beq_iff_eq]
    omega

theorem map_msgAt_range (ms : List SMsg) : (List.range ms.length).map (msgAt ms) = ms := by
  apply List.ext_getElem
  · simp
  · intro i h1 h2
    simp [msgAt, List.getElem?_eq_getElem (by simpa using h1 : i < ms.length)]

/-- The indices accepted (not reported duplicate) along an arrival list. -/
def acceptedOf : List Nat → List Nat → List Nat
  | _, [] => []
  | seen, k :: ks => if k ∈ seen then acceptedOf (seen ++ [k]) ks else k :: acceptedOf (seen ++ [k]) ks

theorem acceptedOf_spec : ∀ (ks seen : List Nat),
    (acceptedOf seen ks).Nodup ∧ ∀ k, k ∈ acceptedOf seen ks ↔ (k ∈ ks ∧ k ∉ seen) := by
  intro ks
  induction ks with
  | nil => intro seen; simp [acceptedOf]
  | cons a t ih =>
    intro seen
    obtain ⟨h1, h2⟩ := ih (seen ++ [a])
    unfold acceptedOf
    split
    · rename_i ha
      refine ⟨h1, fun k => ?_⟩
      rw [h2 k]
      simp only [List.mem_append, List.mem_cons, not_or]
      constructor
      · rintro ⟨a1, a2, _⟩; exact ⟨Or.inr a1, a2⟩
      · rintro ⟨a1 | a1, a2⟩
        · exact absurd (a1 ▸ ha) a2
        · exact ⟨a1, a2, fun (e : k = a) => a2 (e ▸ ha), by simp⟩
    · rename_i ha
      refine ⟨List.nodup_cons.2 ⟨fun hm => ((h2 a).1 hm).2 (by simp), h1⟩, fun k => ?_⟩
      rw [List.mem_cons, h2 k]
      simp only [List.mem_append, List.mem_cons, not_or]
      constructor
      · rintro (e | ⟨a1, a2, _⟩)
        · exact ⟨Or.inl e, e ▸ ha⟩
        · exact ⟨Or.inr a1, a2⟩
      · rintro ⟨a1 | a1, a2⟩
        · exact Or.inl a1
        · by_cases e : k = a
          · exact Or.inl e
          · exact Or.inr ⟨a1, a2, e, by simp⟩

end Aiortc.Sctp
