import Aiortc.Lemmas.C01.SctpAdd
import Aiortc.Lemmas.C01.SctpRun
/-!
# Invariants of the receive path along one `pop_messages` call

`GInv`  : the messages delivered so far are `dl.map (message)` for a duplicate-free list `dl` of
          message indices, and all fragments of a delivered message have arrived;
`SInv`  : every chunk queued on stream `s` is a sender fragment that arrived, of a message on `s` that
          has not been delivered; the queue is duplicate-free;
`OInv`  : on an ordered stream the expected SSN is the number `d` of messages delivered on it and
          these are the first `d` messages sent on it.
-/
namespace Aiortc.Sctp
open Aiortc.Gen

def getS (d : List (Nat × InStream)) (s : Nat) : InStream := (dictGet d s).getD {}

theorem getS_set_same (d : List (Nat × InStream)) (k : Nat) (v : InStream) : getS (dictSet d k v) k = v := by
  unfold getS; rw [dictGet_dictSet_same]; rfl

theorem getS_set_other (d : List (Nat × InStream)) (k s : Nat) (v : InStream) (h : s ≠ k) :
    getS (dictSet d k v) s = getS d s := by
  unfold getS; rw [dictGet_dictSet_other _ _ _ _ h]

/-- Fragment `p = (message, fragment)` as a received chunk. -/
def F (t0 : Int) (ms : List SMsg) (p : Nat × Nat) : RChunk := fragOf t0 ms p.1 p.2
/-- Message `j` as the receiver should deliver it. -/
def toM (ms : List SMsg) (j : Nat) : Msg := (msgAt ms j).toMsg
/-- Number of messages delivered on stream `s`. -/
def cnt (out : List Msg) (s : Nat) : Nat := (out.filter (fun m => m.sid == s)).length

theorem cnt_append (a b : List Msg) (s : Nat) : cnt (a ++ b) s = cnt a s + cnt b s := by
  unfold cnt; rw [List.filter_append, List.length_append]

theorem toM_sid (ms : List SMsg) (j : Nat) : (toM ms j).sid = (msgAt ms j).sid := rfl

structure GInv (ms : List SMsg) (A : List (Nat × Nat)) (dl : List Nat) (out : List Msg) : Prop where
  out_eq : out = dl.map (toM ms)
  nodup : dl.Nodup
  lt : ∀ j ∈ dl, j < ms.length
  arrived : ∀ j ∈ dl, ∀ i, i < nfr (msgAt ms j) → (j, i) ∈ A

structure SInv (t0 : Int) (ms : List SMsg) (A : List (Nat × Nat)) (s : Nat) (reasm : List RChunk)
    (dl : List Nat) (out : List Msg) : Prop where
  nodup : reasm.Nodup
  mem : ∀ c ∈ reasm, ∃ p ∈ A, ValidFrag ms p ∧ c = F t0 ms p ∧ (msgAt ms p.1).sid = s ∧ p.1 ∉ dl ∧
    ((msgAt ms p.1).ordered = true → ordBefore ms p.1 s < cnt out s + 32768)

structure OInv (ms : List SMsg) (s : Nat) (seq : Int) (dl : List Nat) (out : List Msg) : Prop where
  ex : ∃ d, seq = ssnOf d ∧ d ≤ (sentOn ms s).length
    ∧ out.filter (fun m => m.sid == s) = (sentOn ms s).take d
    ∧ ∀ j, j < ms.length → (msgAt ms j).sid = s → (j ∈ dl ↔ ordBefore ms j s < d)

theorem SInv.mono {t0 ms A A' s reasm dl out} (h : SInv t0 ms A s reasm dl out) (hA : ∀ p ∈ A, p ∈ A') :
    SInv t0 ms A' s reasm dl out :=
  ⟨h.nodup, fun c hc => by
    obtain ⟨p, hp, rest⟩ := h.mem c hc
    exact ⟨p, hA p hp, rest⟩⟩

theorem GInv.mono {ms A A' dl out} (h : GInv ms A dl out) (hA : ∀ p ∈ A, p ∈ A') : GInv ms A' dl out :=
  ⟨h.out_eq, h.nodup, h.lt, fun j hj i hi => hA _ (h.arrived j hj i hi)⟩

/-- One `yield`: the message is a sent message of this stream that was not delivered before, and the
invariants are re-established. -/
theorem popstep_inv (t0 : Int) (ms : List SMsg) (hN : startOf ms ms.length < 4294967296)
    {A : List (Nat × Nat)} {s : Nat} {reasm reasm' : List RChunk} {seq seq' : Int} {m : Msg}
    {dl : List Nat} {out : List Msg}
    (hstep : PopStep reasm seq m reasm' seq') (hs : SInv t0 ms A s reasm dl out) :
    ∃ j, j < ms.length ∧ (msgAt ms j).sid = s ∧ m = toM ms j ∧ j ∉ dl
      ∧ (∀ i, i < nfr (msgAt ms j) → (j, i) ∈ A)
      ∧ SInv t0 ms A s reasm' (dl ++ [j]) (out ++ [m])
      ∧ (OrdOnly ms s → OInv ms s seq dl out → OInv ms s seq' (dl ++ [j]) (out ++ [m])) := by
  obtain ⟨pre, run, post, hd, lst, hre, hre', hhead, hlast, hB, hlink, hE, hss, hm, hseq⟩ := hstep
  have hrun_mem : ∀ c ∈ run, c ∈ reasm := by intro c hc; rw [hre]; simp [hc]
  have hhd_run : hd ∈ run := by
    cases run with
    | nil => simp at hhead
    | cons a t => simp only [List.head?_cons, Option.some.injEq] at hhead; simp [hhead]
  have hlst_run : lst ∈ run := List.mem_of_getLast? hlast
  obtain ⟨p0, hp0A, hp0v, hp0e, hp0s, hp0dl, hp0w⟩ := hs.mem hd (hrun_mem hd hhd_run)
  have hall : ∀ c ∈ run, ∃ p, ValidFrag ms p ∧ c = fragOf t0 ms p.1 p.2 := by
    intro c hc
    obtain ⟨p, _, hv, he, _⟩ := hs.mem c (hrun_mem c hc)
    exact ⟨p, hv, he⟩
  obtain ⟨h0, hrun⟩ := run_is_message t0 ms hN run hd lst p0 hlink hall hhead hp0v hp0e hB hlast hE
  -- membership in the run = being a fragment of message p0.1
  have hrun_iff : ∀ c, c ∈ run ↔ ∃ i, i < nfr (msgAt ms p0.1) ∧ c = fragOf t0 ms p0.1 i := by
    intro c; rw [hrun]; simp only [List.mem_map, List.mem_range]
    constructor
    · rintro ⟨i, hi, e⟩; exact ⟨i, hi, e.symm⟩
    · rintro ⟨i, hi, e⟩; exact ⟨i, hi, e.symm⟩
  obtain ⟨il, hil, hlste⟩ := (hrun_iff lst).1 hlst_run
  have hmj : m = toM ms p0.1 := by
    rw [hm, hlste, fragOf_sid, fragOf_ppid, hrun, fragOf_join]; rfl
  have hnd := hs.nodup
  rw [hre, List.append_assoc, List.nodup_append] at hnd
  obtain ⟨hndpre, hndrp, hdisj1⟩ := hnd
  rw [List.nodup_append] at hndrp
  obtain ⟨_, hndpost, hdisj2⟩ := hndrp
  have hcnt : cnt out s ≤ cnt (out ++ [m]) s := by rw [cnt_append]; omega
  refine ⟨p0.1, hp0v.1, hp0s, hmj, hp0dl, ?_, ⟨?_, ?_⟩, ?_⟩
  · -- all fragments of the delivered message had arrived
    intro i hi
    have hc : fragOf t0 ms p0.1 i ∈ run := (hrun_iff _).2 ⟨i, hi, rfl⟩
    obtain ⟨p, hpA, hpv, hpe, _⟩ := hs.mem _ (hrun_mem _ hc)
    have : p = (p0.1, i) := frag_tsn_inj t0 ms hN p (p0.1, i) hpv ⟨hp0v.1, hi⟩ (by
      show (F t0 ms p).tsn = _; rw [← hpe])
    rw [← this]; exact hpA
  · rw [hre', List.nodup_append]
    refine ⟨hndpre, hndpost, ?_⟩
    intro a ha b hb
    exact hdisj1 a ha b (List.mem_append_right _ hb)
  · intro c hc
    rw [hre'] at hc
    have hc_re : c ∈ reasm := by
      rw [hre]; rcases List.mem_append.1 hc with h | h
      · simp [h]
      · simp [h]
    obtain ⟨p, hpA, hpv, hpe, hps, hpdl, hpw⟩ := hs.mem c hc_re
    refine ⟨p, hpA, hpv, hpe, hps, ?_, fun ho => Nat.lt_of_lt_of_le (hpw ho) (by omega)⟩
    intro hmem
    rcases List.mem_append.1 hmem with h | h
    · exact hpdl h
    · simp only [List.mem_singleton] at h
      -- then c would be in the run, but the queue is duplicate-free
      have hcr : c ∈ run := (hrun_iff c).2 ⟨p.2, by rw [← h]; exact hpv.2, by rw [hpe, ← h]; rfl⟩
      rcases List.mem_append.1 hc with h' | h'
      · exact hdisj1 c h' c (List.mem_append_left _ hcr) rfl
      · exact hdisj2 c hcr c h' rfl
  · intro ho hoi
    obtain ⟨d, hseqd, hdle, hfil, hiff⟩ := hoi
    have hord : (msgAt ms p0.1).ordered = true := ho _ (msgAt_mem ms p0.1 hp0v.1) hp0s
    have hssn : ∀ i, (fragOf t0 ms p0.1 i).ssn = ssnOf (ordBefore ms p0.1 s) := by
      intro i; rw [fragOf_ssn]; unfold ssnFor; rw [hord, hp0s]; rfl
    have hp0e' : hd = fragOf t0 ms p0.1 p0.2 := hp0e
    have hU : flagU hd.flags = false := by rw [hp0e', fragOf_flagU, hord]; rfl
    have hgt := hss hU
    rw [hp0e', hssn, hseqd] at hgt
    have hnlt : ¬ ordBefore ms p0.1 s < d := fun h => hp0dl ((hiff p0.1 hp0v.1 hp0s).2 h)
    have hcntd : cnt out s = d := by
      unfold cnt; rw [hfil, List.length_take]; omega
    have hw := hp0w hord
    rw [hcntd] at hw
    rw [uint16_gt_ssnOf _ _ (by omega)] at hgt
    have hle : ¬ d < ordBefore ms p0.1 s := by simpa using hgt
    have hpos : ordBefore ms p0.1 s = d := by omega
    have hget := sentOn_get ms s ho p0.1 hp0v.1 hp0s
    rw [hpos] at hget
    have hdlt : d < (sentOn ms s).length := by
      rcases Nat.lt_or_ge d (sentOn ms s).length with h | h
      · exact h
      · rw [List.getElem?_eq_none h] at hget; cases hget
    refine ⟨d + 1, ?_, hdlt, ?_, ?_⟩
    · rw [hseq, hU, hlste, hssn, hpos, hseqd]
      simp [uint16_add_ssnOf]
    · rw [List.filter_append, hfil, List.take_add_one, hget]
      have hmsid : (m.sid == s) = true := by rw [hmj, toM_sid, hp0s]; simp
      rw [List.filter_cons, if_pos hmsid, List.filter_nil, hmj]; rfl
    · intro j hj hjs
      simp only [List.mem_append, List.mem_singleton]
      constructor
      · rintro (h | h)
        · have := (hiff j hj hjs).1 h; omega
        · rw [h, hpos]; omega
      · intro h
        by_cases hlt : ordBefore ms j s < d
        · exact Or.inl ((hiff j hj hjs).2 hlt)
        · right
          have hjo : (msgAt ms j).ordered = true := ho _ (msgAt_mem ms j hj) hjs
          rcases Nat.lt_trichotomy j p0.1 with h1 | h1 | h1
          · have := ordBefore_strict ms s j p0.1 h1 (Nat.le_of_lt hp0v.1) hjo hjs; omega
          · exact h1
          · have := ordBefore_strict ms s p0.1 j h1 (Nat.le_of_lt hj) hord hp0s; omega

/-- Deliveries on another stream do not disturb a stream's invariants. -/
theorem SInv.frame {t0 ms A s' reasm dl out} (h : SInv t0 ms A s' reasm dl out) (js : List Nat)
    (hjs : ∀ j ∈ js, (msgAt ms j).sid ≠ s') : SInv t0 ms A s' reasm (dl ++ js) (out ++ js.map (toM ms)) := by
  refine ⟨h.nodup, fun c hc => ?_⟩
  obtain ⟨p, hpA, hpv, hpe, hps, hpdl, hpw⟩ := h.mem c hc
  refine ⟨p, hpA, hpv, hpe, hps, ?_, fun ho => Nat.lt_of_lt_of_le (hpw ho) (by rw [cnt_append]; omega)⟩
  intro hmem
  rcases List.mem_append.1 hmem with h1 | h1
  · exact hpdl h1
  · exact hjs p.1 h1 hps

theorem OInv.frame {ms s' seq dl out} (h : OInv ms s' seq dl out) (js : List Nat)
    (hjs : ∀ j ∈ js, (msgAt ms j).sid ≠ s') : OInv ms s' seq (dl ++ js) (out ++ js.map (toM ms)) := by
  obtain ⟨d, h1, h2, h3, h4⟩ := h
  refine ⟨d, h1, h2, ?_, ?_⟩
  · rw [List.filter_append, h3]
    have : (js.map (toM ms)).filter (fun m => m.sid == s') = [] := by
      rw [List.filter_eq_nil_iff]
      intro m hm
      obtain ⟨j, hj, rfl⟩ := List.mem_map.1 hm
      simpa [toM_sid] using hjs j hj
    rw [this, List.append_nil]
  · intro j hj hjs'
    rw [← h4 j hj hjs', List.mem_append]
    constructor
    · rintro (h | h)
      · exact h
      · exact absurd hjs' (hjs j h)
    · exact Or.inl

/-- A whole `pop_messages` call. -/
theorem pops_inv (t0 : Int) (ms : List SMsg) (hN : startOf ms ms.length < 4294967296)
    {A : List (Nat × Nat)} {s : Nat} {reasm reasm' : List RChunk} {seq seq' : Int} {msgs : List Msg}
    (hsteps : PopSteps reasm seq msgs reasm' seq') :
    ∀ (dl : List Nat) (out : List Msg), GInv ms A dl out → SInv t0 ms A s reasm dl out →
    ∃ js, (∀ j ∈ js, (msgAt ms j).sid = s) ∧ msgs = js.map (toM ms)
      ∧ GInv ms A (dl ++ js) (out ++ msgs) ∧ SInv t0 ms A s reasm' (dl ++ js) (out ++ msgs)
      ∧ (OrdOnly ms s → OInv ms s seq dl out → OInv ms s seq' (dl ++ js) (out ++ msgs)) := by
  induction hsteps with
  | nil r sq =>
    intro dl out hg hs
    exact ⟨[], by simp, rfl, by simpa using hg, by simpa using hs, by intro _ h; simpa using h⟩
  | @cons r sq m r1 s1 ms' r2 s2 hstep _ ih =>
    intro dl out hg hs
    obtain ⟨j, hjlt, hjs, hmj, hjdl, harr, hs1, ho1⟩ := popstep_inv t0 ms hN hstep hs
    have hg1 : GInv ms A (dl ++ [j]) (out ++ [m]) := by
      refine ⟨by rw [hg.out_eq, hmj]; simp, ?_, ?_, ?_⟩
      · rw [List.nodup_append]
        refine ⟨hg.nodup, by simp, ?_⟩
        intro a ha b hb
        simp only [List.mem_singleton] at hb
        subst hb; intro e; exact hjdl (e ▸ ha)
      · intro x hx
        rcases List.mem_append.1 hx with h | h
        · exact hg.lt x h
        · simp only [List.mem_singleton] at h; rw [h]; exact hjlt
      · intro x hx i hi
        rcases List.mem_append.1 hx with h | h
        · exact hg.arrived x h i hi
        · simp only [List.mem_singleton] at h; subst h; exact harr i hi
    obtain ⟨js, hjs', hmsgs, hg2, hs2, ho2⟩ := ih (dl ++ [j]) (out ++ [m]) hg1 hs1
    refine ⟨j :: js, ?_, ?_, ?_, ?_, ?_⟩
    · intro x hx
      rcases List.mem_cons.1 hx with h | h
      · rw [h]; exact hjs
      · exact hjs' x h
    · rw [hmsgs, hmj]; rfl
    · simpa [List.append_assoc] using hg2
    · simpa [List.append_assoc] using hs2
    · intro ho hoi
      have := ho2 ho (ho1 ho hoi)
      simpa [List.append_assoc] using this

end Aiortc.Sctp
