import Aiortc.Lemmas.C01.SctpTsn
/-!
# `_mark_received`: exact characterisation under the sliding-window hypothesis

`RxInv t0 ks r`: after the chunks with sender indices `ks` (any order, repetitions allowed) arrived,
`r.last` is the TSN just before the first missing index `n`, and `r.mis` holds exactly the TSNs of the
arrived indices above `n`.  `markReceived` reports "duplicate" iff the index arrived before.
-/
namespace Aiortc.Sctp
open Aiortc.Gen

/-! ## insertion sort on indices (ghost of `sortByKey`) -/

def insNat (k : Nat) : List Nat → List Nat
  | [] => [k]
  | x :: xs => if k < x then k :: x :: xs else x :: insNat k xs

def sortNat (l : List Nat) : List Nat := l.foldr insNat []

theorem mem_insNat (a k : Nat) (l : List Nat) : a ∈ insNat k l ↔ a = k ∨ a ∈ l := by
  induction l with
  | nil => simp [insNat]
  | cons x xs ih =>
    unfold insNat
    split
    · simp
    · simp only [List.mem_cons, ih]; grind

theorem insNat_sorted (k : Nat) (l : List Nat) (h : l.Pairwise (· < ·)) (hk : k ∉ l) :
    (insNat k l).Pairwise (· < ·) := by
  induction l with
  | nil => simp [insNat]
  | cons x xs ih =>
    rw [List.pairwise_cons] at h
    simp only [List.mem_cons, not_or] at hk
    unfold insNat
    split
    · rename_i hlt
      rw [List.pairwise_cons]
      refine ⟨?_, List.pairwise_cons.2 h⟩
      intro y hy
      rcases List.mem_cons.1 hy with rfl | hy
      · exact hlt
      · exact Nat.lt_trans hlt (h.1 y hy)
    · rename_i hge
      rw [List.pairwise_cons]
      refine ⟨?_, ih h.2 hk.2⟩
      intro y hy
      rcases (mem_insNat y k xs).1 hy with rfl | hy
      · omega
      · exact h.1 y hy

theorem mem_sortNat (a : Nat) (l : List Nat) : a ∈ sortNat l ↔ a ∈ l := by
  induction l with
  | nil => simp [sortNat]
  | cons x xs ih =>
    show a ∈ insNat x (sortNat xs) ↔ _
    rw [mem_insNat, ih]; simp

theorem sortNat_sorted (l : List Nat) (h : l.Nodup) : (sortNat l).Pairwise (· < ·) := by
  induction l with
  | nil => simp [sortNat]
  | cons x xs ih =>
    rw [List.nodup_cons] at h
    show (insNat x (sortNat xs)).Pairwise _
    exact insNat_sorted x _ (ih h.2) (fun hx => h.1 ((mem_sortNat x xs).1 hx))

/-! ## transport of `sortByKey` / `consolidate` to indices -/

/-- TSN of the `k`-th chunk. -/
def tsnN (t0 : Int) (k : Nat) : Int := tsnOf t0 (k : Int)

theorem insertByKey_map (t0 : Int) (b : Int) (k : Nat) (J : List Nat)
    (hk : 0 ≤ (k : Int) - b ∧ (k : Int) - b < 4294967296)
    (hJ : ∀ x ∈ J, 0 ≤ (x : Int) - b ∧ (x : Int) - b < 4294967296) :
    insertByKey (tsnOf t0 b) (tsnN t0 k) (J.map (tsnN t0)) = (insNat k J).map (tsnN t0) := by
  induction J with
  | nil => simp [insertByKey, insNat]
  | cons x xs ih =>
    have hx := hJ x (by simp)
    simp only [List.map_cons, insertByKey, insNat]
    unfold tsnN
    rw [serialKey_tsnOf t0 b k hk, serialKey_tsnOf t0 b x hx]
    by_cases hlt : k < x
    · have : (k : Int) - b < (x : Int) - b := by omega
      simp [hlt, this]
    · have : ¬ ((k : Int) - b < (x : Int) - b) := by omega
      simp only [hlt, this, if_false, List.map_cons]
      have := ih (fun y hy => hJ y (by simp [hy]))
      unfold tsnN at this
      rw [this]

theorem sortByKey_map (t0 : Int) (b : Int) (I : List Nat)
    (hI : ∀ x ∈ I, 0 ≤ (x : Int) - b ∧ (x : Int) - b < 4294967296) :
    sortByKey (tsnOf t0 b) (I.map (tsnN t0)) = (sortNat I).map (tsnN t0) := by
  induction I with
  | nil => simp [sortByKey, sortNat]
  | cons x xs ih =>
    have ih' := ih (fun y hy => hI y (by simp [hy]))
    show insertByKey (tsnOf t0 b) (tsnN t0 x) (sortByKey (tsnOf t0 b) (xs.map (tsnN t0))) = _
    rw [ih']
    exact insertByKey_map t0 b x (sortNat xs) (hI x (by simp))
      (fun y hy => hI y (by simp [(mem_sortNat y xs).1 hy]))

/-- `consolidate` walks exactly to the first missing index. -/
theorem consolidate_spec (t0 : Int) : ∀ (ds : List Nat) (n : Nat),
    ds.Pairwise (· < ·) → (∀ d ∈ ds, n ≤ d ∧ d < n + 4294967295) →
    ∃ n' : Nat, consolidate (tsnOf t0 ((n : Int) - 1)) (ds.map (tsnN t0)) = tsnOf t0 ((n' : Int) - 1)
      ∧ n ≤ n' ∧ (∀ x, n ≤ x → x < n' → x ∈ ds) ∧ n' ∉ ds := by
  intro ds
  induction ds with
  | nil => intro n _ _; exact ⟨n, by simp [consolidate], Nat.le_refl _, by omega, by simp⟩
  | cons d rest ih =>
    intro n hp hb
    rw [List.pairwise_cons] at hp
    have hd := hb d (by simp)
    simp only [List.map_cons, consolidate]
    rw [tsn_plus_one_tsnOf]
    by_cases hdn : d = n
    · subst hdn
      have e1 : tsnN t0 d = tsnOf t0 ((d : Int) - 1 + 1) := by unfold tsnN; congr 1; omega
      rw [if_pos e1]
      have e2 : tsnN t0 d = tsnOf t0 (((d + 1 : Nat) : Int) - 1) := by
        unfold tsnN; congr 1; omega
      rw [e2]
      obtain ⟨n', h1, h2, h3, h4⟩ := ih (d + 1) hp.2 (fun y hy => by
        have := hp.1 y hy; have := hb y (by simp [hy]); omega)
      refine ⟨n', h1, by omega, ?_, ?_⟩
      · intro x hx1 hx2
        by_cases hxd : x = d
        · simp [hxd]
        · exact List.mem_cons_of_mem _ (h3 x (by omega) hx2)
      · intro hmem
        rcases List.mem_cons.1 hmem with h | h
        · omega
        · exact h4 h
    · have hne : tsnN t0 d ≠ tsnOf t0 ((n : Int) - 1 + 1) := by
        intro e
        have := tsnOf_inj t0 (d : Int) ((n : Int) - 1 + 1) (by omega) e
        omega
      rw [if_neg hne]
      refine ⟨n, rfl, Nat.le_refl _, by omega, ?_⟩
      intro hmem
      rcases List.mem_cons.1 hmem with h | h
      · omega
      · have := hp.1 n h; omega

/-! ## the invariant -/

/-- `n` is the first index that has not arrived. -/
def IsCum (ks : List Nat) (n : Nat) : Prop := (∀ j, j < n → j ∈ ks) ∧ n ∉ ks

theorem IsCum.unique {ks : List Nat} {n m : Nat} (h1 : IsCum ks n) (h2 : IsCum ks m) : n = m := by
  rcases Nat.lt_trichotomy n m with h | h | h
  · exact absurd (h2.1 n h) h1.2
  · exact h
  · exact absurd (h1.1 m h) h2.2

/-- Window hypothesis for one arrival: fewer than 2^31 TSNs between the cumulative TSN and the chunk,
in either direction. -/
def InWindow (n k : Nat) : Prop := k < n + 2147483647 ∧ n < k + 2147483648

structure RxInv (t0 : Int) (ks : List Nat) (r : Rx) : Prop where
  ex : ∃ (n : Nat) (I : List Nat), IsCum ks n ∧ r.last = tsnOf t0 ((n : Int) - 1)
      ∧ r.mis = I.map (tsnN t0) ∧ I.Nodup ∧ (∀ k, k ∈ I ↔ (k ∈ ks ∧ n < k))
      ∧ (∀ k ∈ ks, k < n + 2147483647)

theorem RxInv.init (t0 : Int) (dups : List Int) :
    RxInv t0 [] { last := tsn_minus_one t0, mis := [], dups := dups } :=
  ⟨0, [], ⟨by intro j hj; omega, by simp⟩, by simp [tsn_minus_one_eq], by simp, by simp, by simp, by simp⟩

theorem contains_map_tsnN (t0 : Int) (I : List Nat) (k : Nat) (lo : Int)
    (hk : lo ≤ k ∧ (k : Int) < lo + 4294967296)
    (hI : ∀ x ∈ I, lo ≤ (x : Int) ∧ (x : Int) < lo + 4294967296) :
    (I.map (tsnN t0)).contains (tsnN t0 k) = decide (k ∈ I) := by
  rw [Bool.eq_iff_iff]
  simp only [List.contains_iff_mem, List.mem_map, decide_eq_true_eq]
  constructor
  · rintro ⟨x, hx, e⟩
    have hxb := hI x hx
    have := tsnOf_inj t0 (x : Int) (k : Int) (by omega) e
    have : x = k := by omega
    exact this ▸ hx
  · intro h; exact ⟨k, h, rfl⟩

/-- `_mark_received(tsn of index k)` returns "duplicate" iff `k` arrived before, and re-establishes the
invariant. -/
theorem markReceived_spec (t0 : Int) (ks : List Nat) (r : Rx) (k : Nat)
    (hinv : RxInv t0 ks r) (hwin : ∀ n, IsCum ks n → InWindow n k) :
    (markReceived r (tsnN t0 k)).1 = decide (k ∈ ks) ∧ RxInv t0 (ks ++ [k]) (markReceived r (tsnN t0 k)).2 := by
  obtain ⟨n, I, hcum, hlast, hmis, hnd, hI, hbound⟩ := hinv
  have hw := hwin n hcum
  unfold InWindow at hw
  have hIb : ∀ x ∈ I, (n : Int) - 2147483648 ≤ (x : Int) ∧ (x : Int) < (n : Int) - 2147483648 + 4294967296 := by
    intro x hx
    have h1 := (hI x).1 hx
    have h2 := hbound x h1.1
    omega
  have hgte : uint32_gte r.last (tsnN t0 k) = decide (k < n) := by
    rw [hlast]; unfold tsnN
    rw [uint32_gte_tsnOf t0 _ _ (by omega)]
    by_cases h : k < n
    · simp [h]; omega
    · simp [h]; omega
  have hcont : r.mis.contains (tsnN t0 k) = decide (k ∈ I) := by
    rw [hmis]
    exact contains_map_tsnN t0 I k ((n : Int) - 2147483648) (by omega) hIb
  have hdup : (uint32_gte r.last (tsnN t0 k) || r.mis.contains (tsnN t0 k)) = decide (k ∈ ks) := by
    rw [hgte, hcont, Bool.eq_iff_iff]
    simp only [Bool.or_eq_true, decide_eq_true_eq]
    constructor
    · rintro (h | h)
      · exact hcum.1 k h
      · exact ((hI k).1 h).1
    · intro h
      by_cases hkn : k < n
      · exact Or.inl hkn
      · right
        have : k ≠ n := fun e => hcum.2 (e ▸ h)
        exact (hI k).2 ⟨h, by omega⟩
  unfold markReceived
  rw [hdup]
  by_cases hk : k ∈ ks
  · simp only [hk, decide_true, if_true, true_and]
    refine ⟨n, I, ⟨fun j hj => List.mem_append_left _ (hcum.1 j hj), ?_⟩, hlast, hmis, hnd, ?_, ?_⟩
    · intro h; rcases List.mem_append.1 h with h | h
      · exact hcum.2 h
      · simp only [List.mem_singleton] at h; exact hcum.2 (h ▸ hk)
    · intro x; rw [hI x]; simp only [List.mem_append, List.mem_singleton]
      constructor
      · rintro ⟨a, b⟩; exact ⟨Or.inl a, b⟩
      · rintro ⟨a | a, b⟩
        · exact ⟨a, b⟩
        · exact ⟨a ▸ hk, b⟩
    · intro x hx; rcases List.mem_append.1 hx with h | h
      · exact hbound x h
      · simp only [List.mem_singleton] at h; subst h; exact hbound x hk
  · simp only [hk, decide_false, Bool.false_eq_true, if_false, true_and]
    -- fresh index: k ≥ n, k ∉ I
    have hkn : n ≤ k := by
      by_cases h : k < n
      · exact absurd (hcum.1 k h) hk
      · omega
    have hkI : k ∉ I := fun h => hk ((hI k).1 h).1
    have hI1nd : (I ++ [k]).Nodup := by
      rw [List.nodup_append]
      refine ⟨hnd, by simp, ?_⟩
      intro a ha b hb
      simp only [List.mem_singleton] at hb
      subst hb; intro e; exact hkI (e ▸ ha)
    have hI1b : ∀ x ∈ I ++ [k], n ≤ x ∧ x < n + 2147483647 := by
      intro x hx
      rcases List.mem_append.1 hx with h | h
      · have h1 := (hI x).1 h; have := hbound x h1.1; omega
      · simp only [List.mem_singleton] at h; subst h; omega
    have hmap : r.mis ++ [tsnN t0 k] = (I ++ [k]).map (tsnN t0) := by rw [hmis]; simp
    have hsort : sortByKey r.last (r.mis ++ [tsnN t0 k]) = (sortNat (I ++ [k])).map (tsnN t0) := by
      rw [hlast, hmap]
      exact sortByKey_map t0 _ _ (fun x hx => by have := hI1b x hx; omega)
    obtain ⟨n', hc1, hc2, hc3, hc4⟩ := consolidate_spec t0 (sortNat (I ++ [k])) n
      (sortNat_sorted _ hI1nd) (fun d hd => by
        have := hI1b d ((mem_sortNat d _).1 hd); omega)
    have hn'I1 : n' ∉ I ++ [k] := fun h => hc4 ((mem_sortNat n' _).2 h)
    have hn'b : n' ≤ n + 2147483647 := by
      by_cases h : n' = n
      · omega
      · have h1 := hc3 (n' - 1) (by omega) (by omega)
        have := hI1b (n' - 1) ((mem_sortNat _ _).1 h1)
        omega
    have hcons : consolidate r.last (sortByKey r.last (r.mis ++ [tsnN t0 k])) = tsnOf t0 ((n' : Int) - 1) := by
      rw [hsort, hlast]; exact hc1
    have hfilt : (r.mis ++ [tsnN t0 k]).filter (fun x => uint32_gt x (tsnOf t0 ((n' : Int) - 1)))
        = ((I ++ [k]).filter (fun x => decide (n' ≤ x))).map (tsnN t0) := by
      rw [hmap, List.filter_map]
      congr 1
      apply List.filter_congr
      intro x hx
      have := hI1b x hx
      simp only [Function.comp, tsnN]
      rw [uint32_gt_tsnOf t0 _ _ (by omega)]
      by_cases h : n' ≤ x
      · simp [h]; omega
      · simp [h]; omega
    refine ⟨n', (I ++ [k]).filter (fun x => decide (n' ≤ x)), ⟨?_, ?_⟩, ?_, ?_, ?_, ?_, ?_⟩
    · intro j hj
      by_cases hjn : j < n
      · exact List.mem_append_left _ (hcum.1 j hjn)
      · have := (mem_sortNat j _).1 (hc3 j (by omega) hj)
        rcases List.mem_append.1 this with h | h
        · exact List.mem_append_left _ ((hI j).1 h).1
        · exact List.mem_append_right _ h
    · intro h
      rcases List.mem_append.1 h with h | h
      · by_cases e : n' = n
        · exact hcum.2 (e ▸ h)
        · exact hn'I1 (List.mem_append_left _ ((hI n').2 ⟨h, by omega⟩))
      · exact hn'I1 (List.mem_append_right _ h)
    · simp only []; rw [hcons]
    · simp only []; rw [hcons]; exact hfilt
    · exact hI1nd.filter _
    · intro x
      simp only [List.mem_filter, decide_eq_true_eq, List.mem_append, List.mem_singleton]
      constructor
      · rintro ⟨h | h, hle⟩
        · refine ⟨Or.inl ((hI x).1 h).1, ?_⟩
          have : x ≠ n' := fun e => hn'I1 (List.mem_append_left _ (e ▸ h))
          omega
        · refine ⟨Or.inr h, ?_⟩
          have : x ≠ n' := fun e => hn'I1 (List.mem_append_right _ (by simp [← e, h]))
          omega
      · rintro ⟨h | h, hlt⟩
        · exact ⟨Or.inl ((hI x).2 ⟨h, by omega⟩), by omega⟩
        · exact ⟨Or.inr h, by omega⟩
    · intro x hx
      rcases List.mem_append.1 hx with h | h
      · have := hbound x h; omega
      · simp only [List.mem_singleton] at h; subst h; omega

end Aiortc.Sctp
